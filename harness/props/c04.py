"""C04 — Cached results with external values are replayed only while still valid
(redun/file.py is_valid, redun/value.py is_valid_nested, redun/scheduler.py _get_cache)."""
from __future__ import annotations

import contextlib
import json
import os
import shutil

from harness.lib import CORPUS, GEN, Finding, PropertyCheck, TranslateError, cq_bytes, cq_list, run_bool_cases
from harness.props import fileval as fv
from translate import astutil, tr_expr, tr_file, tr_getcache

ROOT = astutil.Path(__file__).resolve().parents[2]
K_C04 = "ContentFile:deleted-after-caching:is_valid-raises-out-of-Scheduler.run"
UNIVERSE = [(d, n) for d in fv.DIRS + [()] for n in fv.FNAMES]

PREAMBLE_TEMPLATE = """
Definition EV : evariant := mkEV @TASK@ @SIMPLE@.
Definition run_state v ops := fold_left (fun s o => res_state s (step Hid v s o)) ops (mkS [] []).
Definition lext (st : state) (i : nat) : leaf :=
  match nth_error (s_objs st) i with Some o => LExt o | None => LPlain end.
Definition ext (st : state) (i : nat) : nested := NLeaf (lext st i).
Definition vcode (r : vres) : nat := match r with VTrue => 1 | VFalse => 2 | VRaise => 10 end%nat.
Fixpoint hcodes v tk st ops : list nat * hstate :=
  match ops with
  | [] => ([], st)
  | o :: r => let rs := hstep Hid EV v tk st o in
              let c := match rs with HReplayed _ _ => 0 | HExecuted _ _ => 1 | HRaised _ => 2 | HChanged _ => 3 end%nat in
              let (cs, st') := hcodes v tk (hres_state rs) r in (c :: cs, st')
  end.
Definition content_is (fs : fsys) (e : fpath * option bytes) : bool :=
  opt_eq bytes_eq (option_map content (fs_get fs (fst e))) (snd e).
"""
FULL_EV = {"task_walks_kwargs": True, "simple_walks_kwargs": True}


def preamble(ev):
    b = lambda x: "true" if x else "false"
    return PREAMBLE_TEMPLATE.replace("@TASK@", b(ev["task_walks_kwargs"])).replace("@SIMPLE@", b(ev["simple_walks_kwargs"]))

EXEC_LOG = []
DISTURB_LOG = []      # st_mtime of the files written by the mid-run disturbance, in order
TASKS = {}
_task = None


def make_task():
    """the cached task of the histories: writes its outputs, returns fresh value objects"""
    global _task
    if _task is not None:
        return _task
    from redun import task

    @task(name="c04_make", namespace="verif_c04", version="1")
    def c04_make(spec, wrap=0):
        from redun.file import File
        cls = fv.classes()
        EXEC_LOG.append("make")
        out = []
        for s in spec:
            for p, data in spec_files(s):
                File(fv.render_f(p)).write(data.decode())
        for s in spec:
            if s[0] == "file":
                out.append(cls[s[1]][0](fv.render_f(s[2])))
            elif s[0] == "set":
                out.append(cls[s[1]][1](fv.render_pat(s[2], s[3])))
            elif s[0] == "dir":
                out.append(cls[s[1]][2](fv.render_d(s[2])))
            else:
                out.append(s[1])
        return wrap_result(out, wrap)

    def values_of(spec):
        cls = fv.classes()
        return [make_obj(cls, *spec_target(s)) for s in spec if spec_target(s) is not None]

    @task(name="c04_publish", namespace="verif_c04", version="1")
    def c04_publish(spec, report):
        # a dependent cached job: its result holds the same external values and what it saw in them
        EXEC_LOG.append("publish")
        return {"value": values_of(spec), "seen": sorted(fv.snapshot().items())}

    @task(name="c04_disturb", namespace="verif_c04", version="1", cache=False)
    def c04_disturb(dops, report):
        # stands for the outside world (or an uncached step) acting on the outputs while the execution runs
        for o in dops:
            apply_external(o, DISTURB_LOG)
        return len(dops)

    @task(name="c04_then", namespace="verif_c04", version="1")
    def c04_then(done, spec, report):
        return c04_publish(spec, report)

    @task(name="c04_main", namespace="verif_c04", version="1")
    def c04_main(spec, dops):
        report = c04_make(spec, 0)
        if not dops:
            return c04_publish(spec, report)
        return c04_then(c04_disturb(dops, report), spec, report)

    @task(name="c04_consume", namespace="verif_c04", version="1")
    def c04_consume(a=None, b=None, data=None, more=None):
        # reads every external value it is given, wherever it sits in the arguments
        EXEC_LOG.append("consume")
        obs = {}
        for v in walk_values((a, b, data, more)):
            obs.update(observe_value(v))
        return {"obs": obs}

    @task(name="c04_pick", namespace="verif_c04", version="1")
    def c04_pick():
        return c04_consume

    @task(name="c04_recover", namespace="verif_c04", version="1")
    def c04_recover(error):
        return {"obs": {"error": repr(error)}}

    @task(name="c04_produce", namespace="verif_c04", version="1")
    def c04_produce(spec, layout):
        # writes its outputs, hashes them, and returns an EXPRESSION that holds them as arguments
        from redun import cond, catch
        from redun.functools import seq
        EXEC_LOG.append("produce")
        for sp in spec:
            for p, data in spec_files(sp):
                from redun.file import File
                File(fv.render_f(p)).write(data.decode())
        vs = values_of(spec)
        del PRODUCED[:]
        PRODUCED.extend((type(v).__name__, v.hash) for v in vs)
        first, rest = vs[0], vs[1:]
        if layout == "pos":
            return c04_consume(*vs[:2])
        if layout == "kw":
            return c04_consume(data=first, more=rest)
        if layout == "kwlist":
            return c04_consume(data=[first, {"x": rest}])
        if layout == "mixed":
            return c04_consume(first, data=rest) if rest else c04_consume(None, data=first)
        if layout == "cond_pos_inner_kw":
            return cond(True, c04_consume(data=vs), None)
        if layout == "cond_kw":
            return cond(cond_expr=True, then_expr=c04_consume(*vs[:2]))
        if layout == "seq_kw":
            return seq(exprs=[c04_consume(*vs[:2])])
        if layout == "catch_inner_kw":
            return catch(c04_consume(data=vs), Exception, c04_recover)
        if layout == "getitem_pos":
            return c04_consume(*vs[:2])["obs"]
        if layout == "getitem_inner_kw":
            return c04_consume(data=vs)["obs"]
        if layout == "call_kw":
            return c04_pick()(data=vs)
        raise ValueError(layout)

    @task(name="c04_tree", namespace="verif_c04", version="1")
    def c04_tree(pop, value):
        # (re)creates a tree with symbolic links and returns the Dir / FileSet over it
        EXEC_LOG.append("tree")
        fv.build_population(pop)
        return fv.tree_value(*value)

    TASKS.update(make=c04_make, publish=c04_publish, disturb=c04_disturb, main=c04_main, consume=c04_consume,
                 produce=c04_produce, tree=c04_tree)
    _task = c04_make
    return _task


PRODUCED = []      # (class name, hash) of the values the last execution of c04_produce put into its expression
LAYOUTS = ["pos", "kw", "kwlist", "mixed", "cond_pos_inner_kw", "cond_kw", "seq_kw", "catch_inner_kw",
           "getitem_pos", "getitem_inner_kw", "call_kw"]


def walk_values(x):
    """the external values nested anywhere in x (own traversal: lists, tuples, dicts)"""
    if isinstance(x, (list, tuple)):
        for y in x:
            yield from walk_values(y)
    elif isinstance(x, dict):
        for y in x.values():
            yield from walk_values(y)
    elif x is not None and hasattr(x, "filesystem"):
        yield x


def observe_value(v):
    """what is on disk for one external value: {key: bytes | None | sorted [(path, bytes)]}"""
    if hasattr(v, "pattern"):          # FileSet / Dir
        key = ("dir:" + v.path) if hasattr(v, "path") else ("set:" + v.pattern)
        out = []
        for f in v:
            with open(f.path, "rb") as fh:
                out.append((os.path.normpath(f.path), fh.read()))
        return {key: sorted(out)}
    try:
        with open(v.path, "rb") as fh:
            return {"file:" + v.path: fh.read()}
    except FileNotFoundError:
        return {"file:" + v.path: None}


def disk_snapshot(spec):
    """the same observation, made independently of redun, for the targets of `spec`"""
    files = fv.snapshot()
    out = {}
    for sp in spec:
        t = spec_target(sp)
        if t is None:
            continue
        tgt = t[1]
        if tgt[0] == "file":
            out["file:" + fv.render_f(tgt[1])] = files.get(tgt[1])
        else:
            key = ("dir:" + fv.render_d(tgt[1])) if tgt[0] == "dir" else ("set:" + fv.render_pat(tgt[1], tgt[2]))
            out[key] = sorted((fv.render_f(p), b) for p, b in files.items() if fv.in_scope(tgt, p))
    return out


def normal_result(res):
    """the observation dict out of what the run returned for any layout"""
    while isinstance(res, (list, tuple)) and len(res) == 1:
        res = res[0]
    if isinstance(res, dict) and "obs" in res:
        res = res["obs"]
    return res


def run_exprflow(spec, layout, ops):
    """runs of `c04_produce(spec, layout)` -- a task whose cached result is an expression holding external
    values -- interleaved with out-of-band changes.  Facts per run for the oracle."""
    from redun import Scheduler
    from redun.config import Config
    import logging
    make_task()
    cls = fv.classes()
    with fv.tempcwd("rv_c04e_"):
        logging.getLogger("redun").setLevel(logging.CRITICAL)
        s = Scheduler(config=Config({"backend": {"db_uri": "sqlite:///:memory:"}}))
        s.logger.disabled = True
        s.load()
        facts, log = [], []
        recorded = None
        for o in ops:
            if o[0] != "run":
                apply_external(o, log)
                continue
            changed = None
            if recorded is not None:
                changed = []
                for (cname, h), sp in zip(recorded, [x for x in spec if spec_target(x) is not None]):
                    try:
                        fresh = make_obj(cls, *spec_target(sp)).hash
                    except FileNotFoundError:
                        fresh = None
                    if fresh != h:
                        changed.append(cname)
            n0 = len(EXEC_LOG)
            err, res = None, None
            try:
                res = normal_result(s.run(TASKS["produce"](spec, layout)))
            except Exception as e:  # noqa
                err = repr(e)
            tags = EXEC_LOG[n0:]
            if "produce" in tags:
                recorded = list(PRODUCED)
            facts.append({"changed": changed, "executed": tags, "error": err, "result": res,
                          "disk": disk_snapshot(spec)})
        return {"spec": spec, "layout": layout, "ops": list(ops), "facts": facts}


def judge_exprflow(run):
    """spec: no exception; the producing task re-executes whenever an external value held by its cached
    expression no longer has the recorded hash; what the run returns is what is on disk now"""
    bad = []
    for idx, f in enumerate(run["facts"]):
        if f["error"] is not None:
            bad.append((f"expression-result:run-raises:{f['error']}"[:200], f"run {idx} raised {f['error']}", idx))
            continue
        if f["changed"] and "produce" not in f["executed"]:
            bad.append((f"expression-result:replayed-although-invalid:{run['layout']}:{f['changed'][0]}",
                        f"run {idx}: the cached expression of the producing task was replayed although the "
                        f"{f['changed'][0]} it holds ({run['layout']}) no longer has the recorded hash", idx))
        if f["result"] != f["disk"]:
            bad.append((f"expression-result:stale-result:{run['layout']}",
                        f"run {idx} returned {str(f['result'])[:120]} but the disk holds {str(f['disk'])[:120]}", idx))
    return bad


def run_treeflow(pop, value, only=None):
    """a cached task returns a Dir / FileSet over a tree with symbolic links; every file that iterating the
    result yields is changed in turn between runs (rewrite / truncate / delete / recreate)"""
    from redun import Scheduler
    from redun.config import Config
    import logging
    make_task()
    value = tuple(value)
    with fv.tempcwd("rv_c04t_"):
        logging.getLogger("redun").setLevel(logging.CRITICAL)
        s = Scheduler(config=Config({"backend": {"db_uri": "sqlite:///:memory:"}}))
        s.logger.disabled = True
        s.load()
        facts = []

        def run(member, how):
            n0 = len(EXEC_LOG)
            err, res = None, None
            try:
                res = s.run(TASKS["tree"](pop, value))
            except Exception as e:  # noqa
                err = repr(e)
            facts.append({"member": member, "mutation": how, "executed": EXEC_LOG[n0:], "error": err})
            return res
        res = run(None, "first run")
        members = sorted(f.path for f in res) if res is not None else []
        run(None, "no change")
        for i, m in enumerate(members):
            how = fv.MUTATIONS[i % len(fv.MUTATIONS)]
            if only is not None and (m, how) != tuple(only):
                continue
            if how == "recreate" and value[1] == "FContent":
                how = "rewrite"          # same bytes leave a content hash unchanged
            if not os.path.lexists(m) or not fv.mutate_member(m, how):
                continue
            run(m, how)
        return {"population": pop, "value": list(value), "members": members, "facts": facts}


def judge_treeflow(run):
    bad = []
    cname, arg = run["value"][0], run["value"][3]
    for idx, f in enumerate(run["facts"]):
        if f["error"] is not None:
            bad.append((f"symlink-tree:run-raises:{f['error']}"[:200], f"run {idx} raised {f['error']}", f))
        elif f["member"] is not None and "tree" not in f["executed"]:
            bad.append((f"symlink-tree:replayed-although-member-changed:{cname}({arg}):{run['population']}",
                        f"the cached {cname}({arg}) lists {f['member']}; after {f['mutation']} of that file the "
                        f"result was replayed instead of re-executing the task", f))
    return bad


def infer_ev():
    """behavioural classification of the expression validity walk (used only when the translator failed closed)"""
    from redun.expression import SimpleExpression, TaskExpression
    make_task()
    H = fake_handle_class()
    return {"task_walks_kwargs": not TaskExpression("verif_c04.c04_consume", (), {"k": H(False)}).is_valid(),
            "simple_walks_kwargs": not SimpleExpression("getitem", (), {"k": H(False)}).is_valid()}


def apply_external(o, log):
    """one out-of-band change; appends (path, st_mtime) of a written file to `log` (None if nothing was done)"""
    if o[0] == "write":
        path = fv.render_f(o[1])
        if os.path.dirname(path):
            os.makedirs(os.path.dirname(path), exist_ok=True)
        with open(path, "wb") as f:
            f.write(o[2])
        if o[3] is not None:
            os.utime(path, (o[3], o[3]))
        log.append(("write", o[1], o[2], os.stat(path).st_mtime))
    elif o[0] == "remove":
        with contextlib.suppress(FileNotFoundError):
            os.remove(fv.render_f(o[1]))
        log.append(("remove", o[1]))
    elif o[0] == "touch":
        path = fv.render_f(o[1])
        if not os.path.exists(path):
            if os.path.dirname(path):
                os.makedirs(os.path.dirname(path), exist_ok=True)
            open(path, "wb").close()
        os.utime(path, (o[2], o[2]))
        log.append(("touch", o[1], os.stat(path).st_mtime))
    elif o[0] == "rmtree":
        shutil.rmtree(fv.render_d(o[1]), ignore_errors=True)
        log.append(("rmtree", o[1]))
    elif o[0] == "swap":
        path = fv.render_f(o[1])
        if not os.path.isfile(path) or os.path.getsize(path) == 0:
            return
        st = os.stat(path)
        with open(path, "rb") as f:
            old = f.read()
        with open(path, "wb") as f:
            f.write(swapped(old))
        os.utime(path, ns=(st.st_atime_ns, st.st_mtime_ns))
        log.append(("write", o[1], swapped(old), os.stat(path).st_mtime))
    else:
        raise ValueError(o)


def run_interleaved(spec, dops):
    """run 1: make, publish.  run 2 (same scheduler): make (replayed while intact), an uncached step applies
    `dops` to the outputs, then the dependent cached job publish is considered.
    Returns facts for the oracle and the equivalent model history [HRun; dops; HRun] with its codes."""
    from redun import Scheduler
    from redun.config import Config
    import logging
    make_task()
    cls = fv.classes()
    with fv.tempcwd("rv_c04i_"):
        logging.getLogger("redun").setLevel(logging.CRITICAL)
        s = Scheduler(config=Config({"backend": {"db_uri": "sqlite:///:memory:"}}))
        s.logger.disabled = True
        s.load()
        ticks = fv.Intern()
        n0 = len(EXEC_LOG)
        first = s.run(TASKS["main"](spec, ()))
        tags1 = EXEC_LOG[n0:]
        mts1 = [(p, ticks(os.stat(fv.render_f(p)).st_mtime)) for p in sorted({p for sp in spec for p, _ in spec_files(sp)})]
        recorded = [(type(v).__name__, v._hash or v.hash) for v in first["value"]]
        del DISTURB_LOG[:]
        n1 = len(EXEC_LOG)
        err, second = None, None
        try:
            second = s.run(TASKS["main"](spec, tuple(dops)))
        except FileNotFoundError as e:
            err, code = repr(e), 2
        except Exception as e:  # noqa
            err, code = repr(e), 98
        tags2 = EXEC_LOG[n1:]
        if err is None:
            code = 1 if "publish" in tags2 else 0
        fresh = []
        for sp in spec:
            tgt = spec_target(sp)
            if tgt is None:
                continue
            try:
                fresh.append(make_obj(cls, *tgt).hash)
            except FileNotFoundError:
                fresh.append(None)
        files = fv.snapshot()
        conc = [("run", mts1)]
        for o in DISTURB_LOG:
            conc.append((o[0], o[1], o[2], ticks(o[3])) if o[0] == "write" else
                        (o[0], o[1], ticks(o[2])) if o[0] == "touch" else o)
        conc.append(("run", []))
        return {"spec": spec, "dops": list(dops), "ops": conc, "codes": [1] + [3] * (len(conc) - 2) + [code],
                "tags1": tags1, "tags2": tags2, "code": code, "error": err,
                "leaves": [{"class": c, "recorded": h, "fresh": f} for (c, h), f in zip(recorded, fresh)],
                "second": None if second is None else
                {"seen": dict(second["seen"]), "value": [(type(v).__name__, v._hash) for v in second["value"]]},
                "files": files}


def interleaved_term(variant, run):
    return ("(let r := hcodes %s %s (mkH [] None 0) %s in list_eq Nat.eqb (fst r) %s)" % (
        fv.cq_variant(variant), cq_list([cq_spec(s) for s in run["spec"]]),
        cq_list([cq_hop(o) for o in run["ops"]]), cq_list([f"{c}%nat" for c in run["codes"]])))


def judge_interleaved(run):
    """the spec at the moment the dependent job is considered: replay only if every mutable external value's
    fresh hash equals the recorded one; otherwise re-execute without raising, with a current result"""
    bad = []
    if run["tags1"] != ["make", "publish"]:
        bad.append(("mid-run:first-run-did-not-execute-make-and-publish", f"first run executed {run['tags1']}"))
    if run["code"] in (2, 98):
        bad.append((f"mid-run:run-raises:{run['error']}"[:200], f"the second run raised {run['error']}"))
        return bad
    changed = [x for x in run["leaves"] if x["class"] not in ("IFile", "IFileSet", "IDir")
               and (x["fresh"] is None or x["fresh"] != x["recorded"])]
    if run["code"] == 0 and changed:
        bad.append((f"mid-run:replayed-although-invalid:{changed[0]['class']}",
                    f"after an uncached step changed the output during the run, the dependent cached job was replayed "
                    f"although its {changed[0]['class']} no longer has the recorded hash"))
    if run["code"] == 1:
        if run["second"]["seen"] != run["files"]:
            bad.append(("mid-run:new-result-not-current", "the re-executed job's result does not show the current bytes"))
        for (c, h), x in zip(run["second"]["value"], run["leaves"]):
            if h != x["fresh"]:
                bad.append((f"mid-run:new-result-not-current:{c}", f"the re-executed job returned a {c} with a stale hash"))
    return bad


def wrap_result(out, wrap):
    """nest the task's outputs in the returned value (leaf order is kept, so validity is unaffected)"""
    if wrap == 1:
        return {"k": out}
    if wrap == 2:
        return [out[:1], {"rest": tuple(out[1:])}, 7]
    return out


def unwrap_result(res, wrap):
    if wrap == 1:
        return res["k"]
    if wrap == 2:
        return list(res[0]) + list(res[1]["rest"])
    return res


def swapped(data):
    """different bytes of the same length"""
    return bytes(b ^ 1 for b in data)


def spec_files(s):
    if s[0] == "file":
        return [(s[2], s[3])]
    if s[0] == "set":
        return list(s[4])
    if s[0] == "dir":
        return list(s[3])
    return []


def spec_target(s):
    if s[0] == "file":
        return (s[1], ("file", s[2]))
    if s[0] == "set":
        return (s[1], ("set", s[2], s[3]))
    if s[0] == "dir":
        return (s[1], ("dir", s[2]))
    return None


def cq_files(files):
    return cq_list([f"({fv.cq_f(p)}, {cq_bytes(d)})" for p, d in files]) if files else "(@nil (fpath * bytes))"


def cq_spec(s):
    if s[0] == "file":
        return f"OutFile {s[1]} {fv.cq_f(s[2])} {cq_bytes(s[3])}"
    if s[0] == "set":
        return f"OutSet {s[1]} {fv.cq_d(s[2])} {'true' if s[3] else 'false'} {cq_files(s[4])}"
    if s[0] == "dir":
        return f"OutDir {s[1]} {fv.cq_d(s[2])} {cq_files(s[3])}"
    return "OutPlain"


def cq_hop(o):
    if o[0] == "run":
        return f"HRun {fv.cq_mts(o[1])}"
    if o[0] == "write":
        return f"HWrite {fv.cq_f(o[1])} {cq_bytes(o[2])} ({o[3]})%Z"
    if o[0] == "remove":
        return f"HRemove {fv.cq_f(o[1])}"
    if o[0] == "touch":
        return f"HTouch {fv.cq_f(o[1])} ({o[2]})%Z"
    if o[0] == "rmtree":
        return f"HRmtree {fv.cq_d(o[1])}"
    raise ValueError(o)


# ---------------------------------------------------------------------------- generators
class HistGen:
    def __init__(self, rng):
        self.rng = rng

    def below(self, d, rec=True):
        r = self.rng
        dirs = [e for e in fv.DIRS if fv.is_prefix(d, e)] if rec else [d]
        return (r.choice(dirs), r.choice(fv.FNAMES))

    def spec(self):
        r = self.rng
        out = []
        for _ in range(r.choice([1, 1, 2, 2, 3])):
            k = r.random()
            fam = r.choice(fv.FAMS) if r.random() < 0.7 else "FContent"
            if k < 0.4:
                out.append(("file", fam, (r.choice(fv.DIRS), r.choice(fv.FNAMES)), r.choice(fv.DATA)))
            elif k < 0.65:
                d = r.choice(fv.DIRS)
                files = [(self.below(d), r.choice(fv.DATA)) for _ in range(r.choice([1, 2, 2, 3]))]
                out.append(("dir", fam, d, tuple(files)))
            elif k < 0.9:
                d = r.choice(fv.DIRS)
                rec = r.random() < 0.5
                files = [(self.below(d, rec), r.choice(fv.DATA)) for _ in range(r.choice([1, 2, 2]))]
                out.append(("set", fam, d, rec, tuple(files)))
            else:
                out.append(("plain", r.choice([0, 7, "x"])))
        return out

    def history(self, spec):
        r = self.rng
        files = [p for s in spec for p, _ in spec_files(s)] or [((0,), 0)]
        data = dict((p, d) for s in spec for p, d in spec_files(s))
        dirs = [s[2] for s in spec if s[0] in ("dir", "set")]
        ops = [("run",)]
        for _ in range(r.randint(3, 9)):
            k = r.random()
            if k < 0.40:
                ops.append(("run",))
            elif k < 0.47:
                if ops[-1][0] != "run":
                    ops.append(("run",))
                ops.append(("swap", r.choice(files)))       # same length, same mtime, other bytes
                ops.append(("run",))
            elif k < 0.57:
                ops.append(("remove", r.choice(files)))
            elif k < 0.68:
                ops.append(("write", r.choice(files), r.choice(fv.DATA), r.choice(fv.TIMES + [None])))   # rewrite / truncate
            elif k < 0.76:
                p = r.choice(files)
                ops.append(("write", p, data.get(p, b""), r.choice(fv.TIMES + [None])))                # recreate, same bytes
            elif k < 0.86:
                ops.append(("touch", r.choice(files), r.choice(fv.TIMES)))
            elif k < 0.93 and dirs:
                ops.append(("write", self.below(r.choice(dirs)), r.choice(fv.DATA), None))              # new member
            elif dirs:
                ops.append(("rmtree", r.choice(dirs)))
            else:
                ops.append(("remove", r.choice(files)))
        if ops[-1][0] != "run":
            ops.append(("run",))
        return ops


def run_history(spec, ops, wrap=0):
    """Run a history on the real Scheduler in a fresh temp dir.
    Returns dict(ops concrete, codes, execs, files (final snapshot), facts per run for the oracle)."""
    from redun import Scheduler
    from redun.config import Config
    task = make_task()
    cls = fv.classes()
    with fv.tempcwd("rv_c04_"):
        import logging
        logging.getLogger("redun").setLevel(logging.CRITICAL)
        s = Scheduler(config=Config({"backend": {"db_uri": "sqlite:///:memory:"}}))
        s.logger.disabled = True
        s.load()
        ticks = fv.Intern()
        tick = lambda p: ticks(os.stat(fv.render_f(p)).st_mtime)
        conc, codes, facts = [], [], []
        prev = None
        n0 = len(EXEC_LOG)
        for o in ops:
            if o[0] == "run":
                before = len(EXEC_LOG)
                # what an independent observer sees just before the run
                pre = None
                if prev is not None:
                    pre = []
                    for leaf, sp in zip(prev, spec):
                        tgt = spec_target(sp)
                        if tgt is None:
                            continue
                        fresh_obj = make_obj(cls, *tgt)
                        try:
                            fresh = fresh_obj.hash
                        except FileNotFoundError:
                            fresh = None
                        pre.append({"class": type(leaf).__name__, "recorded": leaf._hash, "fresh": fresh,
                                    "missing": not any(fv.in_scope(tgt[1], p) for p in fv.all_files(()))})
                err = None
                try:
                    res = unwrap_result(s.run(task(spec, wrap)), wrap)
                    executed = len(EXEC_LOG) > before
                    code = 1 if executed else 0
                except FileNotFoundError as e:
                    res, code, err = None, 2, repr(e)
                except Exception as e:  # noqa
                    res, code, err = None, 98, repr(e)
                fact = {"code": code, "pre": pre, "error": err, "executed": len(EXEC_LOG) > before}
                if res is not None:
                    post = []
                    for leaf, sp in zip(res, spec):
                        tgt = spec_target(sp)
                        if tgt is None:
                            continue
                        try:
                            fresh = make_obj(cls, *tgt).hash
                        except FileNotFoundError:
                            fresh = None
                        post.append({"class": type(leaf).__name__, "recorded": leaf._hash, "fresh": fresh})
                    fact["post"] = post
                    fact["files"] = fv.snapshot()
                    prev = res
                facts.append(fact)
                mts = []
                if len(EXEC_LOG) > before:
                    mts = [(p, tick(p)) for p in sorted({p for sp in spec for p, _ in spec_files(sp)})
                           if os.path.exists(fv.render_f(p))]
                conc.append(("run", mts))
                codes.append(code)
            else:
                if o[0] == "write":
                    path = fv.render_f(o[1])
                    if os.path.dirname(path):
                        os.makedirs(os.path.dirname(path), exist_ok=True)
                    with open(path, "wb") as f:
                        f.write(o[2])
                    if o[3] is not None:
                        os.utime(path, (o[3], o[3]))
                    conc.append(("write", o[1], o[2], tick(o[1])))
                elif o[0] == "remove":
                    with contextlib.suppress(FileNotFoundError):
                        os.remove(fv.render_f(o[1]))
                    conc.append(o)
                elif o[0] == "touch":
                    path = fv.render_f(o[1])
                    if not os.path.exists(path):
                        if os.path.dirname(path):
                            os.makedirs(os.path.dirname(path), exist_ok=True)
                        open(path, "wb").close()
                    os.utime(path, (o[2], o[2]))
                    conc.append(("touch", o[1], tick(o[1])))
                elif o[0] == "rmtree":
                    shutil.rmtree(fv.render_d(o[1]), ignore_errors=True)
                    conc.append(o)
                elif o[0] == "swap":
                    # rewrite with other bytes of the same length, then restore the previous mtime (cp -p / utime)
                    path = fv.render_f(o[1])
                    if not os.path.isfile(path) or os.path.getsize(path) == 0:
                        continue
                    st = os.stat(path)
                    with open(path, "rb") as f:
                        old = f.read()
                    with open(path, "wb") as f:
                        f.write(swapped(old))
                    os.utime(path, ns=(st.st_atime_ns, st.st_mtime_ns))
                    conc.append(("write", o[1], swapped(old), tick(o[1])))
                codes.append(3)
        return {"spec": spec, "wrap": wrap, "abstract": ops, "ops": conc, "codes": codes, "execs": len(EXEC_LOG) - n0,
                "files": fv.snapshot(), "facts": facts}


def make_obj(cls, fam, target):
    F, S, D = cls[fam]
    if target[0] == "file":
        return F(fv.render_f(target[1]))
    if target[0] == "set":
        return S(fv.render_pat(target[1], target[2]))
    return D(fv.render_d(target[1]))


def history_term(variant, run):
    files = run["files"]
    exp = cq_list([f"({fv.cq_f(p)}, {'(Some ' + cq_bytes(files[p]) + ')' if p in files else 'None'})" for p in UNIVERSE])
    return ("(let r := hcodes %s %s (mkH [] None 0) %s in andb (andb (list_eq Nat.eqb (fst r) %s) "
            "(Nat.eqb (h_execs (snd r)) %d%%nat)) (forallb (content_is (h_fs (snd r))) %s))" % (
                fv.cq_variant(variant), cq_list([cq_spec(s) for s in run["spec"]]),
                cq_list([cq_hop(o) for o in run["ops"]]), cq_list([f"{c}%nat" for c in run["codes"]]),
                run["execs"], exp))


# ---------------------------------------------------------------------------- is_valid_nested cases
def fake_handle_class():
    from redun.value import Value

    class FakeHandle(Value):
        """stands for a Handle whose backend row is valid / rolled back (Handle.is_valid itself: C25)"""
        type_name = "verif_c04.FakeHandle"

        def __init__(self, ok):
            self.ok = ok

        def is_valid(self):
            return self.ok

        def __getstate__(self):
            return {"ok": self.ok}

        def __setstate__(self, state):
            self.ok = state["ok"]

        def get_hash(self, data=None):
            return "fakehandle-%s" % self.ok

    FakeHandle.__qualname__ = "FakeHandle"
    FakeHandle.__module__ = __name__
    globals()["FakeHandle"] = FakeHandle          # picklable: expressions serialise their arguments
    return FakeHandle


def ast_visit(a):
    """leaves of my value tree in the order iter_nested_value meets them (explicit stack: last child first)"""
    if a[0] == "leaf":
        return [a[1]]
    out = []
    for c in reversed(a[1]):
        out += ast_visit(c)
    return out


def ast_nested(a):
    if a[0] == "leaf":
        return f"(NLeaf {a[1]})"
    return "(NNode " + (cq_list([ast_nested(c) for c in a[1]]) if a[1] else "(@nil nested)") + ")"


def cq_leaves(ls):
    return cq_list(ls) if ls else "(@nil leaf)"


class NestedGen:
    def __init__(self, rng, handle_cls):
        self.rng, self.H = rng, handle_cls

    def tree(self, usable, recorded, depth):
        """returns (python value, coq term of type nested)"""
        v, a = self.ast(usable, recorded, depth, 2)
        return v, ast_nested(a)

    def expression(self, usable, recorded, depth, edepth):
        """a TaskExpression / SchedulerExpression / SimpleExpression holding values in args and kwargs"""
        from redun.expression import SchedulerExpression, SimpleExpression, TaskExpression
        r = self.rng
        make_task()
        kind = r.choice(["task", "task", "task", "sched", "simple", "simple_kw"])
        nargs = r.choice([0, 1, 1, 2])
        nkw = 0 if kind == "simple" else r.choice([0, 1, 1, 2])
        if nargs + nkw == 0:
            nkw = 1 if kind != "simple" else 0
            nargs = 1 - nkw
        akids = [self.ast(usable, recorded, depth - 1, edepth - 1) for _ in range(nargs)]
        kkids = [self.ast(usable, recorded, depth - 1, edepth - 1) for _ in range(nkw)]
        args = tuple(v for v, _ in akids)
        kwargs = {f"k{j}": v for j, (v, _) in enumerate(kkids)}
        a_ast = ("node", [a for _, a in akids])
        k_ast = ("node", [("leaf", "LPlain")] * nkw + [a for _, a in kkids])
        known = True
        if kind == "task":
            known = r.random() < 0.85
            e = TaskExpression("verif_c04.c04_consume" if known else "verif_c04.no_such_task", args, kwargs)
            ek = "ETask"
        elif kind == "sched":
            e = SchedulerExpression("redun.cond", args, kwargs)
            ek = "ETask"
        else:
            e = SimpleExpression("getitem", args, kwargs)
            ek = "ESimple"
        term = (f"(LExpr {ek} {'true' if known else 'false'} {cq_leaves(ast_visit(k_ast))} "
                f"{cq_leaves(ast_visit(a_ast))})")
        return fv.unpickled(e), ("leaf", term)

    def ast(self, usable, recorded, depth, edepth):
        """returns (python value, tree) with tree = ("leaf", coq leaf term) | ("node", [children])"""
        r = self.rng
        if depth <= 0 or r.random() < 0.35:
            k = r.random()
            if k < 0.25 and edepth > 0:
                return self.expression(usable, recorded, max(depth, 1), edepth)
            if k < 0.7 and usable:
                i = r.choice(usable)
                return fv.unpickled(recorded[i]), ("leaf", f"(lext st {i}%nat)")
            if k < 0.85:
                return r.choice([0, "s", 1.5, None]), ("leaf", "LPlain")
            b = r.random() < 0.6
            return self.H(b), ("leaf", f"(LHandle {'true' if b else 'false'})")
        n = r.choice([1, 2, 2, 3])
        kids = [self.ast(usable, recorded, depth - 1, edepth) for _ in range(n)]
        k = r.random()
        if k < 0.45:
            return [v for v, _ in kids], ("node", [a for _, a in kids])
        if k < 0.7:
            return tuple(v for v, _ in kids), ("node", [a for _, a in kids])
        keys = [f"k{j}" for j in range(n)]
        return dict(zip(keys, [v for v, _ in kids])), ("node", [("leaf", "LPlain")] * n + [a for _, a in kids])


def nested_case(rng, variant, handle_cls):
    """one is_valid_nested case on the real code; returns (coq term, description)"""
    from redun.value import get_type_registry
    g = fv.TraceGen(rng)
    with fv.tempcwd("rv_c04n_"):
        w = fv.World()
        conc = []
        for o in g.trace(rng.randint(3, 8)):
            conc.append(w.apply(o)[2])
        usable, recorded = [], {}
        for i in range(len(w.objs)):
            code, _, c = w.apply(("hash", i))
            conc.append(c)
            if code == 3:
                usable.append(i)
                recorded[i] = fv.unpickled(w.objs[i])
        files = [w.kinds[i][1][1] for i in usable if w.kinds[i][1][0] == "file"]
        for _ in range(rng.randint(0, 4)):
            k = rng.random()
            if k < 0.15 and files:
                # other bytes of the same length, previous mtime restored
                p = rng.choice(files)
                path = fv.render_f(p)
                if os.path.isfile(path) and os.path.getsize(path) > 0:
                    st = os.stat(path)
                    with open(path, "rb") as f:
                        old = f.read()
                    with open(path, "wb") as f:
                        f.write(swapped(old))
                    os.utime(path, ns=(st.st_atime_ns, st.st_mtime_ns))
                    conc.append(("xwrite", p, swapped(old), w.tick(p)))
                continue
            if k < 0.45 and files:
                o = rng.choice([("xremove", rng.choice(files)), ("xwrite", rng.choice(files), rng.choice(fv.DATA), None),
                                ("xtouch", rng.choice(files), rng.choice(fv.TIMES))])
            elif k < 0.8:
                o = rng.choice([("xwrite", g.fpath(), rng.choice(fv.DATA), rng.choice(fv.TIMES + [None])),
                                ("xremove", g.fpath()), ("xtouch", g.fpath(), rng.choice(fv.TIMES))])
            else:
                o = ("xrmtree", rng.choice(fv.DIRS))
            conc.append(w.apply(o)[2])
        val, term = NestedGen(rng, handle_cls).tree(usable, recorded, rng.randint(0, 3))
        try:
            code = 1 if get_type_registry().is_valid_nested(val) else 2
        except FileNotFoundError:
            code = 10
        except Exception as e:  # noqa
            code = 98
        t = ("(let st := run_state %s %s in Nat.eqb (vcode (is_valid_nested Hid EV %s (s_fs st) %s)) %d%%nat)" % (
            fv.cq_variant(variant), cq_list([fv.cq_op(o) for o in conc]), fv.cq_variant(variant), term, code))
        return t, {"ops": repr(conc)[:300], "value": repr(val)[:200], "code": code}, code


class Check(PropertyCheck):
    id = "C04"
    module = "Props.C04"
    extra_modules = ["Base.Lit"]
    theorems = ["C04_still_valid_meaning", "C04_replay_only_if_valid", "C04_replay_iff_valid_fixed",
                "C04_lookup_never_raises_fixed", "C04_refuted_contentfile_deleted",
                "C04_hash_raises_only_missing_contentfile", "C04_expr_kwargs_unchecked_when_args_only",
                "C04_refuted_expr_args_only", "C04_cse_checks_handles_only", "C04_handles_valid_meaning",
                "C04_errors_not_replayed",
                "C04_run_never_raises_fixed", "C04_run_decides_by_validity_fixed", "C04_run_result_current_fixed",
                "C04_executed_reflects_state", "C04_written_contents", "C04_run_refuted_as_shipped", "C04_nonvacuous"]
    allowed_axioms = []
    section_premises = []
    assumptions = [
        "the filesystem abstraction of Model/FileVal.v (see C30): local files, disjoint file/dir names, implicit "
        "directories, dir/* and dir/** patterns, OS-assigned mtimes as inputs",
        "Handle leaves: validity is the backend's row flag (property C25); exercised in the correspondence with a "
        "stand-in Value whose is_valid returns the flag",
        "same-execution (CSE) hits are returned by _get_cache after checking only the Handles in them "
        "(C04_cse_checks_handles_only; Scheduler._has_valid_handles pinned by shape); the "
        "histories of the property interleave changes between runs, where the backend cache (SINGLE/ULTIMATE) is used",
        "expression leaves: kw/args are the leaves of an expression's keyword / positional arguments in the order its "
        "is_valid walks them; which containers are walked is extracted from redun/expression.py (evariant); theorems "
        "with premise `full ev` apply iff the tie lemma C04_tie_expr (gen_ev = full_ev) is emitted",
        "the task of the run-level machine writes its outputs and returns fresh value objects, so recorded hashes are "
        "those of the filesystem at the end of the task",
    ]
    rule = ("(a) is_valid_nested on random nested lists/tuples/dicts of recorded file values of all 9 classes, plain "
            "values and handle stand-ins after out-of-band changes; (b) histories run/remove/rewrite/truncate/"
            "recreate/touch/add-member/rmtree on the real Scheduler with one cached task returning 1-3 outputs of "
            "every class (bare and nested results; also same-length rewrites with restored mtime); (c) executions with a "
            "change between two cached jobs of one execution; (d) workflows whose producing task returns an expression "
            "(TaskExpression, cond/seq/catch, getitem, call) holding external values by position, keyword, nested in a "
            "keyword, mixed; (a) also contains such expressions, recorded and unpickled; "
            "non-trivial = at least one external leaf / at least two runs; distinct by repr")

    variant = None
    ev = None

    def translate(self):
        pins30 = json.loads((ROOT / "translate" / "pins_C30.json").read_text())
        pins04 = json.loads((ROOT / "translate" / "pins_C04.json").read_text())
        try:
            text, variant, _ = tr_file.translate(pins=pins30)
            ctext, chain, _ = tr_getcache.translate(pins=pins04)
            etext, ev, _ = tr_expr.translate(pins=pins04)
        except astutil.TranslateError as e:
            raise TranslateError(str(e))
        self.variant = variant
        self.ev = ev
        text = text.replace("C30_tie_", "C04_tie_file_")
        b = "true" if variant["content_missing_total"] else "false"
        text += ctext + etext
        text += ("(* which theorems of Props/C04.v apply to the code as it is now *)\n"
                 f"Lemma C04_site_content_missing_total : content_missing_total gen_variant = {b}.\nProof. reflexivity. Qed.\n")
        GEN.mkdir(exist_ok=True)
        p = GEN / "C04Gen.v"
        p.write_text(text)
        return [p]

    # ------------------------------------------------------------------
    def histories(self):
        if hasattr(self, "hruns"):
            return self.hruns
        g = HistGen(self.rng)
        n = 28 if self.tier == "quick" else 900
        todo = []
        corpus = CORPUS / "C04.jsonl"
        if corpus.exists():
            for line in corpus.read_text().splitlines():
                if line.strip():
                    d = json.loads(line)
                    todo.append(("corpus", eval(d["spec"]), eval(d["ops"]), int(d.get("wrap", 0))))
        p = ((0,), 0)
        for fam in fv.FAMS:        # small scope: every class, delete / alter / recreate, directory membership
            todo.append(("scripted", [("file", fam, p, b"ab")],
                         [("run",), ("swap", p), ("run",), ("run",), ("remove", p), ("run",), ("run",),
                          ("write", p, b"bb", None), ("run",),
                          ("write", p, b"a", 5), ("run",), ("touch", p, 6), ("run",), ("run",), ("swap", p), ("run",),
                          ("run",)]))
            for shape in ("dir", "set"):
                files = ((p, b"a"), (((0, 2), 1), b"b"))
                sp = ("dir", fam, (0,), files) if shape == "dir" else ("set", fam, (0,), True, files)
                todo.append(("scripted", [sp, ("plain", 7)],
                             [("run",), ("swap", p), ("run",), ("run",), ("remove", p), ("run",),
                              ("write", ((0,), 2), b"new", None), ("run",),
                              ("run",), ("touch", p, 6), ("run",), ("swap", p), ("run",), ("rmtree", (0,)), ("run",),
                              ("run",), ("swap", ((0, 2), 1)), ("run",)]))
        for _ in range(n):
            sp = g.spec()
            todo.append(("random", sp, g.history(sp)))
        todo = [t if len(t) == 4 else t + (i % 3,) for i, t in enumerate(todo)]     # bare and nested results
        self.hruns = []
        for kind, sp, ops, wrap in todo:
            run = run_history(sp, ops, wrap)
            self.stat("result_nesting", {0: "list of outputs", 1: "dict of list", 2: "list/dict/tuple mix"}[wrap])
            run["kind"] = kind
            self.hruns.append(run)
            for s in sp:
                self.stat("output", f"{s[1]}:{s[0]}" if s[0] != "plain" else "plain")
            for o in ops:
                self.stat("history_op", o[0])
            for c in run["codes"]:
                if c != 3:
                    self.stat("run_outcome", {0: "replayed", 1: "executed", 2: "raised FileNotFoundError"}.get(c, f"other:{c}"))
            self.count(repr((sp, ops)) if sum(o[0] == "run" for o in ops) >= 2 else None)
            if kind == "random":
                self.sample({"spec": repr(sp)[:300], "ops": repr(run["ops"])[:300], "codes": run["codes"]}, 3)
        return self.hruns

    def interleavings(self):
        """histories with a change DURING an execution (between two cached jobs of the same run)"""
        if hasattr(self, "iruns"):
            return self.iruns
        p, q = ((0,), 0), ((0, 2), 1)
        todo = []
        for fam in ("FBase", "FContent"):
            shapes = [[("file", fam, p, b"ab")], [("dir", fam, (0,), ((p, b"ab"), (q, b"b")))],
                      [("set", fam, (0,), True, ((p, b"ab"), (q, b"b")))],
                      [("plain", 7), ("file", fam, p, b"ab"), ("dir", fam, (1,), ((((1,), 1), b"x"),))]]
            for si, sp in enumerate(shapes):
                for dops in ([("write", p, b"second, longer version", None)], [("remove", p)], [("swap", p)],
                             [("touch", p, 6)]):
                    if dops[0][0] == "touch" and si and self.tier == "quick":
                        continue
                    todo.append((sp, dops))
        todo.append(([("file", "FImm", p, b"ab")], [("remove", p)]))
        todo.append(([("file", "FContent", p, b"ab")], []))
        g = HistGen(self.rng)
        for _ in range(4 if self.tier == "quick" else 300):
            sp = g.spec()
            ops = [o for o in g.history(sp) if o[0] != "run"][:self.rng.randint(1, 3)]
            todo.append((sp, ops))
        self.iruns = []
        for sp, dops in todo:
            run = run_interleaved(sp, dops)
            self.iruns.append(run)
            self.stat("mid_run_change", "+".join(o[0] for o in dops) or "none")
            self.stat("mid_run_outcome", {0: "dependent job replayed", 1: "dependent job re-executed",
                                          2: "raised FileNotFoundError"}.get(run["code"], f"other:{run['code']}"))
            self.count(repr((sp, dops)))
        return self.iruns

    def exprflows(self):
        """workflows whose producing task returns an EXPRESSION holding external values (positional, keyword,
        nested in a keyword, inside scheduler / simple expressions), with changes between runs"""
        if hasattr(self, "eruns"):
            return self.eruns
        p, q = ((0,), 0), ((0, 2), 1)
        combos = []
        for fam in ("FBase", "FContent"):
            combos += [[("file", fam, p, b"ab")], [("dir", fam, (0,), ((p, b"ab"), (q, b"b")))],
                       [("set", fam, (0,), True, ((p, b"ab"), (q, b"b"))), ("file", fam, ((1,), 1), b"xyz")]]

        def script(sp):
            f0 = spec_files(sp[0])[0]
            return [("run",), ("run",), ("write", f0[0], f0[1] + b"!", None), ("run",), ("write", f0[0], b"", None),
                    ("run",), ("remove", f0[0]), ("run",), ("remove", f0[0]), ("write", f0[0], f0[1], None), ("run",),
                    ("run",)]
        todo = []
        for li, layout in enumerate(LAYOUTS):
            pick = combos if self.tier != "quick" else [combos[(li + j * 3 + j) % len(combos)] for j in range(2)]
            for sp in pick:
                todo.append((sp, layout, script(sp)))
        g = HistGen(self.rng)
        for _ in range(6 if self.tier == "quick" else 200):
            sp = [x for x in g.spec() if x[0] != "plain" and x[1] != "FImm"][:2]
            if not sp:
                continue
            ops = []
            for o in g.history(sp):
                if o[0] == "swap":
                    continue
                if o[0] == "write" and o[3] is not None:
                    o = ("write", o[1], o[2] + b"!!", None)
                ops.append(o)
            todo.append((sp, self.rng.choice(LAYOUTS), ops))
        self.eruns = []
        for sp, layout, ops in todo:
            run = run_exprflow(sp, layout, ops)
            self.eruns.append(run)
            self.stat("expression_layout", layout)
            for f in run["facts"]:
                self.stat("expression_run", "raised" if f["error"] else
                          ("producer re-executed" if "produce" in f["executed"] else "expression replayed"))
            self.count(repr((sp, layout, ops)))
        return self.eruns

    def treeflows(self):
        if hasattr(self, "truns"):
            return self.truns
        V = {v[0] + v[3]: v for v in fv.TREE_VALUES}
        todo = [(p, V["Dird0"]) for p in ("linked_subdir", "linked_file", "outside_nested", "broken_links")]
        todo += [("linked_subdir", V["ContentDird0"]), ("outside_nested", V["FileSetd0/**"])]
        if self.tier != "quick":
            todo = [(p, v) for p in fv.POPULATIONS for v in fv.TREE_VALUES]
        self.truns = [run_treeflow(p, v) for p, v in todo]
        for r in self.truns:
            self.stat("symlink_tree_workflow", f"{r['population']}:{r['value'][0]}({r['value'][3]})", len(r["facts"]))
            self.count(repr((r["population"], r["value"])))
        return self.truns

    def correspond(self):
        hruns = self.histories()
        iruns = self.interleavings()
        variant = self.variant
        if variant is None:
            # translator failed closed: compare with the variant the real code exhibits, so that a change of
            # behaviour still yields concrete mismatching cases in the report
            from harness.props.c30 import infer_variant
            variant = infer_variant()
        ev = self.ev or infer_ev()
        H = fake_handle_class()
        n = 110 if self.tier == "quick" else 4000
        terms, descr = [], []
        for _ in range(n):
            t, d, code = nested_case(self.rng, variant, H)
            terms.append(t)
            descr.append(d)
            self.stat("is_valid_nested", {1: "True", 2: "False", 10: "FileNotFoundError"}.get(code, f"other:{code}"))
            self.count(d["value"] + d["ops"] if "File" in d["value"] or "Dir" in d["value"] else None)
            self.sample({"is_valid_nested": d}, 5)
        ok, failing, diags = run_bool_cases("C04n", ["Base.Decimal", "Base.Lit", "Model.FileVal"], preamble(ev), terms, chunk=40)
        self.ob("correspondence", f"model is_valid_nested == TypeRegistry.is_valid_nested on {len(terms)} nested values "
                "(True / False / raises, visiting order and short-circuit included)", ok and not failing,
                "\n".join(diags) + "".join(f"\nmismatch: {descr[i]}" for i in failing[:5]))
        terms = [history_term(variant, r) for r in hruns]
        ok, failing, diags = run_bool_cases("C04h", ["Base.Decimal", "Base.Lit", "Model.FileVal"], preamble(ev), terms, chunk=20)
        self.ob("correspondence", f"model run-level machine == real Scheduler.run on {len(terms)} histories "
                "(replayed / executed / raised per run, execution count, final bytes of every file)", ok and not failing,
                "\n".join(diags) + "".join(
                    f"\nmismatch: spec={hruns[i]['spec']!r} ops={hruns[i]['ops']!r} codes={hruns[i]['codes']} "
                    f"execs={hruns[i]['execs']}" for i in failing[:5]))
        terms = [interleaved_term(variant, r) for r in iruns]
        ok, failing, diags = run_bool_cases("C04i", ["Base.Decimal", "Base.Lit", "Model.FileVal"], preamble(ev), terms, chunk=20)
        self.ob("correspondence", f"model validity decision == real Scheduler on {len(terms)} executions in which an "
                "uncached step rewrites / deletes / touches the outputs between two cached jobs of the same execution "
                "(dependent job replayed / re-executed / raised)", ok and not failing,
                "\n".join(diags) + "".join(
                    f"\nmismatch: spec={iruns[i]['spec']!r} ops={iruns[i]['ops']!r} codes={iruns[i]['codes']}"
                    for i in failing[:5]))

    # ------------------------------------------------------------------
    def judge(self, run):
        """Decide the property on one real history. Returns list of (key, what, run index)."""
        bad = []
        spec = run["spec"]
        data = {}
        for s in spec:
            for p, d in spec_files(s):
                data[p] = d
        for idx, f in enumerate(run["facts"]):
            if f["code"] == 2 or f["code"] == 98:
                cf_missing = f["pre"] is not None and any(x["class"] == "ContentFile" and x["missing"] for x in f["pre"])
                key = K_C04 if (f["code"] == 2 and cf_missing and not f["executed"]) else f"run-raises:{f['error']}"[:200]
                bad.append((key, f"Scheduler.run raised {f['error']}", idx))
                continue
            if f["code"] == 0 and f["pre"] is not None:
                for x in f["pre"]:
                    if x["class"] in ("IFile", "IFileSet", "IDir"):
                        continue      # immutable kinds are always valid
                    if x["fresh"] is None or x["fresh"] != x["recorded"]:
                        bad.append((f"replayed-although-invalid:{x['class']}",
                                    f"run {idx} replayed a cached result although a {x['class']} changed", idx))
            if f["code"] == 1:
                for x in f.get("post", []):
                    if x["recorded"] != x["fresh"]:
                        bad.append((f"new-result-not-current:{x['class']}",
                                    f"run {idx} re-executed but the returned {x['class']} does not have the current hash", idx))
                for p, d in data.items():
                    if f["files"].get(p) != d:
                        bad.append(("new-result-not-current:file-bytes",
                                    f"run {idx} re-executed but {fv.render_f(p)} does not hold the task's bytes", idx))
        return bad

    def oracle(self):
        hruns = self.histories()
        witness = run_history([("file", "FContent", ((0,), 0), b"a")], [("run",), ("remove", ((0,), 0)), ("run",)])
        witness["kind"] = "witness"
        keys = set()
        nruns = 0
        for run in [witness] + hruns:
            nruns += len(run["facts"])
            for key, what, idx in self.judge(run):
                if key == K_C04 and self.variant is not None and self.variant["content_missing_total"]:
                    key += ":although-the-source-has-the-repaired-shape"
                if key in keys:
                    continue
                keys.add(key)
                upto = [i for i, o in enumerate(run["abstract"]) if o[0] == "run"][idx]
                self.findings.append(Finding(key, what, {"kind": "history", "spec": repr(run["spec"]),
                                                         "wrap": run.get("wrap", 0), "ops": repr(run["abstract"][:upto + 1]), "run": idx, "what": what}))
        for run in self.interleavings():
            nruns += 2
            for key, what in judge_interleaved(run):
                if key in keys:
                    continue
                keys.add(key)
                self.findings.append(Finding(key, what, {"kind": "interleaved", "spec": repr(run["spec"]),
                                                         "mid_run_ops": repr(run["dops"]), "what": what,
                                                         "leaves": run["leaves"], "executed_in_run_2": run["tags2"]}))
        for run in self.exprflows():
            nruns += len(run["facts"])
            for key, what, idx in judge_exprflow(run):
                if key in keys:
                    continue
                keys.add(key)
                upto = [i for i, o in enumerate(run["ops"]) if o[0] == "run"][idx]
                self.findings.append(Finding(key, what, {"kind": "exprflow", "spec": repr(run["spec"]),
                                                         "layout": run["layout"], "ops": repr(run["ops"][:upto + 1]),
                                                         "run": idx, "what": what}))
        for run in self.treeflows():
            nruns += len(run["facts"])
            for key, what, f in judge_treeflow(run):
                if key in keys:
                    continue
                keys.add(key)
                self.findings.append(Finding(key, what, {"kind": "treeflow", "population": run["population"],
                                                         "value": run["value"], "member": f["member"],
                                                         "mutation": f["mutation"], "tree": repr(fv.POPULATIONS[run["population"]]),
                                                         "what": what}))
        self.stat("oracle", "symlink_tree_workflows", len(self.treeflows()))
        if self.ev is not None and not (self.ev["task_walks_kwargs"] and self.ev["simple_walks_kwargs"]) and \
                not any(k.startswith("expression-result:") for k in keys):
            self.ob("tie-witness", "expression validity walk classified as positional-arguments-only: a workflow whose "
                    "cached expression holds a changed external value by keyword is replayed on the real code", False,
                    f"translator reports {self.ev} but no stale replay was observed")
        self.stat("oracle", "expression_result_workflows", len(self.exprflows()))
        self.evaluations += nruns
        self.stat("oracle", "histories", len(hruns) + 1)
        self.stat("oracle", "executions_with_mid_run_change", len(self.interleavings()))
        self.stat("oracle", "runs_judged", nruns)
        self.ob("oracle", f"implementation oracle ran on {len(hruns) + 1} histories / {nruns} runs of the real Scheduler "
                "(no exception escapes run; a replay only with every mutable external value unchanged; a re-execution "
                "returns current hashes and leaves the task's bytes)", True)
        if self.variant is not None and not self.variant["content_missing_total"] and K_C04 not in keys:
            self.ob("tie-witness", "as-shipped ContentFile._calc_hash: the Coq witness (run, delete, run) raises on the "
                    "real code", False, "the translator classifies the site as shipped but the second run did not raise")

    def replay(self, doc):
        r = doc.get("replay", {})
        if r.get("kind") == "history":
            run = run_history(eval(r["spec"]), eval(r["ops"]), int(r.get("wrap", 0)))
            for o, c in zip(run["abstract"], run["codes"]):
                print("  ", o, "->", {0: "replayed", 1: "executed", 2: "raised FileNotFoundError", 3: ""}.get(c, c))
            bad = self.judge(run)
            if bad:
                print("replay: still fails:", bad[0][0], "-", bad[0][1])
                return 1
            print("replay: the property holds on this history now")
            return 0
        if r.get("kind") == "treeflow":
            run = run_treeflow(r["population"], r["value"], only=(r["member"], r["mutation"]) if r.get("member") else None)
            print("   tree:", fv.POPULATIONS[r["population"]], "| members listed by the result:", run["members"])
            for f in run["facts"]:
                print("   ", f["mutation"], f["member"] or "", "->", "raised " + f["error"] if f["error"] else
                      ("task re-executed" if "tree" in f["executed"] else "cached result replayed"))
            bad = judge_treeflow(run)
            if bad:
                print("replay: still fails:", bad[0][0], "-", bad[0][1])
                return 1
            print("replay: the property holds on this tree now")
            return 0
        if r.get("kind") == "exprflow":
            run = run_exprflow(eval(r["spec"]), r["layout"], eval(r["ops"]))
            runs = iter(run["facts"])
            for o in run["ops"]:
                if o[0] != "run":
                    print("  ", o)
                    continue
                f = next(runs)
                print("   run ->", "raised " + f["error"] if f["error"] else
                      ("producer re-executed" if "produce" in f["executed"] else "cached expression replayed"),
                      "| returned", str(f["result"])[:100], "| disk", str(f["disk"])[:100])
            bad = judge_exprflow(run)
            if bad:
                print("replay: still fails:", bad[0][0], "-", bad[0][1])
                return 1
            print("replay: the property holds on this workflow now")
            return 0
        if r.get("kind") == "interleaved":
            run = run_interleaved(eval(r["spec"]), eval(r["mid_run_ops"]))
            print("   run 1 executed", run["tags1"], "; run 2 with mid-run", run["dops"], "executed", run["tags2"],
                  "->", {0: "dependent job replayed", 1: "dependent job re-executed"}.get(run["code"], run["error"]))
            for x in run["leaves"]:
                print("   ", x["class"], "recorded", x["recorded"] and x["recorded"][:8], "fresh", x["fresh"] and x["fresh"][:8])
            bad = judge_interleaved(run)
            if bad:
                print("replay: still fails:", bad[0][0], "-", bad[0][1])
                return 1
            print("replay: the property holds on this execution now")
            return 0
        print("replay: nothing to replay (no failing input was found); broken obligations:",
              json.dumps(doc.get("broken_obligations", []))[:3000])
        return 1
