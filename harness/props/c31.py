"""C31 — Value storage location is transparent (db row / value store / FileCache file)."""
from __future__ import annotations

import base64
import json
import os
import shutil
import sys

from harness.lib import (CORPUS, GEN, Finding, PropertyCheck, TranslateError, cq_bytes, cq_list, cq_Z,
                         run_bool_cases, scratch_dir)
from translate import astutil, tr_valuestore

from redun.value import FileCache, Value

HUGE = 10 ** 9


# ---------------------------------------------------------------- value classes used by the cases
class OwnVal(Value):
    """A Value class whose hash is its own (ignores `data`), like File / Task / Handle."""
    type_name = "harness.props.c31.OwnVal"

    def __init__(self, name="", pad=""):
        self.name, self.pad = name, pad

    def get_hash(self, data=None):
        from redun.hashing import hash_struct
        return hash_struct(["C31.OwnVal", self.name, len(self.pad)])

    def __getstate__(self):
        return {"name": self.name, "pad": self.pad}

    def __setstate__(self, state):
        self.name, self.pad = state["name"], state["pad"]

    def __repr__(self):
        return f"OwnVal({self.name!r}, {self.pad[:1]!r}*{len(self.pad)})"


class EmptySer(Value):
    """Edge only: a Value class whose serialization is the empty byte string."""
    type_name = "harness.props.c31.EmptySer"

    def get_hash(self, data=None):
        from redun.hashing import hash_struct
        return hash_struct(["C31.EmptySer"])

    def serialize(self):
        return b""

    @classmethod
    def deserialize(cls, raw_type, data):
        if data != b"":
            raise ValueError("EmptySer: unexpected data")
        return cls()

    def __getstate__(self):
        return {}

    def __setstate__(self, state):
        pass

    def __repr__(self):
        return "EmptySer()"


class CData:
    def __init__(self, x):
        self.x = x

    def __repr__(self):
        return f"{type(self).__name__}({self.x!r:.40})"


class CData2:
    def __init__(self, x):
        self.x = x

    def __repr__(self):
        return f"CData2({self.x!r:.40})"


class CDataType(FileCache):
    type = CData
    base_path = "."


class CData2Type(FileCache):
    type = CData2
    base_path = "."


def pdumps(v):
    from redun.utils import pickle_dumps
    return pickle_dumps(v)


def kind_of(v):
    if isinstance(v, CData):
        return ("fc", CDataType.base_path)
    if isinstance(v, CData2):
        return ("fc", CData2Type.base_path)
    if isinstance(v, (OwnVal, EmptySer, set)):
        return ("own",)
    return ("plain",)


def pickle_of(v):
    """pickle_dumps of what the model calls the value's pickle (b"" for the EmptySer edge)."""
    if isinstance(v, EmptySer):
        return b""
    return pdumps(v)


def expected_data(v):
    """What serialize() must return, computed without calling it (no file is written)."""
    from redun.hashing import hash_bytes
    k = kind_of(v)
    p = pickle_of(v)
    if k[0] == "fc":
        return os.path.join(k[1], hash_bytes(p)).encode("utf8")
    return p


def registry_hash(v):
    from redun.value import get_type_registry
    return get_type_registry().get_hash(v)


def record_hash(v):
    """value_interface.get_hash(data=serialize()) computed from the definitions."""
    from redun.hashing import hash_tag_bytes
    k = kind_of(v)
    if k[0] == "own":
        from redun.value import get_type_registry
        return get_type_registry().get_value(v).get_hash()
    return hash_tag_bytes("Value", expected_data(v))


def same_value(a, b):
    try:
        if isinstance(a, set) and isinstance(b, set):
            return a == b
        return type(a) is type(b) and pickle_of(a) == pickle_of(b)
    except Exception:
        return False


def b64(v):
    return base64.b64encode(pdumps(v)).decode()


def unb64(s):
    from redun.utils import pickle_loads
    return pickle_loads(base64.b64decode(s))


# ---------------------------------------------------------------- the real backend
class Real:
    """One backend (sqlite file) + one value store directory + FileCache directories."""

    def __init__(self, root, has_store, mn, mx):
        import logging
        logging.getLogger("redun").setLevel(logging.ERROR)
        from redun.backends.db import RedunBackendDb
        from redun.config import create_config_section
        self.root = root
        Real.n = getattr(Real, "n", 0) + 1
        self.dir = os.path.join(root, f"b{Real.n}")
        os.makedirs(self.dir)
        self.store_dir = os.path.join(self.dir, "vs")
        d = {"value_store_min_size": str(mn), "max_value_size": str(mx)}
        if has_store:
            d["value_store_path"] = self.store_dir
        # a migrated empty database is created once per run and copied (load() then has nothing to migrate)
        tmpl = os.path.join(root, "template.db")
        if not os.path.exists(tmpl):
            t = RedunBackendDb(db_uri=f"sqlite:///{tmpl}", config=create_config_section({}))
            t.load()
            t.session.close()
            t.engine.dispose()
        shutil.copy(tmpl, os.path.join(self.dir, "redun.db"))
        self.b = RedunBackendDb(db_uri=f"sqlite:///{self.dir}/redun.db", config=create_config_section(d))
        self.b.load()
        self.has_store = has_store
        # FileCache directories of this backend (one base without, one with a trailing slash)
        CDataType.base_path = os.path.join(self.dir, "fc")
        CData2Type.base_path = os.path.join(self.dir, "fc2") + "/"

    def close(self):
        try:
            self.b.session.close()
            self.b.engine.dispose()
        except Exception:
            pass
        shutil.rmtree(self.dir, ignore_errors=True)

    # events ------------------------------------------------------------
    def record(self, v):
        from redun.backends.db import RedunDatabaseError
        try:
            return ("hash", self.b.record_value(v))
        except RedunDatabaseError:
            self.b.session.rollback()
            return ("toolarge",)

    def get(self, h):
        import pickle
        try:
            v, ok = self.b.get_value(h)
        except AssertionError as e:
            return ("assert", str(e))
        except (EOFError, pickle.UnpicklingError) as e:
            return ("unpickle", type(e).__name__)
        except Exception as e:  # anything else is reported as it is
            return ("exception", f"{type(e).__name__}: {e}"[:200])
        return ("value", v) if ok else ("absent",)

    def store_path(self, h):
        return os.path.join(self.store_dir, h[:2], h[2:])

    def lose_stored(self, h):
        p = self.store_path(h)
        if os.path.exists(p):
            os.remove(p)
            return True
        return False

    def lose_file(self, path):
        if os.path.exists(path):
            os.remove(path)
            return True
        return False

    # observation ---------------------------------------------------------
    def rows(self):
        from redun.backends.db import Value as VRow
        out = {}
        for r in self.b.session.query(VRow).all():
            out[r.value_hash] = (r.type, bytes(r.value))
        return out

    def stored(self):
        out = {}
        if os.path.isdir(self.store_dir):
            for d in sorted(os.listdir(self.store_dir)):
                for f in sorted(os.listdir(os.path.join(self.store_dir, d))):
                    out[d + f] = open(os.path.join(self.store_dir, d, f), "rb").read()
        return out

    def cache_files(self):
        out = {}
        for base in (CDataType.base_path, CData2Type.base_path):
            if os.path.isdir(base):
                for f in sorted(os.listdir(base)):
                    out[os.path.join(base, f)] = open(os.path.join(base, f), "rb").read()
        return out


FC_TYPE_NAMES = {"harness.props.c31.CData", "harness.props.c31.CData2"}


# ---------------------------------------------------------------- generators
class Gen:
    def __init__(self, rng):
        self.rng = rng

    def plain(self, size=None):
        r = self.rng
        k = r.random()
        n = size if size is not None else r.choice([0, 1, 2, 5, 10, 20, 40, 80, 150, 300])
        if k < 0.30:
            return "".join(r.choice("abcxyz é") for _ in range(n))
        if k < 0.45:
            return bytes(r.randrange(256) for _ in range(n))
        if k < 0.55:
            return r.choice([0, 1, -1, 255, 2 ** 40, 10 ** 30, None, True, 1.5, (), [], {}, ""])
        if k < 0.70:
            return [r.randrange(1000) for _ in range(n // 3)]
        if k < 0.85:
            return {f"k{i}": "v" * r.randrange(4) for i in range(n // 8)}
        return (r.randrange(100), "t" * n, [None, b"\x00" * (n // 4)])

    def value(self):
        r = self.rng
        k = r.random()
        if k < 0.55:
            return self.plain()
        if k < 0.70:
            return OwnVal(r.choice(["a", "b", "c"]), r.choice("pq") * r.choice([0, 3, 30, 120]))
        if k < 0.78:
            return set(r.sample(range(50), r.randrange(0, 8)))
        if k < 0.90:
            return CData(self.plain(r.choice([0, 5, 60])))
        return CData2(self.plain(r.choice([0, 5, 60])))

    def conf(self, pool, store_p=0.75):
        """A configuration whose thresholds sit on / next to the sizes of the pool's values."""
        r = self.rng
        lens = [len(expected_data(v)) for v in pool] or [10]
        has_store = r.random() < store_p
        k = r.random()
        if k < 0.55:
            mn = sys.getsizeof(b"") + r.choice(lens) + r.choice([-1, 0, 0, 1])
        elif k < 0.7:
            mn = r.choice([0, 1, 33, 34, -5])
        elif k < 0.85:
            mn = 1024
        else:
            mn = HUGE
        k = r.random()
        if k < 0.45:
            mx = r.choice(lens) + r.choice([-1, 0, 0, 1])
        elif k < 0.5:
            mx = r.choice([0, -1, 3])
        else:
            mx = HUGE
        return has_store, mn, mx


class Check(PropertyCheck):
    id = "C31"
    module = "Props.C31"
    theorems = ["C31_read_back_same_hash", "C31_location_transparent", "C31_read_sound",
                "C31_missing_offload_reads_absent", "C31_missing_cache_file_reads_absent", "C31_persists",
                "C31_too_large_rejected", "C31_within_limit_accepted", "C31_stored_whole",
                "C31_record_twice_idempotent", "C31_nonvacuous", "C31_empty_serialization_edge",
                "C31_threshold_change_edge"]
    extra_modules = ["Base.Lit", "Model.ValueStore"]
    allowed_axioms = []
    section_premises = [
        "pickle_loads (pickle_dumps v) = v on the values that are recorded",
        "pickle_dumps v is never the empty byte string (an empty serialization is taken for the offload placeholder: "
        "C31_empty_serialization_edge)",
        "hash_bytes d is never the empty string",
        "hash_compat: two values with the same value hash have the same deserializer and serializations of the same "
        "length, and FileCache values with the same hash have the same file name (collision resistance of the hash)",
    ]
    assumptions = [
        "one configuration (value store yes/no, value_store_min_size, max_value_size) per history for read-back; "
        "read soundness is proved with thresholds varying per event (C31_threshold_change_edge shows the limit)",
        "value-store files and FileCache files live in disjoint directories; the value store path of a hash is "
        "injective (40 hex digit hashes; get_value_path pinned)",
        "CPython: sys.getsizeof(bytes) = len + 33 (measured by the translator on every run)",
        "files change only by the modelled events (record, file disappears); partial writes are out of scope",
        "explicit `data=` argument of record_value is unused in redun (no caller passes it); modelled for data=None",
    ]
    rule = ("histories of 6-14 events (record / read / value-store file lost / FileCache file lost) over pools of 3-5 "
            "values (str/bytes/int/list/dict/tuple of 0-300 bytes, own-hash Value objects, sets, two FileCache types) "
            "under a configuration whose min/max thresholds sit on or next to the pool's serialized sizes; the model's "
            "results and final tables are compared with the real backend; non-trivial = at least one record and one "
            "read; distinct by canonical repr")

    # ------------------------------------------------------------------
    def translate(self):
        GEN.mkdir(exist_ok=True)
        p, t = GEN / "C31Gen.v", GEN / "C31Tie.v"
        self.shape = "shipped"     # what the correspondence uses if the source is not recognised
        for f in (p, t, p.with_suffix(".vo"), t.with_suffix(".vo")):
            if f.exists():
                f.unlink()
        try:
            text, self.cfg = tr_valuestore.translate()
        except astutil.TranslateError as e:
            raise TranslateError(str(e))
        p.write_text(text)
        t.write_text(tr_valuestore.TIE)
        self.shape = "gen"
        return [p, t]

    # ------------------------------------------------------------------ histories
    def gen_history(self, g, edge=False):
        r = self.rng
        pool = []
        seen = set()
        while len(pool) < r.randint(3, 5):
            v = g.value()
            key = (type(v).__name__, pickle_of(v))
            if key not in seen:
                seen.add(key)
                pool.append(v)
        if edge:
            pool.append(EmptySer())
        conf = g.conf(pool)
        evs = []
        for n_ev in range(r.randint(6, 14)):
            k = r.random() if n_ev >= 2 else 0.0      # start with two recordings
            i = r.randrange(len(pool))
            if k < 0.45:
                evs.append(("rec", i))
            elif k < 0.75:
                evs.append(("get", i))
            elif k < 0.9:
                evs.append(("lose", i))
            else:
                fc = [j for j, v in enumerate(pool) if kind_of(v)[0] == "fc"]
                evs.append(("losefile", r.choice(fc)) if fc else ("get", i))
        # always finish by reading everything
        evs += [("get", i) for i in range(len(pool))]
        return pool, conf, evs

    def run_real(self, root, pool, conf, evs):
        """Run a history on the real backend; returns (results, rows, stored, cache files, table)."""
        real = Real(root, *conf)
        try:
            # the table depends on the FileCache directories of this backend
            table = [(None, pickle_of(v), expected_data(v), record_hash(v), v) for v in pool]
            res = []
            for kind, i in evs:
                v = pool[i]
                if kind == "rec":
                    x = real.record(v)
                    res.append(("hash", x[1].encode()) if x[0] == "hash" else "RTooLarge")
                    self.stat("event", "record:" + x[0])
                elif kind == "get":
                    x = real.get(table[i][3])
                    if x[0] == "value":
                        idx = [j for j, w in enumerate(pool) if same_value(w, x[1])]
                        res.append(f"(RValue {idx[0]}%nat)" if idx else "(RValue 999%nat)")
                    elif x[0] == "absent":
                        res.append("RAbsent")
                    elif x[0] == "assert":
                        res.append("RAssert")
                    elif x[0] == "unpickle":
                        res.append("RUnpickleError")
                    else:
                        res.append("RUnit")   # never produced by a read in the model -> mismatch
                    self.stat("event", "get:" + x[0])
                elif kind == "lose":
                    real.lose_stored(table[i][3])
                    res.append("RUnit")
                    self.stat("event", "lose_stored")
                else:
                    real.lose_file(table[i][2].decode())
                    res.append("RUnit")
                    self.stat("event", "lose_file")
            return res, real.rows(), real.stored(), real.cache_files(), table
        finally:
            real.close()

    def case_term(self, pool, conf, evs, res, rows, stored, cfiles, table):
        from redun.hashing import hash_bytes
        names = {}

        def lit(b):            # every byte string is written once per case (let-bound)
            if b not in names:
                names[b] = f"x{len(names)}"
            return names[b]

        def kind(v):
            k = kind_of(v)
            if k[0] == "plain":
                return "KPlain"
            if k[0] == "own":
                return f"(KOwn {lit(record_hash(v).encode())})"
            return f"(KFileCache {lit(k[1].encode())})"
        t = cq_list([f"({kind(v)}, {lit(p)})" for _, p, _, _, v in table])
        ht = cq_list([f"({lit(d)}, {lit(h.encode())})" for _, _, d, h, _ in table])
        hbt = cq_list([f"({lit(p)}, {lit(hash_bytes(p).encode())})" for _, p, _, _, _ in table])
        cev = []
        for k, i in evs:
            if k == "rec":
                cev.append(f"ERecord {i}%nat")
            elif k == "get":
                cev.append(f"EGet {lit(table[i][3].encode())}")
            elif k == "lose":
                cev.append(f"ELoseStored {lit(table[i][3].encode())}")
            else:
                cev.append(f"ELoseFile {lit(table[i][2])}")
        cres = [f"(RHash {lit(x[1])})" if isinstance(x, tuple) else x for x in res]
        crow = cq_list([f"({lit(h.encode())}, {{| r_tag := {'TFileCache' if ty in FC_TYPE_NAMES else 'TPickle'}; "
                        f"r_value := {lit(val)} |}})" for h, (ty, val) in rows.items()])
        cst = cq_list([f"({lit(h.encode())}, {lit(d)})" for h, d in stored.items()])
        cfl = cq_list([f"({lit(p.encode())}, {lit(d)})" for p, d in cfiles.items()])
        has_store, mn, mx = conf
        cf = f"{{| has_store := {'true' if has_store else 'false'}; min_size := {cq_Z(mn)}; max_size := {cq_Z(mx)} |}}"
        lets = "".join(f"let {n} := {cq_bytes(b)} in " for b, n in names.items())
        return (f"({lets}case_ok {self.shape} {cf} {t} {ht} {hbt} {cq_list(cev)} {cq_list(cres)} {crow} {cst} {cfl})")

    def correspond(self):
        g = Gen(self.rng)
        n = 140 if self.tier == "quick" else 1500
        root = str(scratch_dir("rv_c31_"))
        cwd = os.getcwd()
        os.chdir(root)
        terms, descr = [], []
        try:
            for i in range(n):
                pool, conf, evs = self.gen_history(g, edge=(i % 12 == 0))
                res, rows, stored, cfiles, table = self.run_real(root, pool, conf, evs)
                terms.append(self.case_term(pool, conf, evs, res, rows, stored, cfiles, table))
                d = {"conf": conf, "values": [repr(v)[:60] for v in pool], "events": evs}
                descr.append(d)
                self.stat("conf", f"store={conf[0]}")
                self.stat("conf_min", "huge" if conf[1] >= HUGE else ("<=33" if conf[1] <= 33 else "near sizes"))
                self.stat("conf_max", "huge" if conf[2] >= HUGE else "near sizes")
                for v in pool:
                    self.stat("value_kind", kind_of(v)[0] + (":empty-serialization" if isinstance(v, EmptySer) else ""))
                nontriv = any(k == "rec" for k, _ in evs) and any(k == "get" for k, _ in evs)
                self.count(json.dumps(d, default=str) if nontriv else None)
                self.sample({"conf(store,min,max)": conf, "values": d["values"], "events": evs[:8],
                             "results": [x if isinstance(x, str) else "RHash " + x[1].decode()[:8] for x in res[:8]]}, 4)
        finally:
            os.chdir(cwd)
            shutil.rmtree(root, ignore_errors=True)
        reqs = ["Base.Lit", "Model.ValueStore"] + (["Gen.C31Gen"] if self.shape == "gen" else [])
        ok, failing, diags = run_bool_cases("C31", reqs, "", terms, chunk=25)
        self.ob("correspondence", f"model (code shape: {'regenerated from /repo' if self.shape == 'gen' else 'shipped; source not recognised'}) "
                f"== real backend on {len(terms)} histories "
                "(every event result, final value table, value store files, FileCache files)",
                ok and not failing, "\n".join(diags) + "".join(f"\nmismatch: {descr[i]}" for i in failing[:5]))

    # ------------------------------------------------------------------ implementation oracle
    def check_value(self, root, v, conf):
        """Decide the property for one value under one configuration on the real code.
        Returns None or (key, description)."""
        has_store, mn, mx = conf
        ref = Real(root, False, HUGE, HUGE)          # everything in the database row
        real = Real(root, has_store, mn, mx)         # (FileCache dirs now belong to `real`)
        try:
            n = len(expected_data(v))
            x = real.record(v)
            h_ref = record_hash(v)
            r0 = ref.record(v)
            if r0 != ("hash", h_ref):
                return ("ref-hash", f"record_value without a value store returned {r0}, expected {h_ref}")
            if n > mx:
                if x[0] != "toolarge":
                    got = real.get(x[1])
                    whole = got[0] == "value" and same_value(got[1], v)
                    return ("too-large-accepted", f"serialized size {n} > max_value_size {mx} but record_value returned a hash; "
                            f"read-back {'whole' if whole else 'NOT the value: ' + repr(got)[:80]}")
                if h_ref in real.rows() or h_ref in real.stored():
                    return ("too-large-left-traces", f"rejected value (size {n} > {mx}) left a row or a value store file")
                return None
            if x[0] != "hash":
                return ("within-limit-rejected", f"serialized size {n} <= max_value_size {mx} but record_value raised")
            h = x[1]
            if h != h_ref:
                return ("hash-depends-on-location", f"hash {h[:8]} with (store={has_store}, min={mn}) differs from {h_ref[:8]} without a store")

            def readback(b, where):
                got = b.get(h)
                if got[0] != "value":
                    return f"{where}: recorded value reads as {got}"
                if not same_value(got[1], v):
                    return f"{where}: reads back as a different value {got[1]!r:.80}"
                if registry_hash(got[1]) != registry_hash(v):
                    return f"{where}: read-back value has hash {registry_hash(got[1])[:8]} != {registry_hash(v)[:8]}"
                return None
            for b, where in ((real, f"store={has_store},min={mn},max={mx}"), (ref, "no store")):
                why = readback(b, where)
                if why:
                    return ("read-back", why)
            # recorded twice
            before = (real.rows(), real.stored())
            if real.record(v) != ("hash", h) or (real.rows(), real.stored()) != before:
                return ("record-twice", "recording the same value again changed the hash or the stored state")
            why = readback(real, "after recording twice")
            if why:
                return ("read-back", why)
            # offloaded bytes missing
            if real.lose_stored(h):
                self.stat("oracle", "offloaded")
                got = real.get(h)
                if got != ("absent",):
                    return ("missing-not-absent", f"value store file deleted: get_value gives {repr(got)[:120]} instead of (None, False)")
                if real.record(v) != ("hash", h):
                    return ("record-twice", "re-recording after the bytes went missing failed")
                why = readback(real, "re-recorded after bytes went missing")
                if why:
                    return ("read-back", why)
            else:
                self.stat("oracle", "in database row")
            if kind_of(v)[0] == "fc":
                if not real.lose_file(expected_data(v).decode()):
                    return ("filecache", "FileCache file does not exist after recording")
                got = real.get(h)
                if got != ("absent",):
                    return ("missing-not-absent", f"FileCache file deleted: get_value gives {repr(got)[:120]} instead of (None, False)")
                real.record(v)
                why = readback(real, "FileCache re-recorded")
                if why:
                    return ("read-back", why)
            return None
        finally:
            real.close()
            ref.close()

    def check_history(self, root, pool, conf, evs):
        """Model-free history check: a read gives the recorded value (by content) or absent; it must give
        the value if nothing was lost since it was last recorded, and absent if never recorded."""
        has_store, mn, mx = conf
        real = Real(root, *conf)
        try:
            hashes = [record_hash(v) for v in pool]
            state = {}    # hash -> "ok" (recorded, nothing lost since) | "maybe" (something of it was lost)
            for step, (kind, i) in enumerate(evs):
                v, h = pool[i], hashes[i]
                if kind == "rec":
                    x = real.record(v)
                    big = len(expected_data(v)) > mx
                    if big != (x[0] == "toolarge"):
                        return f"step {step}: size {len(expected_data(v))} vs max {mx}: record_value gave {x[0]}"
                    if not big:
                        if x[1] != h:
                            return f"step {step}: hash {x[1][:8]} != {h[:8]}"
                        state[h] = "ok"
                elif kind == "get":
                    got = real.get(h)
                    if got[0] not in ("value", "absent"):
                        return f"step {step}: get_value raised / gave {repr(got)[:100]}"
                    if got[0] == "value" and not any(same_value(got[1], w) and hashes[j] == h for j, w in enumerate(pool)):
                        return f"step {step}: get_value({h[:8]}) gave a different value {got[1]!r:.60}"
                    if got[0] == "value" and h not in state:
                        return f"step {step}: a value that was never recorded reads as present"
                    if got[0] == "absent" and state.get(h) == "ok":
                        return f"step {step}: recorded value (nothing lost since) reads as absent"
                elif kind == "lose":
                    if real.lose_stored(h) and h in state:
                        state[h] = "maybe"
                else:
                    if real.lose_file(expected_data(v).decode()) and h in state:
                        state[h] = "maybe"
            return None
        finally:
            real.close()

    def sub_check(self, root, conf):
        """Values that contain Value objects: the sub-values are recorded too and read back."""
        real = Real(root, *conf)
        try:
            sub = OwnVal("sub", "q" * self.rng.choice([0, 10, 200]))
            v = [sub, 3, "x" * self.rng.choice([0, 50])]
            x = real.record(v)
            if x[0] != "hash":
                return None
            got = real.get(sub.get_hash())
            if got[0] != "value" or not same_value(got[1], sub):
                return f"sub-value of a recorded list reads as {repr(got)[:100]}"
            got = real.get(x[1])
            if got[0] != "value" or not same_value(got[1], v):
                return f"list with a sub-value reads as {repr(got)[:100]}"
            return None
        finally:
            real.close()

    def oracle(self):
        g = Gen(self.rng)
        root = str(scratch_dir("rv_c31o_"))
        cwd = os.getcwd()
        os.chdir(root)
        n = 0
        try:
            cases = []
            corpus = CORPUS / "C31.jsonl"
            if corpus.exists():
                for line in corpus.read_text().splitlines():
                    if line.strip():
                        d = json.loads(line)
                        cases.append((unb64(d["value"]), tuple(d["conf"])))
            # small scope: every kind of value at every threshold position
            base = ["", "a" * 10, b"\x00" * 64, 7, None, [1, 2, 3], OwnVal("a", "p" * 40), {1, 2, 3},
                    CData("hello"), CData2(b"y" * 70)]
            for v in base:
                ln = len(pickle_of(v)) if kind_of(v)[0] != "fc" else 90
                for has_store in (True, False):
                    for mn in (0, 33 + ln - 1, 33 + ln, 33 + ln + 1, 1024):
                        for mx in (ln - 1, ln, HUGE):
                            cases.append((v, (has_store, mn, mx)))
            small = len(cases)
            for _ in range(60 if self.tier == "quick" else 1500):
                v = g.value()
                cases.append((v, g.conf([v])))
            for v, conf in cases:
                if kind_of(v)[0] == "fc" and conf[2] < HUGE:
                    # the limit applies to the file name, whose length depends on the scratch dir
                    conf = (conf[0], conf[1], conf[2] + 200 * (self.rng.random() < 0.5))
                r = self.check_value(root, v, conf)
                n += 1
                self.stat("oracle_kind", kind_of(v)[0])
                if r:
                    key, why = r
                    self.findings.append(Finding(f"{key}:{kind_of(v)[0]}", why,
                                                 {"kind": "value", "value": b64(v), "repr": repr(v)[:200],
                                                  "conf": list(conf), "why": why}))
                    if len(self.findings) >= 5:
                        break
            nh = 0
            for _ in range(60 if self.tier == "quick" else 1500):
                pool, conf, evs = self.gen_history(g)
                why = self.check_history(root, pool, conf, evs)
                nh += 1
                if why:
                    self.findings.append(Finding("history:" + why.split(":", 1)[1].strip()[:60], why,
                                                 {"kind": "history", "values": [b64(v) for v in pool],
                                                  "reprs": [repr(v)[:80] for v in pool], "conf": list(conf),
                                                  "events": evs, "why": why}))
                    break
            for _ in range(6):
                conf = g.conf([OwnVal("sub", "q" * 200)])
                why = self.sub_check(root, (conf[0], conf[1], HUGE))
                n += 1
                if why:
                    self.findings.append(Finding("subvalue", why, {"kind": "subvalue", "conf": list(conf), "why": why}))
                    break
            self.edges(root)
        finally:
            os.chdir(cwd)
            shutil.rmtree(root, ignore_errors=True)
        self.evaluations += n + nh
        self.stat("oracle", "values x configurations", n)
        self.stat("oracle", "small-scope cases", small)
        self.stat("oracle", "histories", nh)
        self.ob("oracle", f"implementation oracle (same hash in every location, whole read-back, rejected iff larger than "
                f"the maximum, missing bytes read absent, recorded twice) on {n} value/configuration cases and {nh} histories",
                not self.findings, "; ".join(f.what for f in self.findings[:5]))

    def edges(self, root):
        """Informational: do the two documented edges (outside the property's quantifier) reproduce?"""
        real = Real(root, False, 1024, HUGE)
        try:
            x = real.record(EmptySer())
            self.stat("edge", "empty serialization without store reads: " + real.get(x[1])[0])
        finally:
            real.close()
        real = Real(root, True, 0, HUGE)
        try:
            v = "abc"
            x = real.record(v)
            real.lose_stored(x[1])
            real.b.value_store_min_size = HUGE
            real.record(v)
            self.stat("edge", "threshold raised after bytes lost, re-recorded value reads: " + real.get(x[1])[0])
        finally:
            real.close()

    # ------------------------------------------------------------------
    def replay(self, doc):
        r = doc.get("replay", {})
        root = str(scratch_dir("rv_c31r_"))
        cwd = os.getcwd()
        os.chdir(root)
        try:
            if r.get("kind") == "value":
                res = self.check_value(root, unb64(r["value"]), tuple(r["conf"]))
                print("replay:", r.get("repr"), "conf(store,min,max)=", r["conf"], "->", res[1] if res else "property holds now")
                return 1 if res else 0
            if r.get("kind") == "history":
                why = self.check_history(root, [unb64(x) for x in r["values"]], tuple(r["conf"]),
                                         [tuple(e) for e in r["events"]])
                print("replay:", r.get("reprs"), r["conf"], r["events"], "->", why or "property holds now")
                return 1 if why else 0
            if r.get("kind") == "subvalue":
                why = self.sub_check(root, tuple(r["conf"]))
                print("replay:", why or "property holds now")
                return 1 if why else 0
        finally:
            os.chdir(cwd)
            shutil.rmtree(root, ignore_errors=True)
        print("replay: nothing to replay (no failing input was found); broken obligations:",
              json.dumps(doc.get("broken_obligations", []))[:2000])
        return 1
