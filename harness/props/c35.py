"""C35 — Configuration survives conversion to a dictionary and back."""
from __future__ import annotations

import configparser
import contextlib
import json
import os

from harness.lib import (GEN, CORPUS, VERIF, Finding, PropertyCheck, TranslateError, cq_bytes, cq_list,
                         load_known_findings, run_bool_cases)
from translate import astutil, tr_config

PINS = json.loads((VERIF / "translate" / "pins_C35.json").read_text())

ERR_CODES = {
    "InterpolationSyntaxError": 1, "InterpolationMissingOptionError": 2, "InterpolationDepthError": 3,
    "ValueError": 4, "TypeError": 5, "KeyError": 6, "NoSectionError": 6, "NoOptionError": 6,
}
ENV_FIXTURE = {"RV_ROLE": "arn:aws:iam::1:role/r", "RV_EMPTY": "", "RV_DOLLAR": "a$b", "RV_REF": "<${x}>",
               "RV_ESC": "5$$", "x": "env-x"}

PREAMBLE = """
Definition kids_eqb a b := tree_eqb (Node a) (Node b).
Definition config_eqb a b := parser_eqb (c_parser a) (c_parser b) && kids_eqb (c_tree a) (c_tree b).
"""


# ---------------------------------------------------------------- Coq literals
def cs(s: str) -> str:
    return cq_bytes(s.encode())


def cq_kvs(d) -> str:
    return cq_list([f"({cs(k)}, {cs(v)})" for k, v in d.items()])


def cq_dict2(d) -> str:
    return cq_list([f"({cs(s)}, {cq_kvs(kv)})" for s, kv in d.items()])


def cq_parser(defaults, sections) -> str:
    return "{| p_defaults := " + cq_kvs(defaults) + "; p_sections := " + cq_dict2(sections) + " |}"


def cq_kids(nested) -> str:
    items = []
    for k, v in nested.items():
        if isinstance(v, configparser.SectionProxy):
            items.append(f"({cs(k)}, Leaf {cs(v.name)})")
        elif isinstance(v, dict):
            items.append(f"({cs(k)}, Node {cq_kids(v)})")
        else:
            raise TypeError(v)
    return cq_list(items)


def cq_exp(x) -> str:
    """('err', code) or ('ok', coq term)"""
    return f"(inl {x[1]}%nat)" if x[0] == "err" else f"(inr {x[1]})"


def err_of(e) -> tuple:
    return ("err", ERR_CODES.get(type(e).__name__, 9))


# ---------------------------------------------------------------- running the implementation
@contextlib.contextmanager
def environ(local, extra=None, drop_prefix=None):
    old = dict(os.environ)
    try:
        os.environ.update(ENV_FIXTURE)
        os.environ["REDUN_CONFIG"] = local
        if extra:
            os.environ.update(extra)
        if drop_prefix:
            for k in list(os.environ):
                if k.startswith(drop_prefix) or k in ("x",):
                    del os.environ[k]
        yield
    finally:
        os.environ.clear()
        os.environ.update(old)


def state_of(c):
    p = c.parser
    return dict(p._defaults), {s: dict(o) for s, o in p._sections.items()}


def env_for(text_blob: str):
    """The part of os.environ that the model is given: every variable whose name occurs in the input."""
    return {k: v for k, v in os.environ.items() if k and k in text_blob}


def parts_prefix_free(names):
    ps = [n.split(".") for n in names]
    for i, a in enumerate(ps):
        for j, b in enumerate(ps):
            if i != j and len(a) <= len(b) and b[:len(a)] == a:
                return False
    return True


def in_guard(names):
    """The guard of the theorems: non-empty names that do not start with a dot, and no section's dotted
    path is a prefix of another's."""
    return all(n and not n.startswith(".") for n in names) and parts_prefix_free(names)


def nested_shape(nested):
    out = {}
    for k, v in nested.items():
        out[k] = ("leaf", v.name) if isinstance(v, configparser.SectionProxy) else nested_shape(v)
    return out


# ---------------------------------------------------------------- generators
PARTS = ["a", "b", "c", "executors", "batch", "backend", "repos", "default", "x", "A", "é", "a b", "DEFAULT", "d-1"]
KEYS = ["x", "y", "z", "role", "config_dir", "db_uri", "X", "HOME", "RV_ROLE", "k1", "k2", "k3"]
LOCALS = ["/home/u/proj/.redun", ".redun", "/tmp/rv", "/r", "/data/$cfg/.redun", "/home/é/.redun", "/a/a"]
REPLS = [".", "", "/remote/.redun", "s3://bucket/cfg", "$X", "/a/a/a"]
WORDS = ["cost", "5", "sqlite:///", "redun.db", "/", "a:b", "=", "%(x)s", "{", "}", "é", "100%", " ", "-", "#h", ";c"]


class Gen:
    def __init__(self, rng):
        self.rng = rng

    def name(self):
        r = self.rng
        n = r.choice([1, 1, 2, 2, 2, 3])
        return ".".join(r.choice(PARTS[:9] if r.random() < 0.8 else PARTS) for _ in range(n))

    def names(self, wf):
        r = self.rng
        k = r.choice([1, 2, 2, 3, 3, 4, 5])
        out = []
        for _ in range(k * 4):
            if len(out) >= k:
                break
            n = self.name()
            if not wf and r.random() < 0.35:
                m = r.random()
                if m < 0.3:
                    n = "." + n
                elif m < 0.5:
                    n = n + "."
                elif m < 0.65:
                    n = n.replace(".", "..", 1)
                elif out:
                    n = r.choice(out) + "." + r.choice(PARTS[:4]) if r.random() < 0.5 else r.choice(out).split(".")[0]
            if n in out or n == "DEFAULT" or not n.strip() or n != n.strip():
                continue
            if wf and not in_guard(out + [n]):
                continue
            out.append(n)
        return out or ["a"]

    def value(self, own, other, names, local, dollars=True):
        """own: options this value may refer to safely (earlier options of the section + DEFAULT ones);
        other: (section, option) pairs that exist elsewhere."""
        r = self.rng
        toks = []
        for _ in range(r.choice([0, 1, 1, 2, 2, 3, 4])):
            m = r.random()
            if m < 0.30 or not dollars:
                toks.append(r.choice(WORDS))
            elif m < 0.44:
                toks.append("$$")
            elif m < 0.62:
                if own and r.random() < 0.93:
                    toks.append("${" + r.choice(own) + "}")
                elif r.random() < 0.3:
                    toks.append("${" + r.choice(KEYS) + "}")
                else:
                    toks.append(r.choice(WORDS))
            elif m < 0.72:
                if other and r.random() < 0.93:
                    s, k = r.choice(other)
                    toks.append("${" + s + ":" + k + "}")
                elif r.random() < 0.3:
                    toks.append("${" + r.choice(names + ["DEFAULT", "nosuch"]) + ":" + r.choice(KEYS) + "}")
                else:
                    toks.append(r.choice(WORDS))
            elif m < 0.79:
                toks.append("${" + r.choice(list(ENV_FIXTURE)[:2] * 8 + list(ENV_FIXTURE) + ["HOME", "REDUN_CONFIG"]) + "}")
            elif m < 0.89:
                toks.append(local + r.choice(["", "/redun.db", "x"]))
            elif m < 0.90:
                toks.append(r.choice(["$", "$x", "${", "${}", "${a:b:c}", "$${", "$$$", "${x", "}"]))
            else:
                toks.append(r.choice(["$${x}", "$$$$", "$$5", "${x}$$", "$$"]))
        v = "".join(toks) if r.random() < 0.7 else " ".join(toks)
        return v.strip()

    def config(self, wf=True, dollars=True):
        """Returns (ini_text, local, repl)."""
        r = self.rng
        local = r.choice(LOCALS)
        repl = r.choice([None, None] + REPLS)
        names = self.names(wf)
        lines = []
        allkeys = r.sample(KEYS, r.randint(2, 6))
        dkeys = r.sample(allkeys, r.randint(1, min(3, len(allkeys)))) if r.random() < 0.35 else []
        done = []          # (section, option) already written
        if dkeys:
            lines.append("[DEFAULT]")
            for i, k in enumerate(dkeys):
                lines.append(f"{k} = {self.value(dkeys[:i], [], names, local, dollars)}")
        for n in names:
            lines.append(f"[{n}]")
            ks = r.sample(allkeys, r.randint(0, min(4, len(allkeys))))
            for i, k in enumerate(ks):
                own = ks[:i] + [d for d in dkeys if d not in ks]
                lines.append(f"{k} = {self.value(own, done, names, local, dollars)}")
            done += [(n, k) for k in ks]
        return "\n".join(lines) + "\n", local, repl

    def raw_value(self):
        """Values handed straight to read_dict (before_set correspondence)."""
        r = self.rng
        return "".join(r.choice(["$", "$$", "{", "}", "${", "a", "x}", "${a}", ":", " ", "é", "${}", "$${"])
                       for _ in range(r.randint(0, 7)))


WITNESSES = [
    # (key, ini text, local, repl)
    ("dollar:cost $$5", "[a.b]\nx = cost $$5\n", "/tmp/rv", None),
    ("dollar:$$$$", "[a.b]\nx = cost $$$$ 5\n", "/tmp/rv", None),
    ("dollar:$${y}", "[a.b]\nx = $${y}\ny = 1\n", "/tmp/rv", "."),
]
CLASS_KEY = "dollar:unescaped-in-emitted-value"


def load_config(text):
    from redun.config import Config
    c = Config()
    c.read_string(text)
    return c


class Check(PropertyCheck):
    id = "C35"
    module = "Props.C35"
    theorems = ["C35_roundtrip_fixed", "C35_roundtrip_shipped_partial", "C35_roundtrip_shipped_refuted",
                "C35_shipped_silent_change", "C35_shipped_reinterpolated", "C35_replace_only_containing",
                "C35_replace_dict", "C35_parse_guarded", "C35_prefix_clash_raises", "C35_prefix_clash_loses_section",
                "C35_leading_dot_renamed", "C35_nonvacuous"]
    extra_modules = ["Base.Lit"]
    allowed_axioms = []
    assumptions = [
        "CPython configparser (ExtendedInterpolation, read_dict/set, SectionProxy access) is hand-modelled; its "
        "functions are pinned by shape against the running interpreter's stdlib and re-tested by the correspondence run",
        "INI text -> parser state (configparser's reader) is outside the model: the model starts from the raw "
        "sections/options/values the real parser holds after read_string",
        "str operations on ASCII delimiters agree on UTF-8 bytes and on code points (str.replace/split/find); "
        "re-tested with non-ASCII values",
        "cli.get_config_dir() is never empty (falls back to '.redun')",
        "guard of the round-trip theorems: section names are non-empty, do not start with '.', and no section's "
        "dotted path is a prefix of another's (the malformed cases are stated as theorems of their own)",
    ]
    rule = ("generated INI texts: dotted section names (1-3 parts, incl. malformed ones for _parse_sections), a "
            "DEFAULT section, values built from words, '$$', ${opt}, ${sec:opt}, ${ENV}, config-dir paths, broken "
            "references and cycles; config_dir / replacement from a fixed list; a case is non-trivial if it has a "
            "'$' or the config dir in some value or a dotted name; distinct by (text, local, repl)")

    def translate(self):
        try:
            text, _, variant = tr_config.translate(pins=PINS)
        except astutil.TranslateError as e:
            raise TranslateError(str(e))
        self.variant = variant
        GEN.mkdir(exist_ok=True)
        p = GEN / "C35Gen.v"
        p.write_text(text)
        return [p]

    # ------------------------------------------------------------------ implementation runs
    def observe(self, text, local, repl):
        """Run the implementation on one INI text. Returns a dict of observations or None if
        configparser itself rejects the text."""
        from redun.config import Config
        obs = {"text": text, "local": local, "repl": repl}
        with environ(local):
            c = Config()
            try:
                c.parser.read_string(text)
            except configparser.Error:
                return None
            obs["state"] = state_of(c)
            blob = text + "".join(ENV_FIXTURE.values())
            obs["env"] = env_for(blob)
            try:
                c._sections = c._parse_sections(c.parser)
                obs["tree"] = ("ok", cq_kids(c._sections))
            except Exception as e:  # noqa
                obs["tree"] = ("err", 5)
                return obs
            vals = []
            for s in c.parser.sections():
                for k in list(c.parser.options(s)) + ["nosuch"]:
                    try:
                        vals.append((s, k, ("ok", cs(c.parser[s][k]))))
                    except Exception as e:  # noqa
                        vals.append((s, k, err_of(e)))
            obs["values"] = vals
            try:
                d = c.get_config_dict(replace_config_dir=repl)
                obs["dict"] = ("ok", cq_dict2(d))
            except Exception as e:  # noqa
                obs["dict"] = err_of(e)
                obs["rt"] = obs["dict"]
                return obs
            try:
                c2 = Config(config_dict=d)
                d2, s2 = state_of(c2)
                obs["rt"] = ("ok", "{| c_parser := " + cq_parser(d2, s2) + "; c_tree := " + cq_kids(c2._sections) + " |}")
            except Exception as e:  # noqa
                obs["rt"] = err_of(e)
        return obs

    def correspond(self):
        cfg = "gen" if getattr(self, "variant", None) else "shipped"
        requires = ["Base.Decimal", "Base.Lit", "Model.Config"] + (["Gen.C35Gen"] if cfg == "gen" else [])
        g = Gen(self.rng)
        n_cfg = 260 if self.tier == "quick" else 4000
        terms, descr = [], []
        cases = [(w[1], w[2], w[3]) for w in WITNESSES]
        corpus = CORPUS / "C35.jsonl"
        if corpus.exists():
            for line in corpus.read_text().splitlines():
                if line.strip():
                    d = json.loads(line)
                    cases.append((d["text"], d["local"], d.get("repl")))
        for i in range(n_cfg):
            cases.append(g.config(wf=(i % 4 != 3), dollars=(i % 7 != 6)))
        for text, local, repl in cases:
            obs = self.observe(text, local, repl)
            if obs is None:
                self.stat("config", "rejected by configparser reader")
                continue
            dfl, secs = obs["state"]
            P = cq_parser(dfl, secs)
            E = cq_kvs(obs["env"])
            L = cs(local)
            R = "None" if repl is None else f"(Some {cs(repl)})"
            names = list(secs)
            self.stat("names", "in guard" if in_guard(names) else "malformed (prefix clash / leading dot / empty part)")
            self.stat("tree", "ok" if obs["tree"][0] == "ok" else "raises")
            terms.append(f"let P := {P} in res_agrees kids_eqb (parse_sections {cfg} P) {cq_exp(obs['tree'])}")
            descr.append(("parse_sections", text))
            nontriv = ("$" in text or local in text or any("." in n for n in names))
            self.count((text, local, repl) if nontriv else None)
            if obs["tree"][0] != "ok":
                continue
            if obs["values"]:
                conj = " && ".join(f"res_agrees str_eqb (get_value {cfg} E P {cs(s)} {cs(k)}) {cq_exp(x)}"
                                   for s, k, x in obs["values"])
                for _, _, x in obs["values"]:
                    self.stat("get_value", "value" if x[0] == "ok" else f"error {x[1]}")
                terms.append(f"let P := {P} in let E := {E} in {conj}")
                descr.append(("get_value", text, obs["env"]))
                self.count(None, len(obs["values"]))
            self.stat("get_config_dict", "dict" if obs["dict"][0] == "ok" else f"error {obs['dict'][1]}")
            self.stat("roundtrip", "config" if obs["rt"][0] == "ok" else f"error {obs['rt'][1]}")
            self.stat("replace_config_dir", "None" if repl is None else ("hits" if local in text else "no occurrence"))
            terms.append(f"let P := {P} in let E := {E} in "
                         f"res_agrees dict_eqb (bind (parse_sections {cfg} P) (fun t => get_config_dict {cfg} E P t {L} {R})) {cq_exp(obs['dict'])}"
                         f" && res_agrees config_eqb (bind (load {cfg} P) (fun c => roundtrip {cfg} E c {L} {R})) {cq_exp(obs['rt'])}")
            descr.append(("get_config_dict+roundtrip", text, local, repl, obs["env"]))
            self.count(None)
            self.sample({"ini": text[:300], "config_dir": local, "replace_config_dir": repl,
                         "get_config_dict": obs["dict"][0], "roundtrip": obs["rt"][0] if obs["rt"][0] == "ok" else obs["rt"]}, 4)
        # read_dict / before_set on raw dicts
        from redun.config import Config
        n_rd = 300 if self.tier == "quick" else 5000
        for i in range(n_rd):
            d = {}
            for _ in range(self.rng.randint(1, 3)):
                sec = self.rng.choice(["a", "a.b", "DEFAULT", "c", "", "b.c.d"])
                d[sec] = {self.rng.choice(KEYS[:5]): g.raw_value() for _ in range(self.rng.randint(0, 3))}
            try:
                with environ("/tmp/rv"):
                    c = Config()
                    c.parser.read_dict(d)
                dd, ss = state_of(c)
                exp = ("ok", cq_parser(dd, ss))
                self.stat("read_dict", "ok")
            except Exception as e:  # noqa
                exp = err_of(e)
                self.stat("read_dict", f"error {exp[1]}")
            terms.append(f"res_agrees parser_eqb (read_dict {cq_dict2(d)} empty_parser) {cq_exp(exp)}")
            descr.append(("read_dict", repr(d)))
            self.count(("rd", repr(d)))
        # str.replace
        for i in range(200 if self.tier == "quick" else 3000):
            alpha = "ab/." if i % 2 else "a$é/"
            old = "".join(self.rng.choice(alpha) for _ in range(self.rng.randint(1, 3)))
            if i % 20 == 1:
                old = ""      # never happens (get_config_dir() is not empty); ASCII only: bytes vs code points

            new = "".join(self.rng.choice(alpha) for _ in range(self.rng.randint(0, 3)))
            s = "".join(self.rng.choice(alpha) for _ in range(self.rng.randint(0, 12)))
            terms.append(f"str_eqb (replace {cs(old)} {cs(new)} {cs(s)}) {cs(s.replace(old, new))}"
                         f" && Bool.eqb (contains {cs(old)} {cs(s)}) {'true' if old in s else 'false'}")
            descr.append(("replace", old, new, s))
            self.count(("rep", old, new, s))
        ok, failing, diags = run_bool_cases("C35", requires, PREAMBLE, terms, chunk=120)
        self.ob("correspondence", f"model == config.py/configparser on {len(terms)} generated cases (parse_sections, "
                f"get_value, get_config_dict, round trip, read_dict, replace)",
                ok and not failing, "\n".join(diags) + "".join(f"\nmismatch: {descr[i]!r}"[:600] for i in failing[:10]))
        self.mismatches = [descr[i] for i in failing]

    # ------------------------------------------------------------------ oracle
    def check_config(self, text, local, repl):
        """Decide the property on the implementation for one INI text. Returns (why, cls) — why None if it
        holds or is outside the property's domain; cls 'dollar' if escaping '$' in the emitted dict alone
        repairs it."""
        from redun.config import Config
        with environ(local):
            c = Config()
            try:
                c.read_string(text)
            except Exception:  # noqa
                return None, "outside: config does not load"
            names = c.parser.sections()
            if not in_guard(names):
                return None, "outside: malformed section names"
            try:
                d0 = c.get_config_dict()
                d = c.get_config_dict(replace_config_dir=repl)
            except configparser.InterpolationError:
                return None, "outside: a value does not interpolate"
            eff = {s: {k: c.parser[s][k] for k in c.parser.options(s)} for s in names}
            shape = nested_shape(c._sections)
        # replacing the config dir only rewrites values that contain it, and never sections / option names
        if list(d) != list(d0) or any(list(d[s]) != list(d0[s]) for s in d):
            return "sections / option names of the dictionary depend on replace_config_dir", None
        if all(s in eff and list(d[s]) == list(eff[s]) for s in d):
            for s in d:
                for k, v in d[s].items():
                    if (repl is None or local not in eff[s][k]) and v != d0[s][k]:
                        return f"value {s}.{k} = {eff[s][k]!r} does not contain the config dir but was rewritten", None
        expected = {s: {k: (v.replace(local, repl) if repl is not None and local in v else v) for k, v in kv.items()}
                    for s, kv in eff.items()}

        def back(dct):
            with environ(local, drop_prefix="RV_"):
                c2 = Config(config_dict=dct)
                if sorted(c2.parser.sections()) != sorted(names):
                    return "sections differ after the round trip"
                if nested_shape(c2._sections) != shape:
                    return "nesting differs after the round trip"
                for s in names:
                    if list(c2.parser.options(s)) != list(expected[s]):
                        return f"options of [{s}] differ after the round trip"
                    for k in expected[s]:
                        got = c2.parser[s][k]
                        if got != expected[s][k]:
                            return f"value {s}.{k} = {expected[s][k]!r} became {got!r}"
            return None

        try:
            why = back(d)
        except Exception as e:  # noqa
            why = f"Config(config_dict=...) / access raised {type(e).__name__}: {e}"
        if why is None:
            return None, None
        # is the missing escape of '$' the whole explanation?
        if any("$" in v for kv in expected.values() for v in kv.values()):
            try:
                if back({s: {k: v.replace("$", "$$") for k, v in kv.items()} for s, kv in expected.items()}) is None \
                        and {s: dict(kv) for s, kv in d.items()} == expected:
                    return why, "dollar"
            except Exception:  # noqa
                pass
        return why, None

    def oracle(self):
        g = Gen(self.rng)
        n = 0
        cls_hits = 0
        for key, text, local, repl in WITNESSES:
            n += 1
            why, cls = self.check_config(text, local, repl)
            if why:
                self.findings.append(Finding(key if cls == "dollar" else f"input:{text!r}|{local}|{repl}"[:300], why,
                                             {"kind": "roundtrip", "text": text, "local": local, "repl": repl, "why": why}))
        corpus = CORPUS / "C35.jsonl"
        cases = []
        if corpus.exists():
            for line in corpus.read_text().splitlines():
                if line.strip():
                    d = json.loads(line)
                    cases.append((d["text"], d["local"], d.get("repl")))
        for i in range(1500 if self.tier == "quick" else 40000):
            cases.append(g.config(wf=True, dollars=(i % 5 != 4)))
        for text, local, repl in cases:
            n += 1
            why, cls = self.check_config(text, local, repl)
            self.stat("oracle", "holds" if why is None and cls is None else (cls if why is None else
                      ("violated: unescaped $" if cls == "dollar" else "violated: other")))
            if not why:
                continue
            if cls == "dollar":
                cls_hits += 1
                if cls_hits == 1:
                    self.findings.append(Finding(CLASS_KEY, why, {"kind": "roundtrip", "text": text, "local": local,
                                                                  "repl": repl, "why": why}))
            else:
                self.findings.append(Finding(f"input:{text!r}|{local}|{repl}"[:300], why,
                                             {"kind": "roundtrip", "text": text, "local": local, "repl": repl, "why": why}))
        self.evaluations += n
        self.stat("oracle", "configs", n)
        # report an input without any '$' first: it cannot be the known escaping defect
        self.findings.sort(key=lambda f: ("$" in f.replay.get("text", ""), len(f.replay.get("text", ""))))
        variant = getattr(self, "variant", "?")
        # In the [shipped] variant the property is proved violated (C35_roundtrip_shipped_refuted); the
        # registered known findings are that witness reproduced on the real code. Anything else is new.
        registered = {k["key"] for k in load_known_findings() if k.get("property") == self.id}
        new = [f for f in self.findings if f.key not in registered]
        self.ob("oracle", f"implementation oracle (sections, nesting, options, effective values after "
                f"Config(config_dict=get_config_dict(..)); config-dir replacement) on {n} configurations: no failure "
                f"other than the registered known findings; code is in the [{variant}] variant", not new,
                "; ".join(f"{f.key}: {f.what}" for f in new[:5]))

    def replay(self, doc):
        r = doc.get("replay", {})
        if r.get("kind") == "roundtrip":
            why, cls = self.check_config(r["text"], r["local"], r.get("repl"))
            print("replay:", why or f"property holds on this input now ({cls})")
            return 1 if why else 0
        print("replay: nothing to replay (no failing input was found); broken obligations:",
              json.dumps(doc.get("broken_obligations", []))[:2000])
        return 1
