"""C19 — Nested values are traversed and rebuilt faithfully.

translate : translate/tr_nested.py -> coq/Gen/C19Gen.v (tie + theorems re-checked for `gen`)
correspond: iter_nested_value / map_nested_value versus Model/Nested.v (`iter_nested`, `map_v`
            run from the regenerated configuration) on generated nested values and functions,
            including colliding / unhashable images and the raising dataclass shapes
oracle    : decides the property on the real code without the model: func is called on exactly
            the leaves the iterator yields, the result equals an independent reference rebuild
            (same types, shape, dict order, class, field values, extra attributes); plus real
            scheduler runs over values with nested expressions
"""
from __future__ import annotations

import collections
import dataclasses
import itertools
import json
import os
import typing

from harness.lib import (GEN, CORPUS, VERIF, Finding, PropertyCheck, TranslateError, cq_list, cq_Z, run_bool_cases,
                         scratch_dir)
from translate import astutil, tr_nested

PINS = json.loads((VERIF / "translate" / "pins_C19.json").read_text())

# ------------------------------------------------------------------ container classes used by the generators
NT1 = collections.namedtuple("NT1", "a")
NT2 = collections.namedtuple("NT2", "a b")


class NT3(typing.NamedTuple):
    p: object
    q: object = None
    r: object = None


@dataclasses.dataclass
class DPlain:
    x: object
    y: object = None


@dataclasses.dataclass
class DNonInit:
    x: object
    y: object = dataclasses.field(default=None, init=False)
    z: object = None


@dataclasses.dataclass
class DPost:
    x: object
    y: object = dataclasses.field(default=None, init=False)

    def __post_init__(self):
        self.y = "set by __post_init__"


@dataclasses.dataclass(frozen=True)
class DFrozen:
    x: object
    y: object = None


@dataclasses.dataclass(eq=False)
class DIdent:
    x: object


@dataclasses.dataclass
class DKw:
    x: object
    _: dataclasses.KW_ONLY
    k: object = None


_T = typing.TypeVar("_T")


@dataclasses.dataclass
class DGeneric(typing.Generic[_T]):
    x: object
    y: object = None


@dataclasses.dataclass(frozen=True)
class DFrozenNonInit:          # hazard 1: setattr on a frozen instance
    x: object
    y: object = dataclasses.field(default=None, init=False)


@dataclasses.dataclass(slots=True)
class DSlots:                  # hazard 2: no __dict__
    x: object
    y: object = None


@dataclasses.dataclass(frozen=True, slots=True)
class DFrozenSlotsNonInit:     # both
    x: object
    y: object = dataclasses.field(default=None, init=False)


# containers that are falsy by their own __bool__ / __len__ although their fields hold values: used by the
# scheduler-level oracle only ("empty" must be judged by the container dispatch, never by truthiness)
@dataclasses.dataclass
class DFalsy:
    ok: object
    payload: object = None

    def __bool__(self):
        return False


@dataclasses.dataclass
class DLen:
    items: object
    summary: object = None

    def __len__(self):
        return 0


class NTFalsy(typing.NamedTuple):
    a: object
    b: object = None

    def __bool__(self):
        return False


SCHED_DCS = {"DFalsy": DFalsy, "DLen": DLen}
SCHED_NTS = {"NTFalsy": NTFalsy}

NT_CLASSES = {"NT1": NT1, "NT2": NT2, "NT3": NT3}
NT_IDS = {"NT1": 1, "NT2": 2, "NT3": 3}
DC_CLASSES = {c.__name__: c for c in (DPlain, DNonInit, DPost, DFrozen, DIdent, DKw, DGeneric, DFrozenNonInit, DSlots,
                                      DFrozenSlotsNonInit)}
DC_IDS = {n: i + 1 for i, n in enumerate(DC_CLASSES)}
HAZARD = {"DFrozenNonInit": ("frozen",), "DSlots": ("slots",), "DFrozenSlotsNonInit": ("frozen", "slots")}
SAFE_DCS = [n for n in DC_CLASSES if n not in HAZARD]
EXTRA_KEYS = {"__orig_class__": 1, "extra_attr": 2}


def dc_hashmode(cls):
    p = cls.__dataclass_params__
    if not p.eq:
        return "HIdent"
    if p.frozen or p.unsafe_hash:
        return "HFields"
    return "HNone"


def dc_has_slots(cls):
    return "__slots__" in cls.__dict__


def dc_fields(cls):
    return dataclasses.fields(cls)


# ------------------------------------------------------------------ leaves
class Opaque:
    def __init__(self, n):
        self.n = n

    def __repr__(self):
        return f"Opaque({self.n})"


class MyList(list):
    pass


class MyTuple(tuple):
    pass


class MyDict(dict):
    pass


def _mk_leaves():
    lv = list(range(10))                                  # 0..9 ints
    lv += ["a", "b", "", None, 2.5, b"x"]                # 10..15
    lv += [frozenset({"fz"}), Opaque(1), Opaque(2), DPlain, len]            # 16..20 hashable odd ones
    lv += [MyTuple(("mt",))]                              # 21 tuple subclass without _fields: a leaf
    n_hashable = len(lv)
    lv += [bytearray(b"u"), MyList([1]), MyDict(a=1), collections.OrderedDict(b=2),
           collections.defaultdict(list)]                 # unhashable leaves (list/dict subclasses are leaves)
    return lv, n_hashable


LEAVES, N_HASHABLE = _mk_leaves()
LEAF_ID = {id(o): i for i, o in enumerate(LEAVES)}


def leaf_hashable(i):
    return i < N_HASHABLE


def leaf_index(o):
    i = LEAF_ID.get(id(o))
    if i is None:
        for j, x in enumerate(LEAVES[:16]):               # small ints / str may be re-created objects
            if type(x) is type(o) and x == o:
                return j
        raise KeyError(f"not a known leaf: {o!r}")
    return i


# ------------------------------------------------------------------ specs (JSON-able) -> Python values
def build(spec):
    t = spec[0]
    if t == "L":
        return LEAVES[spec[1]]
    if t == "list":
        return [build(x) for x in spec[1]]
    if t == "tuple":
        return tuple(build(x) for x in spec[1])
    if t == "nt":
        return NT_CLASSES[spec[1]](*[build(x) for x in spec[2]])
    if t == "set":
        return {build(x) for x in spec[1]}
    if t == "dict":
        return {build(k): build(x) for k, x in spec[1]}
    if t == "dc":
        cls = DC_CLASSES[spec[1]]
        vals = [build(x) for x in spec[2]]
        fs = dc_fields(cls)
        kw = {f.name: v for f, v in zip(fs, vals) if f.init}
        obj = (cls[int] if spec[1] == "DGeneric" and spec[3] else cls)(**kw)
        for f, v in zip(fs, vals):
            if not f.init:
                object.__setattr__(obj, f.name, v)
        if spec[3] and spec[1] != "DGeneric" and hasattr(obj, "__dict__"):
            obj.__dict__["extra_attr"] = "kept"
        return obj
    raise ValueError(spec)


def extras_of(obj):
    if not hasattr(obj, "__dict__"):
        return []
    names = {f.name for f in dataclasses.fields(obj)}
    return sorted(k for k in obj.__dict__ if k not in names)


# ------------------------------------------------------------------ Python values -> Coq terms (the harness's own dispatch)
def kind(v):
    t = type(v)
    if t is list:
        return "list"
    if t is tuple:
        return "tuple"
    if t in NT_CLASSES.values() or t in SCHED_NTS.values():
        return "nt"
    if t is set:
        return "set"
    if t is dict:
        return "dict"
    if t in DC_CLASSES.values() or t in SCHED_DCS.values():
        return "dc"
    return "leaf"


def cq_dcls(cls):
    p = cls.__dataclass_params__
    return (f"(mkd {DC_IDS[cls.__name__]} {'true' if p.frozen else 'false'} "
            f"{'true' if dc_has_slots(cls) else 'false'} {dc_hashmode(cls)})")


def cq_val(v) -> str:
    k = kind(v)
    if k == "leaf":
        i = leaf_index(v)
        return f"(L {i} {'true' if leaf_hashable(i) else 'false'})"
    if k == "list":
        return f"(VList {cq_list([cq_val(x) for x in v])})"
    if k == "tuple":
        return f"(VTuple {cq_list([cq_val(x) for x in v])})"
    if k == "nt":
        return f"(VNamed {NT_IDS[type(v).__name__]} {cq_list([cq_val(x) for x in v])})"
    if k == "set":
        return f"(VSet {cq_list([cq_val(x) for x in v])})"          # Python's iteration order
    if k == "dict":
        return "(VDict " + cq_list([f"({cq_val(a)}, {cq_val(b)})" for a, b in v.items()]) + ")"
    cls = type(v)
    fs = []
    for j, f in enumerate(dataclasses.fields(v)):
        fs.append(f"(mkf {j} {'true' if f.init else 'false'}, {cq_val(getattr(v, f.name))})")
    ex = [str(EXTRA_KEYS[e]) for e in extras_of(v)]
    return f"(VData {cq_dcls(cls)} {cq_list(fs)} {cq_list(ex)})"


PREAMBLE = r"""
From RV Require Import Gen.C19Gen.
Open Scope Z_scope.
Definition cleaf := (Z * bool)%type.
Definition cleq (a b : cleaf) := Z.eqb (fst a) (fst b).
Definition chash (a : cleaf) := snd a.
Definition L (i : Z) (h : bool) : val cleaf := Leaf (i, h).
Definition mkd (i : Z) (fr sl : bool) (h : hashmode) := {| dc_id := i; dc_frozen := fr; dc_slots := sl; dc_hash := h |}.
Definition mkf (i : Z) (b : bool) := {| f_name := i; f_init := b |}.
Definition f_of (tbl : list (Z * val cleaf)) (a : cleaf) : val cleaf :=
  match find (fun p => Z.eqb (fst p) (fst a)) tbl with Some p => snd p | None => Leaf a end.
Definition err_eqb (a b : err) : bool :=
  match a, b with EUnhashable, EUnhashable | EFrozen, EFrozen | ENoDict, ENoDict | EBadRule, EBadRule => true
  | _, _ => false end.
Definition ids (l : list cleaf) : list Z := map fst l.
Definition chk_map (tbl : list (Z * val cleaf)) (v : val cleaf) (explog : list Z) (exp : res (val cleaf)) : bool :=
  let '(log, r) := map_v cleaf cleq chash gen (f_of tbl) v in
  list_eqb Z.eqb (ids log) explog &&
  match r, exp with
  | Ok w, Ok w' => val_sim cleaf cleq w w'
  | Err e, Err e' => err_eqb e e'
  | _, _ => false
  end.
Definition chk_iter (v : val cleaf) (exp : list Z) : bool :=
  match iter_nested cleaf gen (pops v) v with IDone out => list_eqb Z.eqb (ids out) exp | _ => false end.
(* the model's own prediction of "no collision, no raising dataclass step" agrees with what happened *)
Definition chk_pred (s : setter) (d : dictcopy) (tbl : list (Z * val cleaf)) (v : val cleaf) (ok : bool) : bool :=
  implb (collision_free cleq chash (f_of tbl) v && dc_ok s d v) ok.
"""


# ------------------------------------------------------------------ generators
class Gen:
    def __init__(self, rng, hazards=0.0, dcs=None):
        self.rng = rng
        self.hazards = hazards
        self.dcs = dcs or SAFE_DCS

    def leaf(self, hashable=False):
        r = self.rng
        if hashable or r.random() < 0.85:
            return ["L", r.randrange(N_HASHABLE) if r.random() < 0.3 else r.randrange(10)]
        return ["L", r.randrange(N_HASHABLE, len(LEAVES))]

    def hashable(self, depth):
        """a spec whose value is hashable (set element / dict key)"""
        r = self.rng
        if depth <= 0 or r.random() < 0.6:
            return self.leaf(hashable=True)
        k = r.random()
        n = r.choice([0, 1, 2, 2, 3])
        if k < 0.45:
            return ["tuple", [self.hashable(depth - 1) for _ in range(n)]]
        if k < 0.7:
            name = r.choice(list(NT_CLASSES))
            m = len(NT_CLASSES[name]._fields)
            return ["nt", name, [self.hashable(depth - 1) for _ in range(m)]]
        if k < 0.9:
            return ["dc", "DFrozen", [self.hashable(depth - 1) for _ in range(2)], False]
        return ["dc", "DIdent", [self.value(depth - 1)], False]

    def value(self, depth):
        r = self.rng
        if depth <= 0 or r.random() < 0.15:
            return self.leaf()
        k = r.choice(["list", "list", "tuple", "nt", "set", "dict", "dict", "dc", "dc"])
        n = r.choice([0, 1, 1, 2, 2, 3, 4])
        if k == "list":
            return ["list", [self.value(depth - 1) for _ in range(n)]]
        if k == "tuple":
            return ["tuple", [self.value(depth - 1) for _ in range(n)]]
        if k == "nt":
            name = r.choice(list(NT_CLASSES))
            return ["nt", name, [self.value(depth - 1) for _ in range(len(NT_CLASSES[name]._fields))]]
        if k == "set":
            return ["set", [self.hashable(depth - 1) for _ in range(n)]]
        if k == "dict":
            return ["dict", [[self.hashable(depth - 1), self.value(depth - 1)] for _ in range(n)]]
        if r.random() < self.hazards:
            name = r.choice(list(HAZARD))
        else:
            name = r.choice(self.dcs)
        m = len(dc_fields(DC_CLASSES[name]))
        return ["dc", name, [self.value(depth - 1) for _ in range(m)], r.random() < 0.3]

    def table(self, mode):
        """func as a table leaf index -> spec. modes: inj (fresh distinct hashable leaves),
        coll (few images), cont (some images are containers / unhashable)"""
        r = self.rng
        idx = list(range(len(LEAVES)))
        if mode == "inj":
            img = list(range(N_HASHABLE))
            r.shuffle(img)
            img = img + list(range(N_HASHABLE, len(LEAVES)))
            return {i: ["L", img[i]] for i in idx}
        if mode == "coll":
            pool = [r.randrange(N_HASHABLE) for _ in range(r.choice([1, 2, 3]))]
            return {i: ["L", r.choice(pool)] if r.random() < 0.7 else ["L", i] for i in idx}
        tbl = {}
        for i in idx:
            k = r.random()
            if k < 0.5:
                tbl[i] = ["L", r.randrange(len(LEAVES))]
            elif k < 0.7:
                tbl[i] = ["tuple", [["L", r.randrange(10)] for _ in range(r.choice([0, 1, 2]))]]
            elif k < 0.8:
                tbl[i] = ["list", [["L", r.randrange(10)]]]
            elif k < 0.9:
                tbl[i] = ["nt", "NT2", [["L", r.randrange(10)], ["L", r.randrange(10)]]]
            else:
                tbl[i] = ["set", [["L", r.randrange(10)]]]
        return tbl


def has_hazard(spec, which=None):
    if spec[0] == "dc":
        hz = HAZARD.get(spec[1], ())
        if (hz if which is None else which in hz):
            return True
        return any(has_hazard(x, which) for x in spec[2])
    if spec[0] in ("list", "tuple", "set"):
        return any(has_hazard(x, which) for x in spec[1])
    if spec[0] == "nt":
        return any(has_hazard(x, which) for x in spec[2])
    if spec[0] == "dict":
        return any(has_hazard(k, which) or has_hazard(x, which) for k, x in spec[1])
    return False


def spec_kinds(spec, acc):
    acc.add(spec[0] if spec[0] != "dc" else "dc:" + spec[1])
    if spec[0] in ("list", "tuple", "set"):
        for x in spec[1]:
            spec_kinds(x, acc)
    elif spec[0] in ("nt", "dc"):
        for x in spec[2]:
            spec_kinds(x, acc)
    elif spec[0] == "dict":
        for k, x in spec[1]:
            spec_kinds(k, acc)
            spec_kinds(x, acc)
    return acc


def depth_of(spec):
    if spec[0] == "L":
        return 0
    if spec[0] in ("list", "tuple", "set"):
        return 1 + max([depth_of(x) for x in spec[1]] or [0])
    if spec[0] in ("nt", "dc"):
        return 1 + max([depth_of(x) for x in spec[2]] or [0])
    return 1 + max([max(depth_of(k), depth_of(x)) for k, x in spec[1]] or [0])


# ------------------------------------------------------------------ independent reference (the property, in Python)
def ref_leaves(v, out):
    """the leaves of a nested value (identity of the objects), any order"""
    k = kind(v)
    if k == "leaf":
        out.append(v)
    elif k in ("list", "tuple", "nt", "set"):
        for x in v:
            ref_leaves(x, out)
    elif k == "dict":
        for a, b in v.items():
            ref_leaves(a, out)
            ref_leaves(b, out)
    else:
        for f in dataclasses.fields(v):
            ref_leaves(getattr(v, f.name), out)
    return out


def ref_canon(v, leaf):
    """canonical description of type + shape + leaves of a value; `leaf` maps a leaf object to a token"""
    k = kind(v)
    if k == "leaf":
        return ("leaf", leaf(v))
    if k in ("list", "tuple"):
        return (k, tuple(ref_canon(x, leaf) for x in v))
    if k == "nt":
        return ("nt", type(v).__name__, tuple(ref_canon(x, leaf) for x in v))
    if k == "set":
        return ("set", frozenset(ref_canon(x, leaf) for x in v), len(v))
    if k == "dict":
        return ("dict", tuple((ref_canon(a, leaf), ref_canon(b, leaf)) for a, b in v.items()))
    return ("dc", type(v).__name__, tuple((f.name, ref_canon(getattr(v, f.name), leaf)) for f in dataclasses.fields(v)),
            tuple(extras_of(v)), getattr(v, "__orig_class__", None))


class Tag:
    """image of a leaf under the oracle's injective function: hashable, equal only to itself"""

    def __init__(self, of):
        self.of = of

    def __repr__(self):
        return f"Tag({self.of!r})"


# ------------------------------------------------------------------ the check
class Check(PropertyCheck):
    id = "C19"
    module = "Props.C19"
    theorems = ["C19_iter_yields_leaves", "C19_iter_fuel_irrelevant", "C19_map_visits_leaves", "C19_map_call_order",
                "C19_map_rebuilds_fixed", "C19_map_rebuilds_shipped_partial", "C19_map_rebuilds_any",
                "C19_rebuild_shape", "C19_rebuild_leaves", "C19_rebuild_leaves_leafwise", "C19_map_identity",
                "C19_shipped_refuted_frozen_noninit", "C19_shipped_refuted_slots",
                "C19_map_returns_only_if_dc_ok", "C19_shipped_refuted_general", "C19_collision_case",
                "C19_eval_replaces_all_exprs", "C19_nonvacuous"]
    extra_modules = ["Proofs.NestedSpec"]
    allowed_axioms = []
    section_premises = [
        "C19_eval_replaces_all_exprs only: eval_term / resolve_term leave non-expression leaves alone, and the result "
        "of an expression contains no expression (explicit premises of the theorem; scheduler properties C01)",
    ]
    assumptions = [
        "leaves are opaque: == between hashable leaves is an equivalence and hash() is consistent with it (model "
        "parameters leq / lhash); func is total (an exception raised by func propagates, outside the property)",
        "set iteration order is not modelled: the model is given each input set in CPython's iteration order and "
        "result sets are compared up to order",
        "dataclasses: generated __init__/__eq__/__hash__ of the stdlib decorator, no user __post_init__ that rewrites "
        "init fields, no InitVar without default; namedtuple __new__ not overridden",
        "Scheduler.evaluate is modelled as its two map_nested_value passes (shape pinned); promise rejection is outside",
    ]
    rule = ("random nested Python values (list, tuple, 3 namedtuple classes, set, dict with tuple/namedtuple/frozen-"
            "dataclass keys, 10 dataclass classes incl. non-init fields, frozen, eq=False, kw_only, Generic, slots) of "
            "depth <= 5 over 27 leaf objects (ints, str, None, bytes, frozenset, callables, list/dict/tuple subclasses, "
            "unhashables), with func given as a table: injective, colliding, or container-/unhashable-valued; a case "
            "is non-trivial if the value has depth >= 2; distinct by (value spec, func table)")

    # ---------------------------------------------------------------- translate
    def translate(self):
        GEN.mkdir(exist_ok=True)
        p, q = GEN / "C19Gen.v", GEN / "C19Tie.v"
        for f in (p, q):                       # never leave a stale compiled configuration behind
            for ext in (".v", ".vo", ".vok", ".vos", ".glob"):
                f.with_suffix(ext).unlink(missing_ok=True)
        try:
            text, tie, info = tr_nested.translate(pins=PINS)
        except astutil.TranslateError as e:
            raise TranslateError(str(e))
        self.variant = info["variant"]
        p.write_text(text)
        q.write_text(tie)
        self.stat("translator", f"variant={self.variant[0]}/{self.variant[1]}")
        return [p, q]

    # ---------------------------------------------------------------- real code, instrumented by wrapping func only
    @staticmethod
    def run_map(value, func):
        from redun.utils import map_nested_value
        seen = []

        def logged(x):
            seen.append(x)
            return func(x)
        try:
            return seen, ("ok", map_nested_value(logged, value))
        except BaseException as e:  # noqa
            return seen, ("exc", e)

    @staticmethod
    def classify_exc(e):
        if isinstance(e, dataclasses.FrozenInstanceError):
            return "EFrozen"
        if isinstance(e, TypeError) and "unhashable" in str(e):
            return "EUnhashable"
        if isinstance(e, AttributeError) and "__dict__" in str(e):
            return "ENoDict"
        return None

    # ---------------------------------------------------------------- correspondence
    def correspond(self):
        from redun.utils import iter_nested_value
        from harness.lib import coqc
        variant = getattr(self, "variant", ("SetAttr", "Unguarded"))
        p = GEN / "C19Gen.v"
        if not p.exists():
            # the translator failed closed: compare the code with the configuration the theorems are about
            p.write_text("(* FALLBACK written by harness/props/c19.py: the translator did not recognise the source *)\n"
                         "From RV Require Import Model.Nested.\nDefinition gen : cfg := shipped.\n")
        if not p.with_suffix(".vo").exists():
            coqc(p)
        n = 1200 if self.tier == "quick" else 15000
        terms, descr = [], []
        specs = []
        corpus = CORPUS / "C19.jsonl"
        if corpus.exists():
            for line in corpus.read_text().splitlines():
                if line.strip():
                    d = json.loads(line)
                    specs.append((d["spec"], {int(k): v for k, v in d["table"].items()}, "corpus"))
        g_plain = Gen(self.rng)
        g_haz = Gen(self.rng, hazards=0.35)
        for i in range(n):
            mode = ("inj", "inj", "coll", "cont", "inj")[i % 5]
            g = g_haz if i % 7 == 3 else g_plain
            specs.append((g.value(self.rng.choice([1, 2, 3, 3, 4, 4, 5])), g.table(mode), mode))
        for spec, table, mode in specs:
            value = build(spec)
            images = {i: build(s) for i, s in table.items()}
            func = lambda x: images.get(leaf_index(x), x)  # noqa: E731  (leaves outside the table: unchanged)
            cv = cq_val(value)
            ctbl = cq_list([f"({i}, {cq_val(images[i])})" for i in sorted(images)])
            # iterator
            try:
                it = [leaf_index(x) for x in iter_nested_value(value)]
                terms.append(f"chk_iter {cv} {cq_list([str(x) for x in it])}")
            except Exception as e:  # noqa
                terms.append("false")
            descr.append(("iter", spec, None))
            # map
            seen, (st, res) = self.run_map(value, func)
            log = cq_list([str(leaf_index(x)) for x in seen])
            if st == "ok":
                try:
                    exp = f"(Ok {cq_val(res)})"
                    self.stat("map_result", "ok")
                except (KeyError, AttributeError) as e:      # the result contains something that is not a
                    exp = None                               # rebuilt container / known leaf: a mismatch
                    self.stat("map_result", f"unencodable:{type(e).__name__}")
            else:
                e = self.classify_exc(res)
                exp = f"(Err {e})" if e else None
                self.stat("map_result", e or f"other:{type(res).__name__}")
            if exp is None:
                terms.append("false")
            else:
                terms.append(f"chk_map {ctbl} {cv} {log} {exp} && chk_pred {variant[0]} {variant[1]} {ctbl} {cv} "
                             f"{'true' if st == 'ok' else 'false'}")
            descr.append(("map", spec, table))
            self.stat("func_mode", mode)
            for k in spec_kinds(spec, set()):
                self.stat("containers", k)
            d = depth_of(spec)
            self.stat("depth", d)
            self.count((json.dumps(spec), json.dumps(table, sort_keys=True)) if d >= 2 else None, 2)
            self.sample({"op": "map_nested_value", "value": repr(value)[:160], "func": mode,
                         "result": (repr(res)[:160] if st == "ok" else type(res).__name__)}, 4)
        ok, failing, diags = run_bool_cases("C19", ["Model.Nested", "Proofs.NestedSpec"], PREAMBLE, terms)
        self.ob("correspondence",
                f"model (run from the regenerated configuration) == utils.py on {len(terms)} cases "
                f"(iter_nested_value leaves in order; map_nested_value: calls to func in order, result up to set "
                f"order, exception kind; model's collision/dataclass prediction)",
                ok and not failing,
                "\n".join(diags) + "".join(f"\nmismatch: {descr[i][0]} spec={json.dumps(descr[i][1])[:300]} "
                                           f"table={json.dumps(descr[i][2])[:300]}" for i in failing[:8]))
        self.mismatches = [descr[i] for i in failing]

    # ---------------------------------------------------------------- oracle
    def check_spec(self, spec):
        """Decide the property on one value with an injective, hashable-valued func.
        Returns None or (key, what)."""
        from redun.utils import iter_nested_value
        value = build(spec)
        tags = {}

        def func(x):
            if id(x) not in tags:
                tags[id(x)] = Tag(x)
            return tags[id(x)]
        try:
            yielded = list(iter_nested_value(value))
        except Exception as e:  # noqa
            return ("iter-raises", f"iter_nested_value raises {type(e).__name__}: {e}")
        want = ref_leaves(value, [])
        if sorted(map(id, yielded)) != sorted(map(id, want)):
            return ("iter-leaves", "iter_nested_value does not yield exactly the leaves "
                    f"(got {len(yielded)}, want {len(want)})")
        seen, (st, res) = self.run_map(value, func)
        if st == "exc":
            e = self.classify_exc(res)
            if e == "EFrozen" and has_hazard(spec, "frozen"):
                return ("map:frozen-dataclass-non-init-field:FrozenInstanceError",
                        "map_nested_value raises FrozenInstanceError on a frozen dataclass with an init=False field "
                        "(iter_nested_value yields its leaves)")
            if e == "ENoDict" and has_hazard(spec, "slots"):
                return ("map:slots-dataclass:AttributeError-__dict__",
                        "map_nested_value raises AttributeError('__dict__') on a slots=True dataclass "
                        "(iter_nested_value yields its leaves)")
            return ("map-raises", f"map_nested_value raises {type(res).__name__}: {res}")
        if sorted(map(id, seen)) != sorted(map(id, yielded)):
            return ("visited", "func was not called on exactly the leaves the iterator yields "
                    f"(called {len(seen)}, yielded {len(yielded)})")
        exp = ref_canon(value, lambda o: id(tags[id(o)]))
        got = ref_canon(res, lambda o: id(o))
        if exp != got:
            return ("rebuild", "result is not the value rebuilt with every leaf replaced "
                    f"(expected {str(exp)[:200]}, got {str(got)[:200]})")
        return None

    def visit(self, spec, origin):
        self.n_oracle += 1
        r = self.check_spec(spec)
        if r:
            key, what = r
            if not key.startswith("map:"):
                key = f"{key}:{json.dumps(spec)}"[:300]
            self.findings.append(Finding(key, what, {"kind": "map", "spec": spec, "origin": origin}))

    def small_scope(self):
        """every container type around every container type, plus the dataclass classes, over two leaves"""
        a, b, u = ["L", 1], ["L", 10], ["L", N_HASHABLE]
        inner = [a, ["list", [a, b]], ["tuple", [a, b]], ["nt", "NT2", [a, b]], ["set", [a, b]],
                 ["dict", [[a, b], [b, u]]], ["dict", [[["tuple", [a, b]], a]]], ["list", []], ["tuple", []], ["set", []],
                 ["dict", []]]
        for name in DC_CLASSES:
            m = len(dc_fields(DC_CLASSES[name]))
            inner.append(["dc", name, [a, b, u][:m], False])
            inner.append(["dc", name, [a, b, u][:m], True])
        hashable_inner = [a, ["tuple", [a, b]], ["nt", "NT2", [a, b]], ["dc", "DFrozen", [a, b], False]]
        out = list(inner)
        for x in inner:
            out.append(["list", [x, a]])
            out.append(["tuple", [b, x]])
            out.append(["nt", "NT3", [x, a, x]])
            out.append(["dict", [[b, x]]])
            for name in ("DPlain", "DNonInit", "DKw", "DGeneric"):
                m = len(dc_fields(DC_CLASSES[name]))
                out.append(["dc", name, ([x, x, x])[:m], False])
        for x in hashable_inner:
            out.append(["set", [x, b]])
            out.append(["dict", [[x, a]]])
        return out

    def oracle(self):
        self.n_oracle = 0
        corpus = CORPUS / "C19.jsonl"
        if corpus.exists():
            for line in corpus.read_text().splitlines():
                if line.strip():
                    self.visit(json.loads(line)["spec"], "corpus")
        for spec in self.small_scope():
            self.visit(spec, "small-scope")
        ss = self.n_oracle
        g = Gen(self.rng, hazards=0.02)
        for i in range(6000 if self.tier == "quick" else 80000):
            self.visit(g.value(self.rng.choice([1, 2, 3, 3, 4, 4, 5])), "random")
        self.stat("oracle", "values", self.n_oracle)
        self.stat("oracle", "small_scope_values", ss)
        self.evaluations += self.n_oracle
        n_sched = self.scheduler_oracle(40 if self.tier == "quick" else 400)
        from harness.lib import load_known_findings
        known = {k["key"] for k in load_known_findings() if k.get("property") == self.id}
        unknown = [f for f in self.findings if f.key not in known]
        seen_known = sorted({f.key for f in self.findings if f.key in known})
        self.ob("oracle", f"implementation oracle (leaves visited == leaves yielded; result == reference rebuild) on "
                          f"{self.n_oracle} values, and {n_sched} scheduler runs over values with nested expressions"
                          + (f"; only the registered known findings reproduce: {seen_known}" if seen_known else ""),
                not unknown, "; ".join(f"{f.key}: {f.what}" for f in unknown[:5]))
        # the translator's variant and the oracle must agree on which defects the code has
        variant = getattr(self, "variant", None)
        if variant is not None:
            keys = {f.key for f in self.findings}
            fz = "map:frozen-dataclass-non-init-field:FrozenInstanceError" in keys
            sl = "map:slots-dataclass:AttributeError-__dict__" in keys
            self.ob("variant", f"translator variant {variant[0]}/{variant[1]} agrees with the oracle "
                               f"(frozen+non-init raises: {fz}, slots raises: {sl})",
                    fz == (variant[0] == "SetAttr") and sl == (variant[1] == "Unguarded"))

    # ---------------------------------------------------------------- scheduler level
    def sched_spec(self, depth, counter):
        """nested value whose leaves are ints, some wrapped in task calls / ValueExpressions.
        Leaf spec: ["I", n, how] with how in plain|task|value. Set elements and dict keys are
        distinct ints (redun hashes a set by sorting it)."""
        r = self.rng

        def leaf():
            counter[0] += 1
            return ["I", counter[0], r.choice(["plain", "task", "task", "value"])]
        if depth <= 0 or r.random() < 0.25:
            return leaf()
        k = r.choice(["list", "tuple", "nt", "set", "dict", "dc", "dc", "falsy"])
        n = r.choice([0, 1, 2, 3]) if k in ("list", "tuple", "dict") else r.choice([1, 2, 3])
        if k in ("list", "tuple"):
            return [k, [self.sched_spec(depth - 1, counter) for _ in range(n)]]
        if k == "nt":
            return ["nt", "NT2", [self.sched_spec(depth - 1, counter) for _ in range(2)]]
        if k == "falsy":
            name = r.choice(["DFalsy", "DLen", "NTFalsy"])
            kids = [self.sched_spec(depth - 1, counter) for _ in range(2)]
            return ["nt", name, kids] if name == "NTFalsy" else ["dc", name, kids, False]
        if k == "set":
            return ["set", [leaf() for _ in range(n)]]
        if k == "dict":
            return ["dict", [[leaf() if r.random() < 0.7 else ["tuple", [leaf()]], self.sched_spec(depth - 1, counter)]
                             for _ in range(n)]]
        name = r.choice(["DPlain", "DNonInit", "DFrozen", "DKw"])
        m = len(dc_fields(DC_CLASSES[name]))
        return ["dc", name, [self.sched_spec(depth - 1, counter) for _ in range(m)], False]

    def scheduler_oracle(self, runs):
        import contextlib
        import io
        cwd = os.getcwd()
        tmp = scratch_dir("rv_c19_")
        os.chdir(tmp)
        try:
            from redun import Scheduler
            from redun.config import Config
            import logging
            logging.disable(logging.CRITICAL)
            try:
                with contextlib.redirect_stderr(io.StringIO()), contextlib.redirect_stdout(io.StringIO()):
                    sched = Scheduler(config=Config({"backend": {"db_uri": "sqlite:///:memory:"}}))
                    sched.load()
            finally:
                logging.disable(logging.NOTSET)
            done = 0
            # targeted: a value that is falsy by its own __bool__ / __len__ while a field holds an expression, as the
            # task's direct result and as the direct argument of Scheduler.run (seeded change C19c)
            targeted = [(["dc", "DFalsy", [["I", 1, "plain"], ["I", 2, "task"]], False], m) for m in ("direct", "arg")]
            targeted += [(["dc", "DLen", [["list", []], ["I", 3, "task"]], False], m) for m in ("direct", "arg")]
            targeted += [(["nt", "NTFalsy", [["I", 4, "task"], ["I", 5, "value"]]], m) for m in ("direct", "arg")]
            targeted += [(["list", []], "direct"), (["dict", []], "arg"), (["tuple", []], "direct")]
            for i in range(runs + len(targeted)):
                if i < len(targeted):
                    spec, mode = targeted[i]
                else:
                    spec = self.sched_spec(self.rng.randint(1, 4), [0])
                    mode = self.rng.choice(["wrap", "wrap", "direct", "arg"]) if spec[0] != "set" else "wrap"
                why = self.check_sched(sched, spec, i, mode)
                done += 1
                self.stat("scheduler_runs", "violations" if why else "ok")
                self.stat("scheduler_mode", mode)
                self.stat("scheduler_top_kind", spec[1] if spec[0] in ("dc", "nt") else spec[0])
                if why:
                    self.findings.append(Finding(f"sched:{mode}:{json.dumps(spec)}"[:300], why,
                                                 {"kind": "sched", "spec": spec, "mode": mode}))
            self.evaluations += done
            return done
        finally:
            os.chdir(cwd)
            import shutil
            shutil.rmtree(tmp, ignore_errors=True)

    @staticmethod
    def check_sched(sched, spec, salt, mode="wrap"):
        """mode: wrap = the task returns [value]; direct = the task returns the value itself; arg = the value (with
        its nested expressions) is the direct argument of Scheduler.run"""
        import contextlib
        import io
        import logging
        main = sched_tasks()

        def want(s):
            if s[0] == "I":
                return s[1]
            if s[0] in ("list", "tuple", "set"):
                c = {"list": list, "tuple": tuple, "set": set}[s[0]]
                return c(want(x) for x in s[1])
            if s[0] == "nt":
                return {**NT_CLASSES, **SCHED_NTS}[s[1]](*[want(x) for x in s[2]])
            if s[0] == "dict":
                return {want(k): want(x) for k, x in s[1]}
            return build_dc(s[1], [want(x) for x in s[2]])
        logging.disable(logging.CRITICAL)
        try:
            with contextlib.redirect_stderr(io.StringIO()), contextlib.redirect_stdout(io.StringIO()):
                if mode == "arg":
                    got = sched.run(sched_mk(spec))
                else:
                    got = sched.run(main(json.dumps(spec), salt, mode == "wrap"))
        except Exception as e:  # noqa
            return f"evaluating a nested value with expressions raised {type(e).__name__}: {e}"
        finally:
            logging.disable(logging.NOTSET)
        expect = [want(spec)] if mode == "wrap" else want(spec)
        if sched_canon(got) != sched_canon(expect):
            return (f"nested expressions were not all replaced by their results ({mode}): got {got!r}, "
                    f"expected {expect!r}")[:500]
        return None

    # ---------------------------------------------------------------- replay
    def replay(self, doc):
        r = doc.get("replay", {})
        if r.get("kind") == "map":
            res = self.check_spec(r["spec"])
            print("replay: value =", repr(build(r["spec"]))[:300])
            print("replay:", (res[0] + ": " + res[1]) if res else "property holds on this value now")
            return 1 if res else 0
        if r.get("kind") == "sched":
            tmp = scratch_dir("rv_c19_")
            cwd = os.getcwd()
            os.chdir(tmp)
            try:
                from redun import Scheduler
                from redun.config import Config
                sched = Scheduler(config=Config({"backend": {"db_uri": "sqlite:///:memory:"}}))
                sched.load()
                why = self.check_sched(sched, r["spec"], 0, r.get("mode", "wrap"))
            finally:
                os.chdir(cwd)
            print("replay:", why or "property holds on this value now")
            return 1 if why else 0
        print("replay: nothing to replay (no failing input was found); broken obligations:",
              json.dumps(doc.get("broken_obligations", []))[:2000])
        return 1


_TASKS = []


def sched_tasks():
    """redun tasks for the scheduler-level oracle (created once, on first use)"""
    if _TASKS:
        return _TASKS[0]
    from redun import task
    from redun.expression import ValueExpression

    @task(name="c19_ident", namespace="verif")
    def ident(x):
        return x

    def mk(s):
        if s[0] == "I":
            return {"plain": lambda n: n, "task": ident, "value": ValueExpression}[s[2]](s[1])
        if s[0] in ("list", "tuple", "set"):
            c = {"list": list, "tuple": tuple, "set": set}[s[0]]
            return c(mk(x) for x in s[1])
        if s[0] == "nt":
            return {**NT_CLASSES, **SCHED_NTS}[s[1]](*[mk(x) for x in s[2]])
        if s[0] == "dict":
            return {mk(k): mk(x) for k, x in s[1]}
        return build_dc(s[1], [mk(x) for x in s[2]])

    @task(name="c19_main", namespace="verif", cache=False)
    def main(spec_json, salt, wrap=True):
        # wrapped in a list by default: redun hashes a task's raw result, and its hash of a top-level `set`
        # sorts the elements (TypeError for two Expressions, as for {1, "a"}) -- value hashing, not C19
        v = mk(json.loads(spec_json))
        return [v] if wrap else v

    _TASKS.append(main)
    _TASKS.append(mk)
    return main


def sched_mk(spec):
    sched_tasks()
    return _TASKS[1](spec)


def build_dc(name, vals):
    cls = DC_CLASSES.get(name) or SCHED_DCS[name]
    fs = dc_fields(cls)
    obj = cls(**{f.name: v for f, v in zip(fs, vals) if f.init})
    for f, v in zip(fs, vals):
        if not f.init:
            object.__setattr__(obj, f.name, v)
    return obj


def sched_canon(v):
    """type + shape + leaf values (ints) of a scheduler result"""
    k = kind(v)
    if k in ("list", "tuple"):
        return (k, tuple(sched_canon(x) for x in v))
    if k == "nt":
        return ("nt", type(v).__name__, tuple(sched_canon(x) for x in v))
    if k == "set":
        return ("set", frozenset(sched_canon(x) for x in v), len(v))
    if k == "dict":
        return ("dict", tuple((sched_canon(a), sched_canon(b)) for a, b in v.items()))
    if k == "dc":
        return ("dc", type(v).__name__, tuple((f.name, sched_canon(getattr(v, f.name))) for f in dataclasses.fields(v)))
    return ("leaf", type(v).__name__, repr(v))
