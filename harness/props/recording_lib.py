"""Shared machinery of the C03 / C22 checks (recording model, Model/Recording.v).

* `Fates`: injects the fate of every `session.commit()` attempt of a real RedunBackendDb
  (success / transient OperationalError / process death) -- the model's `list fate`.
* `World`: maps model ids (task ids, value ids, call trees) to real Task objects, Python values and
  call hashes, drives a real backend with operation scripts (`OVal`, `ORcn`, `ONew`, `OImport` of
  Model/RecordingDrive.v) and dumps its tables back into model terms.
* `sched_*`: small real workflows run through the real Scheduler (same database file across runs,
  tasks redefined between runs = code edits), with commit fates injected, plus tracing of what the
  scheduler passes to `record_call_node`.
Nothing here touches /repo; every database lives in a temp dir that is removed afterwards.
"""
from __future__ import annotations

import contextlib
import io
import logging
import os
import shutil
import sys
import tempfile

from harness.lib import cq_list


class Crash(BaseException):
    """The process dies at this commit (never caught by redun: BaseException)."""


FOK, FFAIL, FCRASH = "FOk", "FFail", "FCrash"


def cq_plan(pl):
    return cq_list(list(pl))


class Fates:
    """Consumes one fate per commit attempt of `backend.session`; exhausted plan = success."""

    def __init__(self, backend):
        self.backend = backend
        self.plan = []
        self.log = []          # (index, fate, site)
        self.n = 0
        self.record_sites = False
        sess = backend.session
        self._orig = sess.commit
        sess.commit = self._commit
        # non-commit statements (SELECT / INSERT / UPDATE / PRAGMA ...): one of them can be made to fail
        self.qfail = None          # index (since set_q) of the statement that raises OperationalError, once
        self.qn = 0
        self.qtrack = False
        self.qlog = []             # (index, statement kind, backend call stack)
        from sqlalchemy import event
        event.listen(backend.engine, "before_cursor_execute", self._before_execute)

    def set_q(self, qfail, track=True):
        self.qfail, self.qn, self.qtrack, self.qlog = qfail, 0, track, []

    def _before_execute(self, conn, cursor, statement, parameters, context, executemany):
        if not self.qtrack:
            return
        from sqlalchemy.exc import OperationalError
        idx = self.qn
        self.qn += 1
        kind = statement.lstrip().split(None, 1)[0].upper() if statement.strip() else "?"
        self.qlog.append((idx, kind, self.site_from(sys._getframe(1))))
        if self.qfail is not None and idx == self.qfail:
            self.qfail = None
            raise OperationalError(statement[:60], {}, Exception("injected transient error (statement)"))

    def site_from(self, f):
        names = []
        while f is not None:
            n = f.f_code.co_name
            if f.f_code.co_filename.endswith("backends/db/__init__.py") and n not in ("wrapper", "wrapped", "with_session"):
                names.append(n)
            f = f.f_back
        return ">".join(reversed(names)) or "?"

    def set(self, plan):
        self.plan = list(plan)

    def site(self):
        names = []
        f = sys._getframe(2)
        while f is not None:
            n = f.f_code.co_name
            if f.f_code.co_filename.endswith("backends/db/__init__.py") and n not in ("wrapper", "wrapped", "with_session"):
                names.append(n)
            f = f.f_back
        return ">".join(reversed(names)) or "?"      # outermost backend operation first

    def _commit(self):
        from sqlalchemy.exc import OperationalError
        fate = self.plan.pop(0) if self.plan else FOK
        site = self.site() if self.record_sites or fate != FOK else ""
        self.log.append((self.n, fate, site))
        self.n += 1
        if fate != FOK:
            # the COMMIT statement is what fails: the pending rows have been sent (and checked
            # against the keys) before it
            self.backend.session.flush()
        if fate == FFAIL:
            raise OperationalError("commit", {}, Exception("injected transient error"))
        if fate == FCRASH:
            raise Crash()
        return self._orig()


_NULL_LOGGER = logging.getLogger("rv_null")
_NULL_LOGGER.addHandler(logging.NullHandler())
_NULL_LOGGER.propagate = False


def quiet():
    logging.getLogger("redun").setLevel(logging.CRITICAL)


def new_backend(dbfile, retries=3):
    from redun.backends.db import RedunBackendDb
    from redun.config import create_config_section
    cfg = create_config_section({"db_retries": str(retries), "db_retries_backoff": "0.0001",
                                 "db_retries_backoff_max": "0.0002"})
    b = RedunBackendDb(db_uri=f"sqlite:///{dbfile}", config=cfg, logger=_NULL_LOGGER)
    b.load()
    return b


_TEMPLATE = {}


def fresh_db(dirpath, name):
    """A migrated empty database file (copied from a template made once per process)."""
    if "path" not in _TEMPLATE:
        d = tempfile.mkdtemp(prefix="rv_tmpl_")
        p = os.path.join(d, "t.db")
        b = new_backend(p)
        b.session.close()
        b.engine.dispose()
        _TEMPLATE["path"] = p
        _TEMPLATE["dir"] = d
    dst = os.path.join(dirpath, name)
    shutil.copyfile(_TEMPLATE["path"], dst)
    return dst


def cleanup_template():
    if "dir" in _TEMPLATE:
        shutil.rmtree(_TEMPLATE["dir"], ignore_errors=True)
        _TEMPLATE.clear()


# ---------------------------------------------------------------------------- model terms
class Tree:
    """Model call tree: (task id, arg value ids, result value id, kids)."""
    __slots__ = ("t", "a", "r", "kids", "_h")

    def __init__(self, t, a, r, kids=()):
        self.t, self.a, self.r, self.kids = t, tuple(a), r, tuple(kids)
        self._h = None

    def cq(self):
        return f"(Node {self.t} {cq_list([str(x) for x in self.a])} {self.r} {cq_list([k.cq() for k in self.kids])})"

    def key(self):
        return (self.t, self.a, self.r, tuple(k.key() for k in self.kids))

    def tasks(self):
        out = [self.t]
        for k in self.kids:
            out += k.tasks()
        return out

    def subtrees(self):
        out = [self]
        for k in self.kids:
            out += k.subtrees()
        return out


class World:
    """Real counterparts of model ids. Task ids < 100, value ids >= 100 (values are the ints themselves)."""

    def __init__(self, n_tasks=8):
        from redun import task as task_dec
        self.tasks = {}
        for i in range(1, n_tasks + 1):
            ns = {}
            src = f"def t{i}(*args):\n    return {i}\n"
            exec(src, ns)
            self.tasks[i] = task_dec(name=f"t{i}", namespace="rvm", source=src)(ns[f"t{i}"])
        self.task_by_hash = {t.hash: i for i, t in self.tasks.items()}
        self.tree_by_hash = {}
        self.val_by_hash = {}

    def value_hash(self, backend, v):
        h = backend.type_registry.get_hash(v)
        self.val_by_hash[h] = v
        return h

    def args_hash(self, backend, tree):
        from redun.task import hash_args_eval
        return hash_args_eval(backend.type_registry, self.tasks[tree.t], tuple(tree.a), {})[1]

    def call_hash(self, backend, tree):
        from redun.hashing import hash_call_node
        if tree._h is None:
            for v in tree.a:
                self.value_hash(backend, v)
            tree._h = hash_call_node(self.tasks[tree.t].hash, self.args_hash(backend, tree),
                                     self.value_hash(backend, tree.r), [self.call_hash(backend, k) for k in tree.kids])
            self.tree_by_hash[tree._h] = tree
        return tree._h

    def canon(self, backend, tree):
        """Child order does not enter hash_call_node (it sorts): keep one representative per hash."""
        kids = sorted((self.canon(backend, k) for k in tree.kids), key=lambda k: self.call_hash(backend, k))
        dedup = []
        for k in kids:
            if not dedup or self.call_hash(backend, dedup[-1]) != self.call_hash(backend, k):
                dedup.append(k)
        return Tree(tree.t, tree.a, tree.r, dedup)

    # ---- operations on a real backend; return 0 (returned) / 1 (died)
    def op_val(self, backend, fates, v, plan):
        fates.set(plan)
        obj = self.tasks[v] if v < 100 else v
        try:
            backend.record_value(obj)
            return 0
        except Crash:
            return 1
        except Exception:  # noqa: retries exhausted or a non-retried error: the scheduler would die
            return 1
        finally:
            fates.set([])

    def op_rcn(self, backend, fates, tree, sub, plan, qfail=None, track=False):
        self.call_hash(backend, tree)
        fates.set(plan)
        fates.set_q(qfail, track or qfail is not None)
        try:
            result_hash = backend.record_value(tree.r)
            t = self.tasks[tree.t]
            backend.record_call_node(
                task_name=t.fullname, task_hash=t.hash, args_hash=self.args_hash(backend, tree),
                expr_args=(tuple(tree.a), {}), eval_args=(tuple(tree.a), {}), result_hash=result_hash,
                child_call_hashes=[self.call_hash(backend, k) for k in tree.kids],
                subtree_tasks=[self.tasks[i] for i in dict.fromkeys(sub)])
            return 0
        except Crash:
            return 1
        except Exception:  # noqa
            return 1
        finally:
            fates.set([])
            fates.qtrack = False

    def dump(self, backend):
        """Tables of the database in model terms (rows about unknown hashes are reported as such)."""
        from redun.backends.db import Argument, CallEdge, CallNode, CallSubtreeTask, Value
        s = backend.session
        s.rollback()
        s.expire_all()
        unknown = []
        vals = []
        for (h,) in s.query(Value.value_hash):
            if h in self.val_by_hash:
                vals.append(self.val_by_hash[h])
            elif h in self.task_by_hash:
                vals.append(self.task_by_hash[h])
        nodes, edges, args, subs = [], [], [], []
        T = self.tree_by_hash
        for cn in s.query(CallNode):
            (nodes.append(T[cn.call_hash]) if cn.call_hash in T else unknown.append(("node", cn.call_hash)))
        for e in s.query(CallEdge):
            if e.parent_id in T and e.child_id in T:
                edges.append((T[e.parent_id], T[e.child_id], e.call_order))
            else:
                unknown.append(("edge", e.parent_id, e.child_id))
        for a in s.query(Argument):
            if a.call_hash in T and a.value_hash in self.val_by_hash:
                args.append((T[a.call_hash], a.arg_position, self.val_by_hash[a.value_hash]))
            else:
                unknown.append(("arg", a.call_hash))
        for r in s.query(CallSubtreeTask):
            if r.call_hash in T and r.task_hash in self.task_by_hash:
                subs.append((T[r.call_hash], self.task_by_hash[r.task_hash]))
            else:
                unknown.append(("sub", r.call_hash))
        fk = list(s.execute(__import__("sqlalchemy").text("PRAGMA foreign_key_check")))
        s.rollback()
        return {"vals": vals, "nodes": nodes, "edges": edges, "args": args, "subs": subs,
                "unknown": unknown, "fk": fk}

    @staticmethod
    def cq_dump(d):
        return ("(mkdump " + cq_list([str(v) for v in d["vals"]]) + " " + cq_list([n.cq() for n in d["nodes"]]) + " "
                + cq_list([f"({p.cq()}, {k.cq()}, {i})" for p, k, i in d["edges"]]) + " "
                + cq_list([f"({c.cq()}, {i}, {v})" for c, i, v in d["args"]]) + " "
                + cq_list([f"({c.cq()}, {t})" for c, t in d["subs"]]) + ")")

    @staticmethod
    def canon_dump(d):
        return {k: sorted((repr(_k(x)) for x in d[k])) for k in ("vals", "nodes", "edges", "args", "subs")}

    def query(self, backend, t, a, reg):
        """Real _get_call_node for task id t, args a, registry = task ids reg -> Tree | None | 'unknown'."""
        probe = Tree(t, a, 0)
        cn = backend._get_call_node(self.tasks[t].hash, self.args_hash(backend, probe), {self.tasks[i].hash for i in reg})
        backend.session.rollback()
        if cn is None:
            return None
        return self.tree_by_hash.get(cn.call_hash, "unknown")


def _k(x):
    if isinstance(x, Tree):
        return x.key()
    if isinstance(x, tuple):
        return tuple(_k(y) for y in x)
    return x


def close_backend(b):
    try:
        b.session.rollback()
        b.session.close()
        b.engine.dispose()
    except Exception:  # noqa
        pass


def run_script(world, ops, retries, workdir, tag="c"):
    """Run an operation script on real backends. ops: ('val', v, plan) | ('rcn', Tree, sub, plan) |
    ('new',) | ('import', [Tree]).  Returns (outs, dump, backend) -- caller closes the backend."""
    dbfile = fresh_db(workdir, f"{tag}.db")
    backend = None
    fates = None
    outs = []
    alive = False
    last_q = []
    for op in ops:
        if op[0] == "new":
            if backend is not None:
                close_backend(backend)
            backend = new_backend(dbfile, retries)
            fates = Fates(backend)
            alive = True
            outs.append(0)
        elif op[0] == "import":
            src_file = fresh_db(workdir, f"{tag}_src{len(outs)}.db")
            src = new_backend(src_file, retries)
            sf = Fates(src)
            for i in world.tasks:
                world.op_val(src, sf, i, [])
            done = set()
            for root in op[1]:
                for c in reversed(root.subtrees()):          # children first
                    if c.key() not in done:
                        done.add(c.key())
                        world.op_rcn(src, sf, c, c.tasks(), [])
            # the transfer is done by another process (redun push/pull): its own engine and pool.
            # (put_records leaves a pooled connection with PRAGMA foreign_keys=OFF, see C22 findings.)
            if alive:
                backend.session.rollback()
            tmp = new_backend(dbfile, retries)
            ids = list(src.iter_record_ids([world.call_hash(src, r) for r in op[1]]))
            tmp.put_records(src.get_records(ids))
            tmp.session.rollback()
            close_backend(tmp)
            close_backend(src)
            outs.append(0)
        elif not alive:
            outs.append(2)
        else:
            if op[0] == "val":
                x = world.op_val(backend, fates, op[1], op[2])
            else:
                x = world.op_rcn(backend, fates, op[1], op[2], op[3], *(op[4:6]))
                last_q[:] = list(fates.qlog)
            outs.append(x)
            if x == 1:
                close_backend(backend)
                backend = None
                alive = False
    if backend is None:
        backend = new_backend(dbfile, retries)
    d = world.dump(backend)
    d["qlog"] = list(last_q)          # statements of the last record_call_node operation (when tracked)
    return outs, d, backend


def cq_ops(ops):
    out = []
    for op in ops:
        if op[0] == "new":
            out.append("ONew")
        elif op[0] == "import":
            out.append("(OImport " + cq_list([t.cq() for t in op[1]]) + ")")
        elif op[0] == "val":
            out.append(f"(OVal {op[1]} {cq_plan(op[2])})")
        else:
            out.append(f"(ORcn {op[1].cq()} {cq_list([str(x) for x in op[2]])} {cq_plan(op[3])})")
    return cq_list(out)


# ---------------------------------------------------------------------------- scheduler workloads
WORKLOADS = {
    # name -> (source template with {leaf} body, expression, description)
    "chain": ("""
@task(name="leaf", namespace="rvw")
def leaf(x):
    return {leaf}
@task(name="mid", namespace="rvw")
def mid(x):
    return leaf(x)
@task(name="top", namespace="rvw", check_valid="shallow")
def top(x):
    return mid(x + 10)
@task(name="main", namespace="rvw")
def main(x):
    return [top(x), top(x + 1)]
""", "main(1)"),
    "cse": ("""
@task(name="leaf", namespace="rvw")
def leaf(x):
    return {leaf}
@task(name="mid", namespace="rvw")
def mid(x):
    return leaf(x)
@task(name="a", namespace="rvw")
def a(x):
    return mid(x)
@task(name="const0", namespace="rvw")
def const0(r):
    return 0
@task(name="p", namespace="rvw", check_valid="shallow")
def p(x, dep):
    return mid(x)
@task(name="main", namespace="rvw")
def main(x):
    r = a(x)
    return [r, p(x, const0(r))]
""", "main(1)"),
    "two_args": ("""
@task(name="leaf", namespace="rvw")
def leaf(x, y):
    return {leaf}
@task(name="top", namespace="rvw", check_valid="shallow")
def top(x, y):
    return leaf(x + 1, y + 1)
@task(name="main", namespace="rvw")
def main(x):
    return top(x + 100, x + 200)
""", "main(1)"),
    # a failing child handled by catch_all directly under a shallow task (the failed job's error
    # CallNode is recorded and is a child of `top` in the call tree); the edit repairs the failing task
    "caught": ("""
from redun.scheduler import catch_all
@task(name="leaf", namespace="rvw")
def leaf(x):
    return {leaf}
@task(name="recover", namespace="rvw")
def recover(values):
    return [-1 if isinstance(v, Exception) else v for v in values]
@task(name="top", namespace="rvw", check_valid="shallow")
def top(x):
    return catch_all([leaf(x), leaf(x + 1)], ValueError, recover)
@task(name="main", namespace="rvw")
def main(x):
    return top(x)
""", "main(1)"),
    # a failing grandchild (leaf) under a failing child (inner) under a child that succeeds by recovery (mid)
    "caught_deep": ("""
from redun.scheduler import catch_all
@task(name="leaf", namespace="rvw")
def leaf(x):
    return {leaf}
@task(name="inner", namespace="rvw")
def inner(x):
    return [leaf(x)]
@task(name="recover", namespace="rvw")
def recover(values):
    return [-1 if isinstance(v, Exception) else v for v in values]
@task(name="mid", namespace="rvw")
def mid(x):
    return catch_all([inner(x)], ValueError, recover)
@task(name="top", namespace="rvw", check_valid="shallow")
def top(x):
    return mid(x)
@task(name="main", namespace="rvw")
def main(x):
    return [top(x), 7]
""", "main(1)"),
}
# noprov0..3: a shallow parent with four children that run with prov=False: their CallNodes and Task values are not
# recorded beforehand, so record_call_node(top) records the Task values itself (nested commits). In noprov<j> the
# edit changes child j only (a partially recorded subtree set is stale exactly if it lacks the edited child).
def _noprov(j):
    bodies = ["x * 2", "x * 3", "x * 5", "x * 7"]
    bodies[j] = "{leaf}"
    kids = "".join(f"""
@task(name="c{i}", namespace="rvw", prov=False)
def c{i}(x):
    return {b}
""" for i, b in enumerate(bodies))
    return (kids + """
@task(name="top", namespace="rvw", check_valid="shallow")
def top(x):
    return [c0(x), c1(x), c2(x), c3(x)]
@task(name="main", namespace="rvw")
def main(x):
    return top(x)
""", "main(1)")


NOPROV_WORKLOADS = tuple(f"noprov{j}" for j in range(4))
for _j, _n in enumerate(NOPROV_WORKLOADS):
    WORKLOADS[_n] = _noprov(_j)
# workloads whose jobs the model covers (no failed jobs, no scheduler tasks): traces, C22 sweep
MODELLED_WORKLOADS = ("chain", "cse", "two_args")
LEAF_V1 = {"chain": "x + 1", "cse": "x + 1", "two_args": "x + y",
           "caught": "int('bad' + str(x))", "caught_deep": "int('bad' + str(x))"}
LEAF_V2 = {"chain": "x + 1000", "cse": "x + 1000", "two_args": "x * y", "caught": "x + 100", "caught_deep": "x + 100"}
for _n in NOPROV_WORKLOADS:
    LEAF_V1[_n] = "x + 1"
    LEAF_V2[_n] = "x + 1000"


_WL = {"n": 0}


def cleanup_workloads():
    if "dir" in _WL:
        shutil.rmtree(_WL["dir"], ignore_errors=True)
        del _WL["dir"]


def define_workload(name, leaf_body):
    from redun import task  # noqa: F401 (used by exec)
    from redun.task import get_task_registry
    import importlib.util
    src, expr = WORKLOADS[name]
    code = "from redun import task\n" + src.replace("{leaf}", leaf_body)
    # a real file, so that inspect.getsource (the task hash) sees the text we control
    _WL["n"] += 1
    if "dir" not in _WL:
        _WL["dir"] = tempfile.mkdtemp(prefix="rv_wl_")
    path = os.path.join(_WL["dir"], f"rvw_{os.getpid()}_{_WL['n']}.py")
    with open(path, "w") as f:
        f.write(code)
    spec = importlib.util.spec_from_file_location(f"rvw_{_WL['n']}", path)
    mod = importlib.util.module_from_spec(spec)
    sys.modules[spec.name] = mod
    spec.loader.exec_module(mod)
    ns = vars(mod)
    return eval(expr, ns), ns


# ---------------------------------------------------------------------------- generated programs and edit histories
class Program:
    """A random call tree of tasks t0 (root) .. tn: task i returns [K_i + x, child_0(x), child_1(x), ...]; K_i is the
    task's version (editing task i = changing K_i, which changes its source text, its hash and its result).
    check_valid is 'shallow' or 'full' per task. Every value of K appears in the result, so a stale replay of any
    subtree is visible in the root's result."""

    def __init__(self, kids, shallow):
        self.kids, self.shallow = kids, shallow          # kids[i] = list of child indices (> i), shallow[i] bool
        self.n = len(kids)

    @staticmethod
    def demo():
        # top(shallow) -> [mid(shallow) -> leaf, side]
        return Program([[1, 3], [2], [], []], [True, True, False, False])

    @staticmethod
    def random(rng):
        depth = rng.choice([3, 3, 4])
        kids, level = [[]], [0]
        levels = {0: 0}
        for i in range(1, 9):
            parents = [j for j in range(len(kids)) if levels[j] < depth - 1 and len(kids[j]) < 2]
            if not parents:
                break
            # grow depth first, then add siblings
            deepest = max(levels[j] for j in parents)
            par = rng.choice([j for j in parents if levels[j] == deepest] if max(levels.values()) < depth - 1 else parents)
            kids.append([])
            kids[par].append(len(kids) - 1)
            levels[len(kids) - 1] = levels[par] + 1
            if len(kids) >= rng.randint(4, 8) and max(levels.values()) >= depth - 1:
                break
        shallow = [rng.random() < 0.6 for _ in kids]
        shallow[0] = True if rng.random() < 0.8 else shallow[0]
        return Program(kids, shallow)

    def descendants(self, i):
        out = []
        for k in self.kids[i]:
            out += [k] + self.descendants(k)
        return out

    def source(self, versions):
        parts = ["from redun import task\nEXECUTED = []\n"]
        for i in reversed(range(self.n)):
            calls = "".join(f", t{k}(x)" for k in self.kids[i])
            cv = ', check_valid="shallow"' if self.shallow[i] else ""
            parts.append(f'@task(name="t{i}", namespace="rvp"{cv})\ndef t{i}(x):\n    EXECUTED.append({i})\n'
                         f'    return [{versions[i]} + x{calls}]\n')
        return "".join(parts)

    def describe(self):
        return {"kids": self.kids, "shallow": self.shallow}


def run_program(prog, versions, dbfile):
    """One `redun run` of t0(1) with the given task versions: fresh Scheduler, same database file.
    Returns (status, result, executed task indices, scheduler)."""
    import importlib.util
    quiet()
    _WL["n"] += 1
    if "dir" not in _WL:
        _WL["dir"] = tempfile.mkdtemp(prefix="rv_wl_")
    path = os.path.join(_WL["dir"], f"rvp_{os.getpid()}_{_WL['n']}.py")
    with open(path, "w") as f:
        f.write(prog.source(versions))
    spec = importlib.util.spec_from_file_location(f"rvp_{_WL['n']}", path)
    mod = importlib.util.module_from_spec(spec)
    sys.modules[spec.name] = mod
    spec.loader.exec_module(mod)
    s = make_scheduler(dbfile)
    try:
        with contextlib.redirect_stderr(io.StringIO()):
            r = s.run(mod.t0(1))
        return "ok", r, sorted(set(mod.EXECUTED)), s
    except Exception as e:  # noqa
        return "died", type(e).__name__, sorted(set(mod.EXECUTED)), s


def make_scheduler(dbfile, retries=3):
    from redun import Scheduler
    from redun.config import Config
    s = Scheduler(config=Config({"backend": {"db_uri": f"sqlite:///{dbfile}", "db_retries": str(retries),
                                             "db_retries_backoff": "0.0001", "db_retries_backoff_max": "0.0002"}}))
    s.load()
    s.backend.logger = _NULL_LOGGER
    return s


def sched_run(name, leaf_body, dbfile, plan=(), retries=3, trace=None, qfail=None, qtrack=False):
    """One execution of workload `name` on `dbfile` with commit fates `plan`.
    Returns (status, result, fates_log): status 'ok' | 'died'."""
    quiet()
    expr, ns = define_workload(name, leaf_body)
    s = make_scheduler(dbfile, retries)
    fates = Fates(s.backend)
    fates.record_sites = True
    fates.set(plan)
    fates.set_q(qfail, qtrack or qfail is not None)
    s.rv_fates = fates
    if trace is not None:
        trace.attach(s)
    buf = io.StringIO()
    try:
        with contextlib.redirect_stderr(buf):
            r = s.run(expr)
        return "ok", r, fates.log, s
    except Crash:
        return "died", None, fates.log, s
    except Exception as e:  # noqa
        return "died", f"{type(e).__name__}", fates.log, s
    finally:
        fates.set([])
        fates.qtrack = False


class Trace:
    """Observes what the real scheduler hands to the backend for every finished job."""

    def __init__(self):
        self.records = []       # (task_hash, args_hash, result_hash, child_call_hashes, {subtree task hashes})

    def attach(self, sched):
        b = sched.backend
        orig = b.record_call_node
        recs = self.records

        def rcn(task_name, task_hash, args_hash, expr_args, eval_args, result_hash, child_call_hashes, subtree_tasks):
            subtree_tasks = list(subtree_tasks)
            recs.append((task_name, task_hash, args_hash, result_hash, list(child_call_hashes),
                         sorted(t.hash for t in subtree_tasks)))
            return orig(task_name=task_name, task_hash=task_hash, args_hash=args_hash, expr_args=expr_args,
                        eval_args=eval_args, result_hash=result_hash, child_call_hashes=child_call_hashes,
                        subtree_tasks=subtree_tasks)
        b.record_call_node = rcn


def subtree_oracle(backend):
    """Implementation-side invariant: for every CallNode with subtree rows, the rows contain the task
    hash of every CallNode reachable through CallEdges. Returns list of (task_name, missing task names)."""
    from redun.backends.db import CallEdge, CallNode, CallSubtreeTask
    s = backend.session
    s.rollback()
    nodes = {cn.call_hash: cn for cn in s.query(CallNode)}
    kids = {}
    for e in s.query(CallEdge):
        kids.setdefault(e.parent_id, []).append(e.child_id)
    rows = {}
    for r in s.query(CallSubtreeTask):
        rows.setdefault(r.call_hash, set()).add(r.task_hash)
    bad = []
    for h, cn in nodes.items():
        seen, todo, need = set(), [h], {}
        while todo:
            x = todo.pop()
            if x in seen or x not in nodes:
                continue
            seen.add(x)
            need[nodes[x].task_hash] = nodes[x].task_name
            todo += kids.get(x, [])
        have = rows.get(h, set())
        missing = sorted(n for th, n in need.items() if th not in have)
        if missing:
            bad.append((cn.task_name, len(have), missing))
    s.rollback()
    return bad
