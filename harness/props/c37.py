"""C37 — The task registry stays consistent.

Histories of define / redefine / wrap (wraps_task) / direct rename / direct add run on a fresh
`TaskRegistry` swapped into `redun.task`; the Coq model (Model/Registry.v) replays the same
history and must agree on every Task object, `_tasks`, `_task_hash_counts`, the outcome
(exception class) and on `task_hashes` / `get` / `__iter__` after every op.  The oracle decides
the three claims of the property on the real registry without the model.
"""
from __future__ import annotations

import itertools
import json
import sys

from harness.lib import (CORPUS, GEN, Finding, PropertyCheck, TranslateError, cq_list, cq_nat, cq_opt, cq_str,
                         cq_Z, run_bool_cases)
from translate import astutil, tr_registry

PINS_FILE = astutil.Path(__file__).resolve().parents[2] / "translate" / "pins_C37.json"

NAMES = ["f", "g"]
NSS = ["", "a", "a.b", "w", "a.w"]
WNAMES = ["w", "a", "b", "v", "a.b"]
BODIES = [1, 2]


# plain functions (with retrievable source) for wraps_task applied to a function
def _f1():
    def f():
        return 1
    return f


def _f2():
    def f():
        return 2
    return f


def _g1():
    def g():
        return 1
    return g


def _g2():
    def g():
        return 2
    return g


PLAIN_FUNCS = {("f", 1): _f1, ("f", 2): _f2, ("g", 1): _g1, ("g", 2): _g2}


# ---------------------------------------------------------------- the real registry
class Real:
    """Runs ops on the real code, on a fresh TaskRegistry installed as the global one."""

    def __init__(self):
        import redun.task  # noqa: F401  (redun.task the attribute is the decorator; take the module)
        self.T = sys.modules["redun.task"]
        self.saved = self.T._task_registry
        self.reg = self.T.TaskRegistry()
        self.T._task_registry = self.reg
        self.objs = []
        self.hmap = {}
        self.hlist = []

    def close(self):
        self.T._task_registry = self.saved

    def __enter__(self):
        return self

    def __exit__(self, *a):
        self.close()

    # -- identities
    def hid(self, h):
        if h not in self.hmap:
            self.hmap[h] = len(self.hmap) + 1
            self.hlist.append(h)
        return self.hmap[h]

    def idx(self, t):
        for i, x in enumerate(self.objs):
            if x is t:
                return i
        self.objs.append(t)       # an object the registry holds that we did not see being made
        return len(self.objs) - 1

    def registered(self, i):
        t = self.objs[i]
        return self.reg._tasks.get(t.fullname) is t

    # -- ops
    def _define(self, ns, name, body, compat=None):
        src = f"def {name}():\n    return {body}\n"
        d = {"__name__": __name__}
        exec(src, d)
        kw = {"compat": [compat]} if compat else {}
        return self.T.task(name=name, namespace=ns, source=src, **kw)(d[name])

    def _wrap(self, t, w):
        # t: a Task object or a plain function
        @self.T.wraps_task(wrapper_name=w)
        def wfn(inner):
            def do(*a, **k):
                return inner.func(*a, **k)
            return do
        return wfn(t)

    def apply(self, op):
        """Returns ("done", obj_index) or ("raised", exception class name)."""
        kind = op[0]
        n_before = len(self.objs)
        try:
            if kind == "define":
                t = self._define(*op[1:])
            elif kind == "wrap":
                t = self._wrap(self.objs[op[1]], op[2])
            elif kind == "wrapfunc":
                t = self._wrap(PLAIN_FUNCS[(op[1], op[2])](), op[3])
                inner = self.reg.get(task_name=t.get_task_option("wrapped_task"))
                if inner is not None:
                    self.idx(inner)
            elif kind == "rename":
                t = self.reg.rename(op[1], new_namespace=op[2], new_name=op[3])
            elif kind == "add":
                self.reg.add(self.objs[op[1]])
                t = self.objs[op[1]]
            else:
                raise ValueError(op)
        except (AssertionError, KeyError, AttributeError, RecursionError, UnboundLocalError) as e:
            # objects created before the exception (none in the shipped code) would show up as
            # unknown objects in the registry -> idx() appends them -> heap mismatch
            return ("raised", type(e).__name__)
        i = self.idx(t)
        if kind in ("define", "wrap", "wrapfunc") and i < n_before:
            return ("done-old-object", i)
        return ("done", i)

    # -- observation
    def snapshot(self, probes=()):
        reg = self.reg
        tasks = [(k, self.idx(t)) for k, t in reg._tasks.items()]
        counts = [(self.hid(h), c) for h, c in reg._task_hash_counts.items()]
        try:
            hashes = sorted(self.hid(h) for h in reg.task_hashes)
        except AssertionError:
            hashes = None
        it = [self.idx(t) for t in reg]
        heap = [(t.namespace, t.name, self.hid(t.hash), t.get_task_option("wrapped_task", None)) for t in self.objs]
        keys = list(dict.fromkeys([k for k, _ in tasks] + [t.fullname for t in self.objs] + list(probes)))
        gets = []
        for k in keys:
            if not k:
                continue
            g = reg.get(task_name=k)
            gets.append((k, None if g is None else self.idx(g)))
        # idx() may have appended objects; re-read the heap if so
        if len(heap) != len(self.objs):
            heap = [(t.namespace, t.name, self.hid(t.hash), t.get_task_option("wrapped_task", None)) for t in self.objs]
        return {"heap": heap, "tasks": tasks, "counts": counts, "hashes": hashes, "iter": it, "gets": gets}

    # -- the property, decided on the real objects (no model)
    def consistent(self):
        """Claims 1 and 2 on the current registry; returns None or a description."""
        reg = self.reg
        held = list(reg)
        try:
            th = reg.task_hashes
        except AssertionError:
            return "task_hashes raises AssertionError (a hash count below 1)"
        hs = {t.hash for t in held}
        if th != hs:
            return (f"task_hashes {sorted(self.hid(h) for h in th)} != hashes of held tasks "
                    f"{sorted(self.hid(h) for h in hs)}")
        cnt = {}
        for t in held:
            cnt[t.hash] = cnt.get(t.hash, 0) + 1
        if dict(reg._task_hash_counts) != cnt:
            return "_task_hash_counts differs from the number of held tasks per hash"
        for t in held:
            if reg.get(task_name=t.fullname) is not t:
                return f"held task {t.fullname!r} (object {self.idx(t)}) is not found under its current full name"
        for k, t in reg._tasks.items():
            if t.fullname != k:
                return f"_tasks key {k!r} holds a task whose full name is {t.fullname!r}"
        return None

    def good_chain(self, i):
        """The wrapped_task chain from object i: every link registered, key lengths strictly
        increasing (the hypothesis of C37_wrap_moves_inner). Returns the chain or None."""
        chain = []
        t = self.objs[i]
        while True:
            if self.reg._tasks.get(t.fullname) is not t:
                return None
            chain.append(t)
            wn = t.get_task_option("wrapped_task", None)
            if wn is None:
                return chain
            nxt = self.reg._tasks.get(wn)
            if nxt is None or len(wn) <= len(t.fullname):
                return None
            t = nxt


def inner_ns(ns, w):
    return f"{ns}.{w}" if ns != "" else w


def fullname_of(ns, name):
    return f"{ns}.{name}" if ns else name


def run_history(ops_or_gen, oracle_only=False, stats=None):
    """Run a history on the real code. `ops_or_gen` is a list of ops, or a function
    (real, k) -> op | None that chooses the next op looking at the real objects.
    Returns (ops, observations, violation) where violation = None or (step, op, what)."""
    ops, obs, viol = [], [], None

    def st(name, key):
        if stats is not None:
            stats(name, key)

    with Real() as real:
        k = 0
        while True:
            if callable(ops_or_gen):
                op = ops_or_gen(real, k)
            else:
                op = tuple(ops_or_gen[k]) if k < len(ops_or_gen) else None
            if op is None:
                break
            if op[0] in ("wrap", "add") and not (0 <= op[1] < len(real.objs)):
                break
            pre = None
            if op[0] == "wrap":
                t = real.objs[op[1]]
                ch = real.good_chain(op[1])
                pre = {"vis": (t.namespace, t.name), "chain": ch,
                       "names": [(c.namespace, c.name) for c in ch] if ch else None}
                st("wrap_target", ("registered, chain intact, depth %d" % (len(ch) - 1)) if ch else
                   ("registered, chain broken" if real.registered(op[1]) else "stale object"))
            out = real.apply(op)
            ops.append(op)
            st("op", op[0])
            st("outcome", out[1] if out[0] == "raised" else out[0])
            if not oracle_only:
                o = real.snapshot(probes=[fullname_of(n, m) for n in NSS[:3] for m in NAMES])
                o["outcome"] = out
                o["newhash"] = (real.hid(real.objs[out[1]].hash) if out[0] == "done" else 0)
                obs.append(o)
            if viol is None:
                why = real.consistent()
                if why is None and pre is not None and pre["chain"] is not None and op[2] != "":
                    why = check_wrap(real, op, pre, out)
                if why is None and op[0] == "wrapfunc":
                    why = check_wrapfunc(real, op, out)
                if why:
                    viol = (k, op, why)
            st("max_hash_count", max(real.reg._task_hash_counts.values(), default=0))
            k += 1
    return ops, obs, viol


def check_wrapfunc(real, op, out):
    """wraps_task applied to a plain function: the inner task is created on the fly."""
    _, name, body, w = op
    if out[0] != "done":
        return f"wrapping a plain function raised {out[1]}"
    W = real.objs[out[1]]
    if W.name != name:
        return f"the wrapper is named {W.name!r}, not {name!r}"
    if real.reg.get(task_name=W.fullname) is not W:
        return "the visible name does not resolve to the wrapper"
    inner = real.reg.get(task_name=W.get_task_option("wrapped_task"))
    if inner is None or inner is W:
        return "the wrapper's wrapped_task does not resolve to an inner task"
    if (inner.namespace, inner.name) != (inner_ns(W.namespace, w), name):
        return f"the inner task is {inner.fullname!r}, expected {fullname_of(inner_ns(W.namespace, w), name)!r}"
    return None


def check_wrap(real, op, pre, out):
    """Claim 3 for a wrap of a registered task with a well-formed chain."""
    if out[0] != "done":
        return f"wrapping a registered task raised {out[1]}"
    w = real.objs[out[1]]
    t = real.objs[op[1]]
    vns, vname = pre["vis"]
    if w is t:
        return "the wrapper is the wrapped object"
    if (w.namespace, w.name) != (vns, vname):
        return f"the wrapper is named {w.fullname!r}, not the visible name {fullname_of(vns, vname)!r}"
    if real.reg.get(task_name=fullname_of(vns, vname)) is not w:
        return "the visible name does not resolve to the wrapper"
    for c, (ns, nm) in zip(pre["chain"], pre["names"]):
        if (c.namespace, c.name) != (inner_ns(ns, op[2]), nm):
            return (f"wrapped task {fullname_of(ns, nm)!r} is now {c.fullname!r}, expected "
                    f"{fullname_of(inner_ns(ns, op[2]), nm)!r}")
        if real.reg.get(task_name=c.fullname) is not c:
            return f"moved task {c.fullname!r} is not found under its new name"
    if w.get_task_option("wrapped_task") != t.fullname:
        return "the wrapper's wrapped_task does not name the moved original"
    for a, b in zip(pre["chain"], pre["chain"][1:]):
        if a.get_task_option("wrapped_task") != b.fullname:
            return f"{a.fullname!r}: wrapped_task was not updated to the inner task's new name"
    return None


# ---------------------------------------------------------------- Coq literals
EXN = {"AssertionError": "AssertionError", "KeyError": "KeyError", "AttributeError": "AttributeError",
       "RecursionError": "OutOfFuel", "UnboundLocalError": "UnboundLocalError"}


def cq_outcome(out):
    if out[0] == "done":
        return f"(Done {cq_nat(out[1])})"
    if out[0] == "raised":
        return f"(Raised {EXN[out[1]]})"
    return "(Raised BadOp)"   # a define/wrap that returned an already known object: never equal to the model


def cq_N(n):
    return f"{n}%N"


def cq_op(op, newhash):
    if op[0] == "define":
        return f"(Define {cq_str(op[1])} {cq_str(op[2])} {cq_N(newhash)})"
    if op[0] == "wrap":
        return f"(Wrap {cq_nat(op[1])} {cq_str(op[2])} {cq_N(newhash)})"
    if op[0] == "rename":
        return f"(Rename {cq_str(op[1])} {cq_str(op[2])} {cq_str(op[3])})"
    return f"(ReAdd {cq_nat(op[1])})"


def cq_obs(o):
    heap = cq_list([f"mkT {cq_str(ns)} {cq_str(nm)} {cq_N(h)} {cq_opt(None if w is None else cq_str(w))}"
                    for ns, nm, h, w in o["heap"]])
    tasks = cq_list([f"({cq_str(k)}, {cq_nat(i)})" for k, i in o["tasks"]])
    counts = cq_list([f"({cq_N(h)}, {cq_Z(c)})" for h, c in o["counts"]])
    hashes = cq_opt(None if o["hashes"] is None else cq_list([cq_N(h) for h in o["hashes"]]))
    it = cq_list([cq_nat(i) for i in o["iter"]])
    gets = cq_list([f"({cq_str(k)}, {cq_opt(None if g is None else cq_nat(g))})" for k, g in o["gets"]])
    return f"mkO (mkS {heap} {tasks} {counts}) {cq_outcome(o['outcome'])} {hashes} {it} {gets}"


def cq_history(ops, obs, cfg="shipped"):
    return (f"history_ok {cfg} {cq_list([cq_op(op, o['newhash']) for op, o in zip(ops, obs)])} "
            f"{cq_list([cq_obs(o) for o in obs])}")


# ---------------------------------------------------------------- generators
def gen_natural(rng, n, dotted=False):
    """define / redefine / wrap-of-a-registered-task only."""
    wn = WNAMES if dotted else WNAMES[:4]

    def g(real, k):
        if k >= n:
            return None
        reg = [i for i in range(len(real.objs)) if real.registered(i)]
        r = rng.random()
        if not reg or r < 0.45:
            return ("define", rng.choice(NSS if dotted else NSS[:2] + NSS[3:4]), rng.choice(NAMES), rng.choice(BODIES))
        return ("wrap", rng.choice(reg), rng.choice(wn))
    return g


def gen_wild(rng, n, wrapfunc=False):
    """also stale objects, direct rename / add, forced hash collisions (compat)."""
    def g(real, k):
        if k >= n:
            return None
        r = rng.random()
        no = len(real.objs)
        if wrapfunc and rng.random() < 0.1:
            return ("wrapfunc", rng.choice(NAMES), rng.choice(BODIES), rng.choice(WNAMES))
        if no == 0 or r < 0.3:
            op = ("define", rng.choice(NSS), rng.choice(NAMES), rng.choice(BODIES))
            if rng.random() < 0.2:
                op += (rng.choice(["c0ffee", "beef"]),)
            return op
        if r < 0.7:
            reg = [i for i in range(no) if real.registered(i)]
            i = rng.choice(reg) if reg and rng.random() < 0.7 else rng.randrange(no)
            return ("wrap", i, rng.choice(WNAMES))
        if r < 0.9:
            keys = list(real.reg._tasks)
            old = rng.choice(keys) if keys and rng.random() < 0.85 else fullname_of(rng.choice(NSS), rng.choice(NAMES))
            return ("rename", old, rng.choice(NSS), rng.choice(NAMES))
        return ("add", rng.randrange(no))
    return g


def enum_histories(maxlen, names=("f",), nss=("", "w"), wn=("w", "v"), bodies=(1, 2), stale=True, cap=None):
    """All maximal histories of length `maxlen` over a tiny alphabet (every shorter history is a
    prefix of one and is checked step by step), built by depth-first replay on the real code
    because the set of wrappable objects depends on the prefix."""
    out = []

    def rec(prefix):
        if cap is not None and len(out) >= cap:
            return
        if len(prefix) >= maxlen:
            out.append(list(prefix))
            return
        with Real() as real:
            for op in prefix:
                real.apply(op)
            no = len(real.objs)
            regd = [i for i in range(no) if real.registered(i)]
        nxt = [("define", ns, nm, b) for ns in nss for nm in names for b in bodies]
        nxt += [("wrap", i, w) for i in (range(no) if stale else regd) for w in wn]
        for op in nxt:
            rec(prefix + [op])
    rec([])
    return out


# histories worth keeping: the two notes of Props/C37.v, counts > 1, nested wraps, collisions
FIXED = [
    [("define", "", "f", 1), ("define", "", "f", 2), ("wrap", 0, "w"), ("wrap", 2, "v")],
    [("define", "", "f", 1), ("wrap", 0, "a.b"), ("define", "a", "f", 1), ("wrap", 2, "b"), ("wrap", 1, "c"),
     ("wrap", 3, "d")],
    [("define", "", "f", 1), ("wrap", 0, "w"), ("define", "a", "f", 1)],
    [("define", "", "f", 1), ("wrap", 0, "w"), ("wrap", 1, "w"), ("wrap", 2, "w"), ("define", "", "f", 1)],
    [("define", "w", "f", 1), ("define", "", "f", 1), ("wrap", 1, "w"), ("wrap", 2, "v"), ("wrap", 0, "x")],
    [("define", "", "f", 1), ("wrap", 0, "w"), ("rename", "w.f", "z", "g"), ("wrap", 1, "v")],
    [("define", "", "f", 1), ("wrap", 0, "w"), ("rename", "f", "w.w", "f"), ("wrap", 1, "w")],
    [("define", "", "f", 1, "c0ffee"), ("define", "", "g", 2, "c0ffee"), ("define", "", "f", 2), ("rename", "g", "", "f")],
    [("define", "", "f", 1), ("add", 0), ("rename", "f", "", "f"), ("rename", "nope", "", "f")],
]


def op_json(op):
    return list(op)


# ---------------------------------------------------------------- the check
class Check(PropertyCheck):
    id = "C37"
    module = "Props.C37"
    theorems = ["C37_counts_exact", "C37_counts_positive", "C37_task_hashes_exact", "C37_found_under_fullname",
                "C37_held_distinct", "C37_wrap_moves_inner", "C37_wrap_plain", "C37_nonvacuous",
                "C37_note_stale_wrap_self_reference", "C37_note_dotted_wrapper_dangling"]
    extra_modules = []
    allowed_axioms = []
    section_premises = []
    assumptions = [
        "Task.hash is an opaque string the registry only compares with == (the model takes the hash of every new "
        "Task as an input of the op; harness: real hashes numbered by first appearance)",
        "a Task is truthy (`if old_task:`): the translator checks no class in task.py defines __bool__/__len__",
        "nothing outside TaskRegistry.rename / Task.__init__ / __setstate__ / recompute_hash stores a task's name, "
        "namespace or hash, and recompute_hash is only called from Task.__init__ (translator scans redun/, not user code)",
        "wrapped_task chains are shorter than Python's recursion limit; an unbounded recursion (cyclic chain) is the "
        "model's OutOfFuel outcome",
        "task names / namespaces pass Task._validate (histories that make Task() raise ValueError are not generated)",
    ]
    rule = ("histories of define / redefine / wraps_task / direct rename / direct add on a fresh TaskRegistry: "
            "fixed histories, all maximal histories over a tiny alphabet, random 'natural' (define + wrap of a "
            "registered task) and 'wild' (stale objects, direct rename/add, forced equal hashes); a history is "
            "non-trivial if it contains a wrap or reaches a hash count > 1; distinct by repr of the op list")

    def translate(self):
        pins = json.loads(PINS_FILE.read_text())
        try:
            text, _, self.cfg = tr_registry.translate(pins=pins)
        except astutil.TranslateError as e:
            raise TranslateError(str(e))
        GEN.mkdir(exist_ok=True)
        p = GEN / "C37Gen.v"
        p.write_text(text)
        return [p]

    # ------------------------------------------------------------------
    def histories(self, for_model):
        """(label, ops-or-generator) pairs for this tier."""
        quick = self.tier == "quick"
        out = [("fixed", h) for h in FIXED]
        corpus = CORPUS / "C37.jsonl"
        if corpus.exists():
            for line in corpus.read_text().splitlines():
                if line.strip():
                    out.append(("corpus", [tuple(op) for op in json.loads(line)["ops"]]))
        if for_model:
            out += [("enum", h) for h in enum_histories(3 if quick else 4)]
            n = 500 if quick else 6000
        else:
            out += [("enum", h) for h in enum_histories(4 if quick else 5, cap=None if quick else 60000)]
            out += [("enum2", h) for h in enum_histories(3 if quick else 4, names=("f", "g"), nss=("", "a"),
                                                         wn=("a", "a.b"), bodies=(1,))]
            n = 2500 if quick else 40000
        for i in range(n):
            ln = self.rng.randint(1, 9)
            m = i % 5
            if m in (0, 1):
                out.append(("natural", gen_natural(self.rng, ln)))
            elif m == 2:
                out.append(("natural-dotted", gen_natural(self.rng, ln, dotted=True)))
            else:
                out.append(("wild", gen_wild(self.rng, ln, wrapfunc=not for_model)))
        return out

    def labelled(self, label):
        def st(name, key):
            self.stat(name + "/" + label if name == "wrap_target" else name, key)
        return st

    def finding_for(self, ops, viol):
        k, op, why = viol
        ops = [op_json(o) for o in ops[:k + 1]]
        return Finding(("history:" + json.dumps(ops))[:400], why,
                       {"kind": "history", "ops": ops, "failing_step": k, "why": why})

    def correspond(self):
        terms, descr = [], []
        for label, h in self.histories(for_model=True):
            ops, obs, viol = run_history(h, stats=self.labelled(label))
            if not ops:
                continue
            self.stat("history_kind", label)
            self.stat("history_length", len(ops))
            nontriv = any(o[0] == "wrap" for o in ops) or any(c > 1 for ob in obs for _, c in ob["counts"])
            self.count(repr(ops) if nontriv else None)
            self.sample({"ops": [op_json(o) for o in ops], "final_tasks": obs[-1]["tasks"],
                         "final_counts": obs[-1]["counts"], "outcomes": [o["outcome"][1] for o in obs]}, 5)
            terms.append(cq_history(ops, obs))
            descr.append(ops)
            if viol:
                self.findings.append(self.finding_for(ops, viol))
        ok, failing, diags = run_bool_cases("C37", ["Model.Registry"], "From Coq Require Import String NArith.\n"
                                            "Open Scope string_scope.", terms)
        self.ob("correspondence", f"model == redun.task registry on {len(terms)} histories (every Task object, _tasks, "
                "_task_hash_counts, outcome, task_hashes, get, iter after every op)", ok and not failing,
                "\n".join(diags) + "".join(f"\nmismatch: {descr[i]}" for i in failing[:10]))
        self.mismatches = [descr[i] for i in failing]

    # ------------------------------------------------------------------
    def oracle(self):
        n = 0
        before = len(self.findings)
        seen = set()
        for label, h in self.histories(for_model=False):
            ops, _, viol = run_history(h, oracle_only=True, stats=self.labelled(label))
            n += 1
            self.evaluations += 1
            self.stat("oracle_history_kind", label)
            if viol:
                f = self.finding_for(ops, viol)
                if f.key not in seen:
                    seen.add(f.key)
                    self.findings.append(f)
        # a model/implementation mismatch is replayed through the oracle as well, so that a
        # behaviour change that violates the property is reported with its history
        for ops in getattr(self, "mismatches", [])[:50]:
            _, _, viol = run_history(ops, oracle_only=True)
            if viol:
                self.findings.append(self.finding_for(ops, viol))
        new = sorted(self.findings[before:], key=lambda f: len(f.replay["ops"]))
        self.findings[before:] = new          # shortest failing history is the one reported
        self.ob("oracle", f"implementation oracle (task_hashes == hashes held, counts exact, every held task found under "
                f"its full name, wrap keeps the visible name and moves the chain) on {n} histories",
                not new, "; ".join(f"{f.what} after {f.replay['ops']}" for f in new[:3]))

    def replay(self, doc):
        r = doc.get("replay", {})
        if r.get("kind") == "history":
            ops, _, viol = run_history([tuple(o) for o in r["ops"]], oracle_only=True)
            print("replay:", (f"step {viol[0]} {viol[1]}: {viol[2]}" if viol else "property holds on this history now"))
            return 1 if viol else 0
        print("replay: nothing to replay (no failing input was found); broken obligations:",
              json.dumps(doc.get("broken_obligations", []))[:2000])
        return 1
