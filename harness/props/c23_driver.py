"""C23 driver — runs in its own process (clean task registry / module cache).

usage: c23_driver.py SPEC.json OUT.json
Builds real redun repositories (sqlite) by running a generated workflow with the real scheduler
and the real `redun tag` commands, transfers records with the real `redun push / pull / export /
import` commands, and writes raw table dumps before/after every transfer, the record ids the real
`iter_record_ids` yields, the counts the commands report, and shallow-cache probes made with the
real `_get_call_node` on both backends.  No judgement is made here.
"""
from __future__ import annotations

import gc
import hashlib
import io
import json
import os
import re
import shutil
import sqlite3
import sys
import tempfile

WF = '''
import random
from redun import task, File
from redun.scheduler import catch

redun_namespace = "c23w"

@task()
def leaf(x: int) -> int:
    return x + 1

@task()
def add(a: int, b: int = 5, *, c: int = 0) -> int:
    return a + b + c

@task()
def fan(n: int, seed: int) -> list:
    xs = list(range(n))
    random.Random(seed).shuffle(xs)
    return [leaf(10 * seed + x) for x in xs]

@task()
def twice(x: int) -> list:
    return [leaf(x), leaf(x + 1), leaf(x), add(leaf(x + 1), c=2)]

@task()
def mkfile(path: str, text: str) -> File:
    f = File(path)
    f.write(text)
    return f

@task()
def files(base: str, n: int) -> dict:
    return {"fs": [mkfile(base + "/f%d.txt" % i, "t%d" % i) for i in range(n)], "n": n}

@task()
def inline_files(base: str, n: int) -> list:
    out = []
    for i in range(n):
        f = File(base + "/g%d.txt" % i)
        f.write("g%d" % i)
        out.append(f)
    return out        # these File values are reachable only as subvalues of the list

@task()
def apply(t, x: int):
    return t(x)

@task()
def chain(x: int) -> int:
    return add(leaf(x), b=leaf(x + 1))

@task()
def left(x: int) -> int:
    return 2 * x

@task()
def right(x: int) -> int:
    return 2 * x + 1

@task()
def single(x: int) -> int:
    return x + 100

@task()
def combine(parts, extra=0):
    return [parts, extra]

@task()
def multi(n: int):
    # one argument fed by two upstream calls, another by one
    return combine([left(n), right(n)], single(n))

@task()
def nested_multi(n: int):
    # one argument fed by four upstream calls (nested containers, an upstream of an upstream),
    # and the result used again as a multi-upstream argument
    inner = combine({"l": left(n), "r": [right(n), single(n), leaf(n)]}, extra=left(n + 1))
    return combine([inner, right(n + 1), left(n + 1)], extra=combine((single(n), single(n + 1))))

@task()
def boom(x: int) -> int:
    raise ValueError("boom %d" % x)

@task()
def recover(err):
    return -1

@task(check_valid="shallow")
def main(kind: str = "fan", n: int = 3, seed: int = 0, base: str = "."):
    if kind == "fan":
        return fan(n, seed)
    if kind == "twice":
        return twice(seed)
    if kind == "files":
        return files(base, n)
    if kind == "inline":
        return inline_files(base, n)
    if kind == "multi":
        return multi(seed + n)
    if kind == "nested":
        return nested_multi(seed + n)
    if kind == "apply":
        return apply(leaf, seed)
    if kind == "chain":
        return chain(seed)
    if kind == "caught":
        return catch(boom(seed), ValueError, recover)
    if kind == "boom":
        return [leaf(seed), boom(seed)]
    return [fan(n, seed), chain(seed), twice(n), files(base, 2), apply(leaf, n), inline_files(base, 2),
            multi(n + seed)]
'''

TABLES = {
    "execution": ["id", "args", "job_id"],
    "job": ["id", "start_time", "end_time", "task_hash", "cached", "call_hash", "parent_id", "execution_id"],
    "call_node": ["call_hash", "task_name", "task_hash", "args_hash", "value_hash", "timestamp"],
    "call_edge": ["parent_id", "child_id", "call_order"],
    "argument": ["arg_hash", "call_hash", "value_hash", "arg_position", "arg_key"],
    "argument_result": ["arg_hash", "result_call_hash"],
    "call_subtree_task": ["call_hash", "task_hash"],
    "value": ["value_hash", "type", "format", "value"],
    "subvalue": ["value_hash", "parent_value_hash"],
    "file": ["value_hash", "path"],
    "task": ["hash", "name", "namespace", "source"],
    "tag": ["tag_hash", "entity_type", "entity_id", "key", "value", "is_current"],
    "tag_edit": ["parent_id", "child_id"],
    "handle": ["hash"],
}


def short(v):
    if isinstance(v, bytes):
        return "b:" + hashlib.sha1(v).hexdigest()[:12] + ":%d" % len(v)
    if isinstance(v, str) and len(v) > 48:
        return "s:" + hashlib.sha1(v.encode()).hexdigest()[:12] + ":%d" % len(v)
    return v


def dump(path):
    con = sqlite3.connect(path)
    out = {}
    for t, cols in TABLES.items():
        rows = con.execute(f"select {', '.join(cols)} from {t}").fetchall()
        out[t] = sorted(([short(x) for x in r] for r in rows), key=lambda r: json.dumps(r))
    con.close()
    return out


def release(be):
    """Close a backend's session and connections (harness hygiene only)."""
    if be is None:
        return
    try:
        if getattr(be, "session", None) is not None:
            be.session.close()
        if getattr(be, "engine", None) is not None:
            be.engine.dispose()
    except Exception:
        pass


class World:
    def __init__(self, root):
        self.root = root
        self.execs = {}
        self.wf = os.path.join(root, "wf_c23.py")
        with open(self.wf, "w") as f:
            f.write(WF)
        sys.path.insert(0, root)

    def conf(self, repo):
        return os.path.join(self.root, repo, ".redun")

    def db(self, repo):
        return os.path.join(self.conf(repo), "redun.db")

    def make_repos(self, names):
        for r in names:
            os.makedirs(self.conf(r), exist_ok=True)
            ini = "[backend]\ndb_uri = sqlite:///redun.db\n"
            for o in names:
                if o != r:
                    ini += f"\n[repos.{o}]\nconfig_dir = {self.conf(o)}\n"
            with open(os.path.join(self.conf(r), "redun.ini"), "w") as f:
                f.write(ini)
            self.execs[r] = []
        for r in names:
            self.cli(r, ["init"])

    def cli(self, repo, argv):
        from redun.cli import RedunClient
        c = RedunClient()
        buf = io.StringIO()
        c.stdout = buf
        err = None
        res = None
        try:
            res = c.execute(["redun", "-c", self.conf(repo)] + argv)
        except SystemExit as e:      # argparse / client errors
            err = f"SystemExit({e.code})"
        except Exception as e:       # a failing workflow raises its error
            err = f"{type(e).__name__}: {e}"[:200]
        finally:
            # a client that stays alive keeps its read transaction (sqlite SHARED lock) open
            release(getattr(getattr(c, "scheduler", None), "backend", None))
            del c
            gc.collect()
        return res, buf.getvalue(), err

    def exec_ids(self, repo):
        con = sqlite3.connect(self.db(repo))
        rows = con.execute("select e.id from execution e join job j on e.job_id = j.id order by j.start_time").fetchall()
        con.close()
        return [r[0] for r in rows]

    def run(self, repo, kind, n, seed):
        before = set(self.exec_ids(repo))
        sys.modules.pop("wf_c23", None)
        res, out, err = self.cli(repo, ["run", self.wf, "main", "--kind", kind, "--n", str(n), "--seed", str(seed),
                                        "--base", os.path.join(self.root, "files")])
        new = [e for e in self.exec_ids(repo) if e not in before]
        self.execs[repo] += new
        return res, err

    def target(self, repo, t):
        what, idx = t[0], t[1]
        con = sqlite3.connect(self.db(repo))
        e = self.execs[repo][idx % len(self.execs[repo])]
        try:
            if what == "exec":
                return e
            if what in ("subjob", "subcall"):
                # a job below the root job (by task name; t[3] = which one), or its call node
                rows = con.execute(
                    "select j.id, j.call_hash from job j join task t on j.task_hash = t.hash "
                    "where j.execution_id = ? and t.name = ? and j.call_hash is not null order by j.start_time, j.id",
                    (e, t[2])).fetchall()
                if rows:
                    jid, ch = rows[(t[3] if len(t) > 3 else 0) % len(rows)]
                    return jid if what == "subjob" else ch
                what = "job" if what == "subjob" else "call"
            job = con.execute("select job_id from execution where id=?", (e,)).fetchone()[0]
            if what == "job":
                return job
            call = con.execute("select call_hash from job where id=?", (job,)).fetchone()[0]
            if what == "call":
                return call or e
            if what == "value":
                if not call:
                    return e
                return con.execute("select value_hash from call_node where call_hash=?", (call,)).fetchone()[0]
        finally:
            con.close()
        raise ValueError(t)

    def op(self, o):
        if o["op"] == "run":
            res, err = self.run(o["repo"], o["kind"], o.get("n", 3), o.get("seed", 0))
            return {"op": o, "error": err}
        if o["op"] == "tag":
            tid = self.target(o["repo"], o["target"])
            _, out, err = self.cli(o["repo"], ["tag", o["cmd"], tid] + o["kv"])
            return {"op": o, "error": err}
        raise ValueError(o)

    def backend(self, repo):
        from redun.backends.db import RedunBackendDb
        be = RedunBackendDb(db_uri="sqlite:///" + self.db(repo))
        be.load()
        return be

    def one_shot(self, s, roots):
        """The same source state transferred in one go into a brand-new repository, with exactly
        the calls of RedunClient._sync_records; returns the dump of that repository."""
        from redun.backends.db import RedunBackendDb
        self.nfresh = getattr(self, "nfresh", 0) + 1
        path = os.path.join(self.root, "fresh_%d.db" % self.nfresh)
        src = self.backend(s)
        dst = RedunBackendDb(db_uri="sqlite:///" + path)
        dst.load()
        try:
            dst.put_records(src.get_records(src.iter_record_ids(roots)))
        finally:
            release(src)
            release(dst)
            del src, dst
            gc.collect()
        d = dump(path)
        os.remove(path)
        return d

    def transfer_once(self, st, root_ids):
        m, s, d = st["method"], st["src"], st["dst"]
        extra = list(root_ids or [])
        if m == "push":
            _, out, err = self.cli(s, ["push", d] + extra)
            mm = re.search(r"Pushed (\d+) record", out)
            n = int(mm.group(1)) if mm else (0 if "up to date" in out else None)
        elif m == "pull":
            _, out, err = self.cli(d, ["pull", s] + extra)
            mm = re.search(r"Pulled (\d+) new record", out)
            n = int(mm.group(1)) if mm else None
        elif m == "export":
            f = os.path.join(self.root, "export_%s_%s.jsonl" % (s, d))
            _, out, err = self.cli(s, ["export", "--file", f] + extra)
            if err is None:
                _, out, err = self.cli(d, ["import", "--file", f])
            n = None
        else:
            raise ValueError(m)
        return n, err

    def transfer(self, st):
        s, d = st["src"], st["dst"]
        # `roots_from`: resolve the root descriptions in the repository the records came from (relay)
        root_ids = [self.target(st.get("roots_from", s), t) for t in st["roots"]] if st.get("roots") else None
        rec = {"step": st, "root_ids": root_ids}
        rec["src"] = dump(self.db(s))
        rec["dst_before"] = dump(self.db(d))
        be = self.backend(s)
        walk_roots = root_ids if root_ids else list(reversed(self.exec_ids(s)))
        rec["walk_roots"] = walk_roots
        try:
            rec["iter_ids"] = [i for i in be.iter_record_ids(walk_roots)]
        except Exception as e:
            rec["iter_ids"] = []
            rec["iter_error"] = f"{type(e).__name__}: {e}"[:200]
        release(be)
        del be
        gc.collect()
        try:
            rec["fresh"] = self.one_shot(s, walk_roots)
        except Exception as e:
            rec["fresh"] = None
            rec["fresh_error"] = f"{type(e).__name__}: {e}"[:200]
        rec["n"], rec["error"] = self.transfer_once(st, root_ids)
        rec["dst_after"] = dump(self.db(d))
        rec["n2"], rec["error2"] = self.transfer_once(st, root_ids)
        rec["dst_after2"] = dump(self.db(d))
        rec["src_after"] = dump(self.db(s))
        rec["probes"] = self.probes(rec, s, d)
        return rec

    def probes(self, rec, s, d):
        """Shallow-cache lookups with the real _get_call_node on both backends."""
        src, before = rec["src"], rec["dst_before"]
        had = {r[0] for r in before["call_node"]}
        ids = set(i for i in rec["iter_ids"] if i)
        subtree = {}
        for c, t in src["call_subtree_task"]:
            subtree.setdefault(c, []).append(t)
        all_tasks = {r[0] for r in src["task"]} | {r[0] for r in rec["dst_after"]["task"]}
        bs, bd = self.backend(s), self.backend(d)
        out = []
        try:
            for row in src["call_node"]:
                ch, _, th, ah = row[0], row[1], row[2], row[3]
                if ch not in ids or ch in had or len(out) >= 40:
                    continue
                regs = [("all", sorted(all_tasks))]
                for t in sorted(subtree.get(ch, []))[:3]:
                    regs.append(("minus:" + t, sorted(all_tasks - {t})))
                for name, reg in regs:
                    a = bs._get_call_node(th, ah, set(reg))
                    b = bd._get_call_node(th, ah, set(reg))
                    out.append({"call_hash": ch, "task_hash": th, "args_hash": ah, "registry": name,
                                "src": a.call_hash if a is not None else None,
                                "dst": b.call_hash if b is not None else None})
        finally:
            release(bs)
            release(bd)
        return out

    def e2e(self):
        """Run a shallow-valid workflow in ea, push to eb, edit the leaf task, re-run in both."""
        self.make_repos(["ea", "eb"])
        r0, err0 = self.run("ea", "fan", 3, 1)
        n, err = self.transfer_once({"method": "push", "src": "ea", "dst": "eb"}, None)
        text = open(self.wf).read()
        assert "return x + 1" in text
        with open(self.wf, "w") as f:
            f.write(text.replace("return x + 1", "return x + 2"))
        try:
            ra, erra = self.run("ea", "fan", 3, 1)
            rb, errb = self.run("eb", "fan", 3, 1)
        finally:
            with open(self.wf, "w") as f:
                f.write(text)
            sys.modules.pop("wf_c23", None)
        return {"first": r0, "pushed": n, "source_after_edit": ra, "dest_after_edit": rb,
                "errors": [err0, err, erra, errb]}


def main():
    spec = json.load(open(sys.argv[1]))
    out_path = os.path.abspath(sys.argv[2])
    root = tempfile.mkdtemp(prefix="rv_c23_", dir=os.environ.get("VERIF_TMP") or None)
    cwd = os.getcwd()
    os.chdir(root)
    try:
        w = World(root)
        os.makedirs(os.path.join(root, "files"), exist_ok=True)
        w.make_repos(spec["repos"])
        out = {"spec": spec, "log": [], "steps": []}
        for o in spec["setup"]:
            out["log"].append(w.op(o))
        for st in spec["steps"]:
            if "method" in st:
                out["steps"].append(w.transfer(st))
            else:
                out["log"].append(w.op(st))
        if spec.get("e2e"):
            out["e2e"] = w.e2e()
        with open(out_path, "w") as f:
            json.dump(out, f, default=str)
    finally:
        os.chdir(cwd)
        shutil.rmtree(root, ignore_errors=True)


if __name__ == "__main__":
    main()
