"""C33 — Status filters agree with displayed statuses."""
from __future__ import annotations

import datetime
import json
import logging
import os
from pathlib import Path

from harness.lib import (CORPUS, GEN, Finding, PropertyCheck, TranslateError, coqc, cq_list, cq_opt, run_bool_cases)
from translate import astutil, tr_status

PINS_FILE = Path(__file__).resolve().parents[2] / "translate" / "pins_C33.json"
STATUSES = ["RUNNING", "CACHED", "FAILED", "DONE"]
EXEC_STATUSES = ["RUNNING", "FAILED", "DONE"]      # what an Execution can display (`--exec-status` help)
ERR = "redun.ErrorValue"
# the two faces of the one defect proved in C33_jobs_refuted / C33_execs_refuted
KNOWN_JOB = "job:extra:filter=CACHED:displayed=FAILED:cached=True:ended=True:error=True"
KNOWN_EXEC = "exec:extra:filter=DONE:displayed=FAILED:root:cached=True:ended=True:error=True"
KNOWN_KEYS = {KNOWN_JOB, KNOWN_EXEC}

# ---------------------------------------------------------------- the workflow language of the oracle
_TASKS = None


def tasks():
    """One generic task interpreting a small spec language; defined once per process."""
    global _TASKS
    if _TASKS is not None:
        return _TASKS
    from redun import task
    from redun.scheduler import catch, scheduler_task

    @task(namespace="c33", name="rec")
    def rec(e):
        return 0

    @scheduler_task(namespace="c33", name="kill")
    def kill(scheduler, parent_job, expr):
        # as in redun/tests/test_db_query.py::test_status: stop the workflow, leaving the active
        # jobs without end_time
        scheduler.reject_job(None, Exception("killed"))

    @scheduler_task(namespace="c33", name="interrupt")
    def interrupt(scheduler, parent_job, expr):
        # Ctrl-C reaching the event loop while jobs are in flight (the loop's own KeyboardInterrupt handler exits)
        raise KeyboardInterrupt()

    @task(namespace="c33", name="after")
    def after(_first, spec):
        # evaluated only once `_first` has its value: what `spec` calls again is replayed from the recorded call node
        return node(spec)

    @task(namespace="c33", name="node")
    def node(spec):
        kind = spec[0]
        if kind == "after":
            return after(node(spec[1]), spec[2])
        if kind == "ok":
            return spec[1]
        if kind == "bad":
            raise ValueError(str(spec[1]))
        if kind == "seq":
            # a kill among the terms is the scheduler task itself (evaluated on the main thread right after the terms
            # before it were started), not a job of its own
            return [kill() if s[0] == "kill" else interrupt() if s[0] == "interrupt" else node(s) for s in spec[1]]
        if kind == "catch":
            return catch(node(spec[1]), ValueError, rec)
        if kind == "kill":
            return kill()
        if kind == "interrupt":
            return interrupt()
        raise AssertionError(spec)

    _TASKS = node
    return node


def to_spec(x):
    """JSON lists back to the tuple form (task arguments must hash the same on replay)."""
    if isinstance(x, list):
        if x and x[0] == "seq":
            return ("seq", [to_spec(y) for y in x[1]])
        if x and x[0] == "catch":
            return ("catch", to_spec(x[1]))
        if x and x[0] == "after":
            return ("after", to_spec(x[1]), to_spec(x[2]))
        return tuple(x)
    return x


def gen_spec(rng, depth):
    k = rng.random()
    if depth <= 0 or k < 0.25:
        return ("ok", rng.randint(0, 2)) if rng.random() < 0.55 else ("bad", rng.randint(0, 1))
    if k < 0.27:
        return ("kill",)
    if k < 0.30:
        return ("interrupt",)
    if k < 0.40:
        # a call that has finished is asked for again later (replayed from its call node), possibly while the
        # workflow is being stopped
        first = gen_spec(rng, depth - 1)
        rest = [first] + [gen_spec(rng, depth - 1) for _ in range(rng.choice([0, 1, 1]))]
        rng.shuffle(rest)
        return ("after", first, ("seq", rest))
    if k < 0.55:
        return ("catch", gen_spec(rng, depth - 1))
    n = rng.choice([1, 2, 2, 3, 3])
    kids = [gen_spec(rng, depth - 1) for _ in range(n)]
    if rng.random() < 0.5 and kids:
        kids.append(rng.choice(kids))        # a duplicate call: common sub-expression
    return ("seq", kids)


# every row kind in one database: running, done, failed, cached, CSE-failed; root running/done/failed/cached
COVER = [
    ("seq", [("ok", 1), ("catch", ("seq", [("bad", 1)])), ("catch", ("seq", [("bad", 1), ("ok", 2)]))]),
    ("seq", [("ok", 1), ("catch", ("seq", [("bad", 1)])), ("catch", ("seq", [("bad", 1), ("ok", 2)]))]),
    ("seq", [("ok", 1), ("kill",)]),
    # a finished call replayed from its call node while the workflow is stopped: its row must stay RUNNING everywhere
    ("after", ("ok", 7), ("seq", [("ok", 7), ("kill",)])),
    ("after", ("seq", [("ok", 8)]), ("seq", [("seq", [("ok", 8)]), ("kill",)])),
    ("seq", [("ok", 3), ("bad", 0)]),
    # Ctrl-C while jobs are in flight: whatever the interrupt handler records, filters and display must agree
    ("seq", [("ok", 4), ("seq", [("ok", 5), ("interrupt",)])]),
    ("after", ("ok", 6), ("seq", [("ok", 6), ("interrupt",)])),
    ("ok", 1),
    ("ok", 1),
]
# the histories behind C33_jobs_refuted (DESIGN §7, notes/experiments/e13.py: CSE onto a failing job)
# and C33_execs_refuted (re-run of a failing workflow: the root's own evaluation is a cache hit)
WITNESS = [("seq", [("catch", ("seq", [("bad", 1)])), ("catch", ("seq", [("bad", 1), ("ok", 2)]))])]
WITNESS_EXEC = [("seq", [("bad", 0)]), ("seq", [("bad", 0)])]


class Recorded:
    """A database written by the real scheduler, read back through the real ORM / query code."""

    def __init__(self, programs):
        self.programs = programs
        self.jobs = []        # (id, ended, call_hash, cached)
        self.callnodes = []   # (call_hash, value_hash)
        self.values = []      # (value_hash, type)
        self.execs = []       # (id, job_id)
        self.job_display = {}   # id -> status | "RAISE"
        self.exec_display = {}
        self.job_filter = {}    # status -> sorted ids | None (raised)
        self.exec_filter = {}
        self.outcomes = []


def run_programs(programs):
    """Run each spec as one execution on a fresh in-memory backend; returns the session + outcomes."""
    from redun import Scheduler
    from redun.backends.db import RedunBackendDb
    logging.getLogger("redun").setLevel(logging.CRITICAL)
    node = tasks()
    backend = RedunBackendDb(db_uri="sqlite:///:memory:")
    backend.load()
    outcomes = []
    for spec in programs:
        s = Scheduler(backend=backend)
        s.logger.setLevel(logging.CRITICAL)
        try:
            s.run(node(spec))
            outcomes.append("ok")
        except BaseException as e:  # noqa: the workflow's own error
            if isinstance(e, KeyboardInterrupt) or (isinstance(e, SystemExit) and "interrupt" not in repr(spec)):
                raise
            outcomes.append(type(e).__name__)
    return backend, outcomes


def read_back(session, rec: Recorded):
    """Everything the property talks about, from the real code: displayed status of every job and
    execution, and the result of every single-status filter."""
    from redun.backends.db import CallNode, Execution, Job, Value
    from redun.backends.db.query import CallGraphQuery
    session.expire_all()
    session.expunge_all()
    for j in session.query(Job).all():
        rec.jobs.append((j.id, j.end_time is not None, j.call_hash, j.cached))
        try:
            rec.job_display[j.id] = j.status
        except AttributeError:
            rec.job_display[j.id] = "RAISE"
    cns = session.query(CallNode.call_hash, CallNode.value_hash).all()
    rec.callnodes = [(c, v) for c, v in cns]
    wanted = {v for _, v in rec.callnodes if v is not None}
    rec.values = [(h, t) for h, t in session.query(Value.value_hash, Value.type).all() if h in wanted]
    for e in session.query(Execution).all():
        rec.execs.append((e.id, e.job_id))
        try:
            rec.exec_display[e.id] = e.status
        except AttributeError:
            rec.exec_display[e.id] = "RAISE"
    for st in STATUSES:
        try:
            rec.job_filter[st] = sorted(r.id for r in CallGraphQuery(session).filter_job_statuses([st]).all())
        except NotImplementedError:
            rec.job_filter[st] = None
        try:
            rec.exec_filter[st] = sorted(r.id for r in CallGraphQuery(session).filter_execution_statuses([st]).all())
        except NotImplementedError:
            rec.exec_filter[st] = None
    return rec


def record(programs) -> Recorded:
    cwd = os.getcwd()
    from harness.lib import scratch_dir
    import shutil
    tmp = scratch_dir("c33_")
    os.chdir(tmp)
    try:
        backend, outcomes = run_programs(programs)
        rec = Recorded(programs)
        rec.outcomes = outcomes
        read_back(backend.session, rec)
        try:
            backend.session.close()
            backend.engine.dispose()
        except Exception:  # noqa
            pass
        return rec
    finally:
        os.chdir(cwd)
        shutil.rmtree(tmp, ignore_errors=True)


# ---------------------------------------------------------------- synthetic databases (correspondence only)
TYPE_POOL = [ERR, ERR, ERR, "builtins.int", "builtins.list", "redun.ErrorValue2", "redun.errorvalue", "", "redun.File"]


def synth(rng):
    """Arbitrary rows the migrated schema accepts, including shapes the recorder never writes
    (ended without call hash, running with call hash, dangling call/value/job references).
    cached, Value.type, CallNode.value_hash and Execution.job_id are NOT NULL in the schema."""
    nv, nc, nj, ne = rng.randint(0, 4), rng.randint(0, 4), rng.randint(1, 6), rng.randint(0, 3)
    values = [(f"v{i}", rng.choice(TYPE_POOL)) for i in range(nv)]
    vh = [h for h, _ in values] + ["vX"]
    callnodes = [(f"c{i}", rng.choice(vh) if rng.random() < 0.3 else rng.choice(vh[:-1] or vh)) for i in range(nc)]
    ch = [h for h, _ in callnodes] + ["cX"]
    jobs = []
    for i in range(nj):
        k = rng.random()
        if k < 0.25:
            row = (False, None, False)
        elif k < 0.7 and nc:
            row = (True, rng.choice(ch[:-1]), rng.random() < 0.5)
        else:
            row = (rng.random() < 0.6, rng.choice(ch + [None, None]), rng.random() < 0.5)
        jobs.append((f"j{i}",) + row)
    jh = [j[0] for j in jobs] + ["jX"]
    execs = [(f"e{i}", rng.choice(jh) if rng.random() < 0.3 else rng.choice(jh[:-1])) for i in range(ne)]
    return jobs, callnodes, values, execs


class SynthDb:
    """One in-memory database with the real (migrated) schema, refilled for every case."""

    def __init__(self):
        from redun.backends.db import RedunBackendDb
        logging.getLogger("redun").setLevel(logging.CRITICAL)
        self.backend = RedunBackendDb(db_uri="sqlite:///:memory:")
        self.backend.load()

    def load(self, jobs, callnodes, values, execs) -> Recorded:
        from redun.backends.db import CallNode, Execution, Job, Value
        t0 = datetime.datetime(2020, 1, 1, tzinfo=datetime.timezone.utc)
        s = self.backend.session
        s.expunge_all()
        for cls in (Execution, Job, CallNode, Value):
            s.query(cls).delete()
        s.commit()
        for h, t in values:
            s.add(Value(value_hash=h, type=t, format="x", value=b""))
        for c, v in callnodes:
            s.add(CallNode(call_hash=c, task_name="t", task_hash="th", args_hash="ah", value_hash=v))
        for i, (jid, ended, call, cached) in enumerate(jobs):
            s.add(Job(id=jid, start_time=t0 + datetime.timedelta(seconds=i),
                      end_time=(t0 + datetime.timedelta(seconds=i + 1)) if ended else None,
                      task_hash="th", cached=cached, call_hash=call, execution_id="e0"))
        for eid, jid in execs:
            s.add(Execution(id=eid, args="[]", job_id=jid))
        s.commit()
        return read_back(s, Recorded(None))


# ---------------------------------------------------------------- Coq literals
class Ids:
    def __init__(self):
        self.maps = {}

    def n(self, space, key):
        m = self.maps.setdefault(space, {})
        if key not in m:
            m[key] = len(m) + 1
        return f"{m[key]}%N"

    def opt(self, space, key):
        return "None" if key is None else f"(Some {self.n(space, key)})"


def cq_string(s):
    assert all(32 <= ord(c) < 127 for c in s), s
    return '"' + s.replace('"', '""') + '"%string'


def cq_disp(x):
    return "DRaise" if x == "RAISE" else f"(DStatus {x})"


def cq_case(rec: Recorded, cfg: str, need_wf: bool) -> str:
    ids = Ids()
    jobs = cq_list([f"mkJob {ids.n('j', j)} {'true' if ended else 'false'} {ids.opt('c', call)} "
                    f"{cq_opt(None if cached is None else ('true' if cached else 'false'))}"
                    for j, ended, call, cached in rec.jobs])
    cns = cq_list([f"mkCN {ids.n('c', c)} {ids.opt('v', v)}" for c, v in rec.callnodes])
    vals = cq_list([f"mkVal {ids.n('v', h)} {cq_opt(None if t is None else cq_string(t))}" for h, t in rec.values])
    execs = cq_list([f"mkExec {ids.n('e', e)} {ids.opt('j', j)}" for e, j in rec.execs])

    def flt(d, space):
        return cq_list([f"({st}, {'None' if d[st] is None else '(Some ' + cq_list([ids.n(space, i) for i in d[st]]) + ')'})"
                        for st in STATUSES])
    dj = cq_list([f"({ids.n('j', j)}, {cq_disp(rec.job_display[j])})" for j, *_ in rec.jobs])
    de = cq_list([f"({ids.n('e', e)}, {cq_disp(rec.exec_display[e])})" for e, _ in rec.execs])
    t = (f"(let d := mkDb {jobs} {cns} {vals} {execs} in "
         f"{'wfb d && ' if need_wf else ''}check_db {cfg} d {flt(rec.job_filter, 'j')} {flt(rec.exec_filter, 'e')} {dj} {de})")
    return t


# ---------------------------------------------------------------- the implementation oracle
def row_kind(rec: Recorded, jid):
    j = next(x for x in rec.jobs if x[0] == jid)
    cn = dict(rec.callnodes).get(j[2])
    ty = dict(rec.values).get(cn) if cn is not None else None
    return f"cached={j[3]}:ended={j[1]}:error={ty == ERR}"


def violations(rec: Recorded):
    """Decide the property on one recorded database.  Yields (key, what, detail)."""
    out = []
    for st in STATUSES:
        got = rec.job_filter[st]
        if got is None:
            out.append((f"job:raises:filter={st}", f"filter_job_statuses(['{st}']) raises NotImplementedError", {"status": st}))
            continue
        want = sorted(j for j, d in rec.job_display.items() if d == st)
        if len(set(got)) != len(got):
            out.append((f"job:duplicate:filter={st}", "the job filter returns a record twice", {"status": st}))
        for j in sorted(set(got) - set(want)):
            out.append((f"job:extra:filter={st}:displayed={rec.job_display.get(j)}:{row_kind(rec, j)}",
                        f"a job displayed {rec.job_display.get(j)} is returned by the {st} job filter",
                        {"status": st, "job": j, "displayed": rec.job_display.get(j)}))
        for j in sorted(set(want) - set(got)):
            out.append((f"job:missing:filter={st}:displayed={st}:{row_kind(rec, j)}",
                        f"a job displayed {st} is not returned by the {st} job filter",
                        {"status": st, "job": j, "displayed": st}))
    for st in EXEC_STATUSES:
        got = rec.exec_filter[st]
        if got is None:
            out.append((f"exec:raises:filter={st}", f"filter_execution_statuses(['{st}']) raises", {"status": st}))
            continue
        want = sorted(e for e, d in rec.exec_display.items() if d == st)
        root = dict(rec.execs)
        for e in sorted(set(got) - set(want)):
            out.append((f"exec:extra:filter={st}:displayed={rec.exec_display.get(e)}:root:{row_kind(rec, root[e])}",
                        f"an execution displayed {rec.exec_display.get(e)} is returned by the {st} execution filter",
                        {"status": st, "execution": e, "displayed": rec.exec_display.get(e)}))
        for e in sorted(set(want) - set(got)):
            out.append((f"exec:missing:filter={st}:displayed={st}:root:{row_kind(rec, root[e]) if root[e] else 'none'}",
                        f"an execution displayed {st} is not returned by the {st} execution filter",
                        {"status": st, "execution": e, "displayed": st}))
    for jid, d in rec.job_display.items():
        if d not in STATUSES:
            out.append((f"job:display:{d}", "a recorded job has no displayed status", {"job": jid, "displayed": d}))
    for eid, d in rec.exec_display.items():
        if d not in EXEC_STATUSES:
            out.append((f"exec:display:{d}", "a recorded execution has no displayed status", {"execution": eid, "displayed": d}))
    return out


class Check(PropertyCheck):
    id = "C33"
    module = "Props.C33"
    theorems = ["C33_recorded_wf", "C33_checked_wf", "C33_jobs_of_ok", "C33_execs_of_ok", "C33_jobs_fixed",
                "C33_execs_fixed", "C33_execs_cached_fixed", "C33_jobs_refuted", "C33_execs_refuted", "C33_jobs_shipped_partial",
                "C33_execs_shipped_partial", "C33_check_separates", "C33_nonvacuous"]
    extra_modules = []
    allowed_axioms = []
    assumptions = [
        "SQLite/SQLAlchemy: three-valued logic of IS / = / <> / AND / OR, LEFT vs INNER JOIN and DISTINCT as modelled in "
        "Model/Status.v (eval, join, dedup); re-tested by the correspondence run on synthetic databases (real migrated "
        "schema) that include ended jobs without call hash, running jobs with one, dangling call hashes, call nodes "
        "without value rows and executions whose job row is missing",
        "CPython/ORM: a non-NULL end_time is truthy; a uselist=False relationship yields the row with that key or None; "
        "primary keys are unique (enforced by the database)",
        "recording: Job/Execution/CallNode/Value rows are only written by record_job_start, record_job_end, record_value "
        "and record_call_node (pinned by shape); every database the real scheduler wrote in this run satisfies the "
        "boolean shape check wfb, and Coq proves wfb d = true -> wf d and that every model history yields wf",
        "executions display RUNNING, FAILED or DONE only (`redun log --exec-status` documents exactly these); the CACHED "
        "execution filter is characterised by C33_execs_cached_fixed rather than compared with a display value",
    ]
    rule = ("(a) synthetic databases: random Job/CallNode/Value/Execution rows incl. shapes the recorder never writes; "
            "(b) databases written by the real Scheduler running random workflows of one generic task (ok / raising / "
            "list of children / catch / kill, with duplicated calls for CSE and repeated executions for cache hits); "
            "a case is one database with all four single-status job and execution filters and the displayed status of "
            "every row; distinct by canonical row dump")

    # ------------------------------------------------------------------
    def translate(self):
        self.gen_ready = False
        pins = json.loads(PINS_FILE.read_text())
        try:
            gtext, ttext, variant, got = tr_status.translate(pins=None)
        except astutil.TranslateError as e:
            raise TranslateError(str(e))
        self.variant = variant
        GEN.mkdir(exist_ok=True)
        g, t = GEN / "C33Gen.v", GEN / "C33Tie.v"
        g.write_text(gtext)
        t.write_text(ttext)
        ok, out = coqc(g)
        self.gen_ready = ok
        bad = [f"{k}: shape changed (pin {got.get(k)} != {v}); the hand-written model of this definition is no longer "
               f"known to match" for k, v in pins.items() if got.get(k) != v]
        bad += [f"{k}: not in pins_C33.json" for k in got if k not in pins]
        if bad:
            raise TranslateError("\n".join(bad))
        self.stat("translator", "variant:" + variant)
        return [g, t]

    # ------------------------------------------------------------------
    def recorded_dbs(self):
        if hasattr(self, "_recorded"):
            return self._recorded
        progs = [list(COVER), list(WITNESS), list(WITNESS_EXEC)]
        corpus = CORPUS / "C33.jsonl"
        if corpus.exists():
            for line in corpus.read_text().splitlines():
                if line.strip():
                    progs.append([to_spec(p) for p in json.loads(line)["programs"]])
        n = 40 if self.tier == "quick" else 800
        for _ in range(n):
            k = self.rng.randint(1, 4)
            ps = []
            for _ in range(k):
                if ps and self.rng.random() < 0.4:
                    ps.append(self.rng.choice(ps))            # re-run: cache hits
                else:
                    ps.append(gen_spec(self.rng, self.rng.randint(1, 3)))
            progs.append(ps)
        self._recorded = [record(p) for p in progs]
        return self._recorded

    def correspond(self):
        cfg = "gen" if getattr(self, "gen_ready", False) else "shipped"
        requires = ["Model.Status"] + (["Gen.C33Gen"] if cfg == "gen" else [])
        terms, descr = [], []
        sdb = SynthDb()
        n = 250 if self.tier == "quick" else 6000
        seen = set()
        for _ in range(n):
            rows = synth(self.rng)
            rec = sdb.load(*rows)
            terms.append(cq_case(rec, cfg, need_wf=False))
            descr.append(("synthetic", repr(rows)))
            key = repr(rows)
            self.count(key if key not in seen else None)
            seen.add(key)
            for j in rec.jobs:
                self.stat("synthetic_job_rows", f"ended={j[1]},call={'set' if j[2] else 'NULL'},cached={j[3]}")
            for d in rec.job_display.values():
                self.stat("synthetic_job_display", d)
            self.sample({"kind": "synthetic", "jobs": rows[0], "callnodes": rows[1], "values": rows[2], "execs": rows[3],
                         "job_filter": rec.job_filter, "job_display": rec.job_display}, 2)
        for rec in self.recorded_dbs():
            terms.append(cq_case(rec, cfg, need_wf=True))
            descr.append(("recorded", repr(rec.programs)))
            self.count(("recorded", repr(rec.programs)))
            self.stat("recorded", "databases")
            self.stat("recorded", "jobs", len(rec.jobs))
            self.stat("recorded", "executions", len(rec.execs))
            for j in rec.jobs:
                self.stat("recorded_job_rows", row_kind(rec, j[0]))
            for d in rec.job_display.values():
                self.stat("recorded_job_display", d)
            for d in rec.exec_display.values():
                self.stat("recorded_exec_display", d)
            self.sample({"kind": "recorded", "programs": repr(rec.programs), "outcomes": rec.outcomes,
                         "job_display": sorted(rec.job_display.values())}, 4)
        ok, failing, diags = run_bool_cases("C33", requires, "From Coq Require Import String NArith.\nOpen Scope bool_scope.", terms, chunk=60)
        self.ob("correspondence",
                f"model ({cfg}) == real CallGraphQuery filters and Job/Execution.status on {n} synthetic databases and "
                f"{len(self._recorded)} databases recorded by the real scheduler (each: 4 job filters, 4 execution "
                f"filters, every displayed status; recorded ones also satisfy wfb)",
                ok and not failing, "\n".join(diags) + "".join(f"\nmismatch: {descr[i]}" for i in failing[:6]))

    # ------------------------------------------------------------------
    def oracle(self):
        kinds, ekinds = set(), set()
        n = 0
        for rec in self.recorded_dbs():
            n += 1
            for j in rec.jobs:
                kinds.add(row_kind(rec, j[0]))
            root = dict(rec.execs)
            for e in rec.exec_display:
                ekinds.add(row_kind(rec, root[e]))
            seen = set()
            for key, what, detail in violations(rec):
                if key in seen:
                    continue
                seen.add(key)
                self.findings.append(Finding(key, what, {"kind": "workflow", "programs": rec.programs, "key": key, **detail}))
        need = {"cached=False:ended=False:error=False", "cached=False:ended=True:error=False",
                "cached=False:ended=True:error=True", "cached=True:ended=True:error=False",
                "cached=True:ended=True:error=True"}
        self.ob("oracle", f"the {n} recorded databases cover all five job row kinds, also as root job of an execution",
                need <= kinds and need <= ekinds, f"job kinds {sorted(kinds)}; root job kinds {sorted(ekinds)}")
        unknown = [f for f in self.findings if f.key not in KNOWN_KEYS]
        self.ob("oracle", f"implementation oracle: every single-status job/execution filter equals the set of records "
                          f"displaying that status, on {n} databases written by the real scheduler"
                          + (" (except the registered cached-and-failed findings)" if len(unknown) != len(self.findings) else ""),
                not unknown, "; ".join(sorted({f.key for f in unknown})[:8]))
        variant = getattr(self, "variant", None)
        got = {f.key for f in self.findings}
        if variant == "shipped":
            # the Coq witnesses must reproduce on the real code, otherwise the model is wrong
            self.ob("witness", "C33_jobs_refuted reproduces on the real code (cached-and-failed job: displayed FAILED, "
                               "returned by the CACHED job filter)", KNOWN_JOB in got,
                    "the source translates to the shipped configuration but the witness does not reproduce")
            self.ob("witness", "C33_execs_refuted reproduces on the real code (re-run of a failing workflow: execution "
                               "displayed FAILED, returned by the DONE execution filter)", KNOWN_EXEC in got,
                    "the source translates to the shipped configuration but the witness does not reproduce")
        elif variant == "checked" and all(o.ok for o in self.obligations if o.kind == "tie-proof"):
            self.ob("witness", "repaired variant (cfg_ok gen = true proved): the cached-and-failed witnesses no longer "
                               "reproduce", not (got & KNOWN_KEYS), "cfg_ok holds for the source but a witness reproduces")
        # report the smallest failing history first
        self.findings.sort(key=lambda f: len(repr(f.replay.get("programs"))))

    def replay(self, doc):
        r = doc.get("replay", {})
        if r.get("kind") == "workflow":
            rec = record([to_spec(p) for p in r["programs"]])
            vs = violations(rec)
            same = [v for v in vs if v[0] == r.get("key")]
            for key, what, _ in (same or vs)[:5]:
                print("replay:", key, "--", what)
            if not vs:
                print("replay: property holds on this history now")
            return 1 if (same or (vs and not r.get("key"))) else 0
        print("replay: nothing to replay (no failing input was found); broken obligations:",
              json.dumps(doc.get("broken_obligations", []))[:2000])
        return 1
