"""C05 — Results are never shared between calls with different contexts."""
from __future__ import annotations

import random
import shutil

from harness import jobcheck, jobgen, sched
from harness.lib import Finding, PropertyCheck, scratch_dir
from harness.progs import ref, vm

X = ("x0", "ctx", 0, (), None)
XC = ("x0", "ctx", 0, (), {"context": {"k": 1}})
# the same call under a context first, then without (the Coq witness), and the other way round
Q = ("q0", "cfail", 0, (), None)
QC = ("q0", "cfail", 0, (), {"context": {"k": 1}})
WITNESSES = [("ctx-first", ("root", "seq", 0, (XC, X), None)), ("plain-first", ("root", "seq", 0, (X, XC), None)),
             # a call that fails under a context (caught), then the same call without context must succeed
             ("failed-under-ctx-first", ("root", "seq", 0, (("c", "catch", 0, (QC,), None), Q), None)),
             ("failed-plain-order", ("root", "seq", 0, (Q, ("c", "catch", 0, (QC,), None)), None))]


def norm(v):
    if isinstance(v, (list, tuple)):
        return [norm(x) for x in v]
    return v


def outcome_ok(spec, out, ctx=None):
    try:
        exp = ("val", ref.ref_eval(spec, ctx))
    except ref.Raised as r:
        exp = ("err", r.msgs)
    except ref.Ambiguous:
        return True, ("ambiguous", None)
    if "result" in out:
        return exp[0] == "val" and norm(exp[1]) == norm(out["result"]), exp
    if "error" in out:
        return exp[0] == "err" and (out["error"][1] in exp[1] or "<one of several>" in exp[1]), exp
    return False, exp


class Check(PropertyCheck):
    id = "C05"
    module = "Props.C05"
    extra_modules = ["Model.JobTrace"]
    theorems = ["C05_collapse_same_context", "C05_cse_same_context", "C05_refuted_as_shipped", "C05_witness_fixed"]
    variant = None
    assumptions = [
        "the context reaches a task only through get_context expressions evaluated in the job's context or through default arguments (which enter the argument hash); the single-reduction cache therefore stores context-independent expressions",
        "lookups among call nodes of earlier executions are environment answers in the model; the real filter is exercised by the two-execution oracle",
    ]
    rule = ("random programs whose leaves return the value of a context variable, called with and without "
            "update_context overrides (twins under different contexts), run once and twice on one backend; the "
            "oracle compares every result with a scheduler-free reference evaluator; non-trivial = >= 3 jobs")

    def translate(self):
        p, self.variant = jobcheck.translate_variant("C05", "")
        if self.variant["ctx_strict"] and self.variant["pending_owner_safe"]:
            tie = ("Lemma C05_tie : ctx_strict gen_variant = true /\\ pending_owner_safe gen_variant = true.\n"
                   "Proof. split; reflexivity. Qed.\n")
        else:
            tie = ("(* context filter applied only when the job has a context: C05_refuted_as_shipped applies *)\n"
                   "Lemma C05_tie_shipped : ctx_strict gen_variant = false \\/ pending_owner_safe gen_variant = false.\n"
                   "Proof. vm_compute; auto. Qed.\n")
        p.write_text(p.read_text() + tie)
        return [p]

    def correspond(self):
        n = 70 if self.tier == "quick" else 1200
        if self.variant is None:
            self.runs = [jobcheck.random_run(self.rng, infeasible=0.0, allow_ctx=True) for _ in range(n)]
            return
        self.runs, self.failing = jobcheck.correspond_traces(self, self.variant, n, "C05", infeasible=0.0, allow_ctx=True)

    def oracle(self):
        nb = 0
        for name, spec in WITNESSES:
            out = sched.run_program(lambda: vm.call(spec), {"r0": 1, "r1": 1}, random.Random(self.seed), complete_prob=0.0)
            ok, exp = outcome_ok(spec, out)
            self.evaluations += 1
            if not ok:
                nb += 1
                key = "cse:context-free-call-served-result-recorded-under-a-context" if name == "ctx-first" else f"witness:{name}"
                self.findings.append(Finding(key, f"{name}: got {out.get('result', out.get('error'))!r}, reference {exp[1]!r}",
                                             {"kind": "witness", "spec": repr(spec), "limits": {"r0": 1, "r1": 1}}))
        for o in getattr(self, "runs", []):
            ok, exp = outcome_ok(o["spec"], o)
            self.evaluations += 1
            if not ok and "deadlock" not in o:
                nb += 1
                self.findings.append(Finding(f"result-differs:{o['spec']!r}"[:200],
                                             f"got {o.get('result', o.get('error'))!r}, reference {exp[1]!r}",
                                             {"kind": "random", "spec": repr(o["spec"]), "limits": o["limits"]}))
        # two executions on one backend: the second must not pick results of another context
        n2 = 12 if self.tier == "quick" else 150
        tmp = scratch_dir("rv_c05_")
        try:
            for i in range(n2):
                db = tmp / f"b{i}.db"
                spec1 = jobgen.gen_spec(self.rng, [], depth=2, allow_ctx=True, allow_fail=False, allow_nocse=False)
                spec2 = jobgen.gen_spec(self.rng, [], depth=2, allow_ctx=True, allow_fail=False, allow_nocse=False)
                for spec, rc in ((spec1, None), (spec2, {"k": 2} if i % 2 else None), (spec1, {"k": 2} if i % 3 == 0 else None)):
                    out = sched.run_program(lambda: vm.call(spec), {}, self.rng, db_path=str(db), context=rc)
                    ok, exp = outcome_ok(spec, out, rc)
                    self.evaluations += 1
                    if not ok:
                        nb += 1
                        self.findings.append(Finding(f"two-executions:{spec!r}"[:200],
                                                     f"got {out.get('result', out.get('error'))!r}, reference {exp[1]!r}",
                                                     {"kind": "history", "spec": repr(spec), "run_context": rc}))
        finally:
            shutil.rmtree(tmp, ignore_errors=True)
        nb += self.default_argument_programs()
        self.stat("oracle", "violations", nb)
        self.ob("oracle", "implementation oracle ran (results equal the context-aware reference, one and two executions)", True)
        strict = self.variant is not None and self.variant["ctx_strict"]
        if self.variant is not None and not strict and not any(f.key.startswith("cse:context-free") for f in self.findings):
            self.ob("tie-witness", "C05_refuted_as_shipped witness reproduces on the real code", False, "")

    def default_argument_programs(self, only=None):
        """A task call as default argument of a task called with a context override, and the same call made directly
        under the outer context (seeded change C05b): one and two executions, cache on/off, every order."""
        import logging
        from redun import Scheduler
        from redun.config import Config
        from harness.progs import c05_tasks as T
        logging.getLogger("redun").setLevel(logging.ERROR)
        tmp = scratch_dir("rv_c05d_")
        nb = 0
        combos = [(shape, ok, ov, cache, runs) for shape in ("direct-first", "override-first", "shallow")
                  for ok in ("none", 1, 3) for ov in (2, 1) for cache in (True, False) for runs in (1, 2) if ok != ov]
        if only is not None:
            combos = [tuple(only)]
        try:
            for i, (shape, outer_k, override, cache, runs) in enumerate(combos):
                db = tmp / f"d{i}.db"
                got = None
                for r in range(runs):
                    cfg = {"backend": {"db_uri": f"sqlite:///{db}"}}
                    s = Scheduler(config=Config(cfg))
                    s.load()
                    s.logger.disabled = True
                    ctx = {} if outer_k == "none" else {"k": outer_k}
                    try:
                        got = s.run(T.program(shape, override), cache=cache, context=ctx)
                    except Exception as e:  # noqa: BLE001
                        got = ("error", type(e).__name__, str(e)[:200])
                    want = T.expected(shape, outer_k, override)
                    self.evaluations += 1
                    if norm(got) != norm(want):
                        nb += 1
                        self.findings.append(Finding(
                            f"default-argument:{shape}:outer={outer_k}:override={override}:cache={cache}:run={r + 1}",
                            f"got {got!r}, expected {want!r} (a call evaluated as a default argument under the overridden "
                            f"context and the same call made directly under the outer context)",
                            {"kind": "default-argument", "combo": [shape, outer_k, override, cache, runs]}))
                        break
            # the same call under two contexts that are different values but look alike (seeded change C05c:
            # context hash taken from the JSON text) -- in one execution (both orders) and across executions
            for i, (c1, c2) in enumerate(T.LOOKALIKE if only is None else []):
                for order in (0, 1):
                    for shallow in (False, True):
                        a, b = (c1, c2) if order == 0 else (c2, c1)
                        db = tmp / f"l{i}_{order}_{int(shallow)}.db"
                        s = Scheduler(config=Config({"backend": {"db_uri": f"sqlite:///{db}"}}))
                        s.load()
                        s.logger.disabled = True
                        try:
                            got = s.run(T.two_contexts(a, b, shallow))
                        except Exception as e:  # noqa: BLE001
                            got = ("error", type(e).__name__, str(e)[:200])
                        want = [repr(a), repr(b)]
                        self.evaluations += 1
                        if got != want:
                            nb += 1
                            self.findings.append(Finding(
                                f"lookalike-contexts:{a!r}:{b!r}:shallow={shallow}"[:200],
                                f"the same call under contexts k={a!r} and k={b!r} gave {got!r}, expected {want!r}",
                                {"kind": "lookalike", "contexts": [repr(a), repr(b)], "shallow": shallow}))
        finally:
            shutil.rmtree(tmp, ignore_errors=True)
        return nb

    def replay(self, doc):
        r0 = doc.get("replay", {})
        if r0.get("kind") == "default-argument":
            self.findings, self.evaluations = [], 0
            n = self.default_argument_programs(only=r0["combo"])
            print("replay:", "still fails: " + self.findings[0].what if n else "holds now")
            return 1 if n else 0
        r = doc.get("replay", {})
        if "spec" in r:
            spec = eval(r["spec"])
            for sd in range(10):
                out = sched.run_program(lambda: vm.call(spec), r.get("limits") or {}, random.Random(sd), context=r.get("run_context"))
                if not outcome_ok(spec, out, r.get("run_context"))[0]:
                    print("replay: still differs from the reference (seed", sd, ")")
                    return 1
            print("replay: agrees with the reference")
            return 0
        print("replay: nothing to replay:", doc.get("broken_obligations"))
        return 1
