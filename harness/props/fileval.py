"""Shared by the C30 and C04 checks: the file-value universe of coq/Model/FileVal.v on a real
temporary directory (real redun File / FileSet / Dir objects), rendering to Coq, generators."""
from __future__ import annotations

import contextlib
import os
import pickle
import shutil
import tempfile

from harness.lib import cq_bytes, cq_list

FAMS = ["FBase", "FImm", "FContent"]
DIRS = [(0,), (1,), (0, 2), (3,), (3, 4)]
FNAMES = [0, 1, 2]
DATA = [b"", b"a", b"b", b"ab", b"ba", b"abc", b"xyz"]
TIMES = [5, 6, 7]          # explicit mtimes used by external touches (so that size/mtime pairs repeat)


def classes():
    from redun import file as rf
    return {"FBase": (rf.File, rf.FileSet, rf.Dir), "FImm": (rf.IFile, rf.IFileSet, rf.IDir),
            "FContent": (rf.ContentFile, rf.ContentFileSet, rf.ContentDir)}


# ---------------------------------------------------------------------------- paths
def render_d(d):
    return "/".join(f"d{x}" for x in d)


def render_f(p):
    d, n = p
    return (render_d(d) + "/" if d else "") + f"f{n}"


def render_pat(d, rec):
    return render_d(d) + ("/**" if rec else "/*")


def cq_d(d):
    return "[" + ";".join(f"{x}%nat" for x in d) + "]" if d else "(@nil nat)"


def cq_f(p):
    return f"(mkF {cq_d(p[0])} {p[1]}%nat)"


def cq_target(t):
    if t[0] == "file":
        return f"(TFile {cq_f(t[1])})"
    if t[0] == "set":
        return f"(TSet {cq_d(t[1])} {'true' if t[2] else 'false'})"
    return f"(TDir {cq_d(t[1])})"


def cq_mts(mts):
    return cq_list([f"({cq_f(p)}, ({t})%Z)" for p, t in mts]) if mts else "(@nil (fpath * Z))"


def cq_variant(v):
    b = lambda x: "true" if x else "false"
    return f"(mkVar {b(v['dir_copy_updates'])} {b(v['content_missing_total'])} {b(v['contentdir_by_content'])})"


def cq_op(o):
    k = o[0]
    if k == "new":
        return f"ONew {o[1]} {cq_target(o[2])}"
    if k in ("hash", "update", "valid", "remove", "mkdir", "rmdir"):
        return {"hash": "OHash", "update": "OUpdate", "valid": "OIsValid", "remove": "ORemove", "mkdir": "OMkdir",
                "rmdir": "ORmdir"}[k] + f" {o[1]}%nat"
    if k in ("write", "append"):
        return f"{'OWrite' if k == 'write' else 'OAppend'} {o[1]}%nat {cq_bytes(o[2])} ({o[3]})%Z"
    if k == "touch":
        return f"OTouch {o[1]}%nat ({o[2]})%Z"
    if k in ("copyfile", "stagefile", "unstagefile"):
        return {"copyfile": "OCopyFile", "stagefile": "OStageFile", "unstagefile": "OUnstageFile"}[k] + \
            f" {o[1]}%nat {o[2]}%nat ({o[3]})%Z"
    if k in ("copydir", "stagedir", "unstagedir"):
        return {"copydir": "OCopyDir", "stagedir": "OStageDir", "unstagedir": "OUnstageDir"}[k] + \
            f" {o[1]}%nat {o[2]}%nat {cq_mts(o[3])}"
    if k == "xwrite":
        return f"XWrite {cq_f(o[1])} {cq_bytes(o[2])} ({o[3]})%Z"
    if k == "xremove":
        return f"XRemove {cq_f(o[1])}"
    if k == "xtouch":
        return f"XTouch {cq_f(o[1])} ({o[2]})%Z"
    if k == "xrmtree":
        return f"XRmtree {cq_d(o[1])}"
    raise ValueError(o)


def cq_optnat(x):
    return "None" if x is None else f"(Some {x}%nat)"


# ---------------------------------------------------------------------------- the real world
@contextlib.contextmanager
def tempcwd(prefix="rv_fv_"):
    base = os.environ.get("VERIF_TMP") or tempfile.gettempdir()
    d = tempfile.mkdtemp(prefix=prefix, dir=base)
    old = os.getcwd()
    os.chdir(d)
    try:
        yield d
    finally:
        os.chdir(old)
        shutil.rmtree(d, ignore_errors=True)


class Intern:
    def __init__(self):
        self.d = {}

    def __call__(self, x):
        if x is None:
            return None
        if x not in self.d:
            self.d[x] = len(self.d)
        return self.d[x]


def all_files(d):
    """model paths of all files below model directory d (real directory walk)"""
    out = []
    root = render_d(d) or "."
    for dp, _, fns in os.walk(root):
        rel = os.path.relpath(dp, ".")
        parts = [] if rel == "." else rel.split("/")
        try:
            dd = tuple(int(x[1:]) for x in parts)
        except ValueError:
            continue
        for fn in fns:
            out.append((dd, int(fn[1:])))
    return out


class World:
    """Real redun objects in the current working directory (must be a fresh temp dir)."""

    def __init__(self):
        self.objs = []
        self.kinds = []            # (fam, target)
        self.ticks = Intern()
        self.cls = classes()

    def tick(self, p):
        """mtime token of a file (exists) as the integer the model gets"""
        return self.ticks(os.stat(render_f(p)).st_mtime)

    def make(self, fam, target):
        F, S, D = self.cls[fam]
        if target[0] == "file":
            return F(render_f(target[1]))
        if target[0] == "set":
            return S(render_pat(target[1], target[2]))
        return D(render_d(target[1]))

    def fresh_hash(self, i):
        o = self.make(*self.kinds[i])
        try:
            return o.hash
        except FileNotFoundError:
            return None

    def mts_below(self, d):
        return [(p, self.tick(p)) for p in sorted(all_files(d))]

    def apply(self, o):
        """Execute abstract op `o` (mtimes not yet known) on the real code.
        Returns (code, result_hash_or_None, concrete op for the model)."""
        from redun.file import StagingDir, StagingFile
        k = o[0]
        objs = self.objs
        conc = o
        res = None
        code = None
        try:
            if k == "new":
                objs.append(self.make(o[1], o[2]))
                self.kinds.append((o[1], o[2]))
                res = objs[-1]
            elif k == "hash":
                res = objs[o[1]].hash
            elif k == "update":
                res = objs[o[1]].update_hash()
            elif k == "valid":
                res = objs[o[1]].is_valid()
            elif k == "write":
                res = objs[o[1]].write(o[2].decode())
            elif k == "append":
                with objs[o[1]].open("a") as out:
                    out.write(o[2].decode())
            elif k == "remove":
                res = objs[o[1]].remove()
            elif k == "touch":
                res = objs[o[1]].touch(None if o[2] is None else (o[2], o[2]))
            elif k == "copyfile":
                res = objs[o[1]].copy_to(objs[o[2]])
                res = ("obj", o[2], res)
            elif k == "copydir":
                res = ("obj", o[2], objs[o[1]].copy_to(objs[o[2]]))
            elif k == "stagefile":       # StagingFile(local, remote).stage(): remote -> local, returns local
                res = ("obj", o[1], StagingFile(objs[o[1]], objs[o[2]]).stage())
            elif k == "unstagefile":
                res = ("obj", o[2], StagingFile(objs[o[1]], objs[o[2]]).unstage())
            elif k == "stagedir":
                res = ("obj", o[1], StagingDir(objs[o[1]], objs[o[2]]).stage())
            elif k == "unstagedir":
                res = ("obj", o[2], StagingDir(objs[o[1]], objs[o[2]]).unstage())
            elif k == "mkdir":
                res = objs[o[1]].mkdir()
            elif k == "rmdir":
                res = objs[o[1]].rmdir(recursive=True)
            elif k == "xwrite":
                path = render_f(o[1])
                if os.path.dirname(path):
                    os.makedirs(os.path.dirname(path), exist_ok=True)
                with open(path, "wb") as f:
                    f.write(o[2])
                if o[3] is not None:
                    os.utime(path, (o[3], o[3]))
            elif k == "xremove":
                with contextlib.suppress(FileNotFoundError):
                    os.remove(render_f(o[1]))
            elif k == "xtouch":
                path = render_f(o[1])
                if not os.path.exists(path):
                    if os.path.dirname(path):
                        os.makedirs(os.path.dirname(path), exist_ok=True)
                    open(path, "wb").close()
                os.utime(path, (o[2], o[2]))
            elif k == "xrmtree":
                shutil.rmtree(render_d(o[1]), ignore_errors=True)
            else:
                raise ValueError(o)
        except FileNotFoundError:
            code = 10
        except shutil.SameFileError:
            code = 11
        except Exception as e:  # noqa: an exception the model does not know
            code = 98
            self.last_error = repr(e)
        rh = None
        if code is None:
            if res is None:
                code = 0
            elif res is True:
                code = 1
            elif res is False:
                code = 2
            elif isinstance(res, str):
                code, rh = 3, res
            elif isinstance(res, tuple) and res[0] == "obj":
                code = 4 if res[2] is objs[res[1]] else 97
            else:
                code = 4
        # concretise: mtimes the OS assigned
        def path_of(i):
            return self.kinds[i][1][1]
        if k in ("write", "append"):
            conc = (k, o[1], o[2], self.tick(path_of(o[1])))
        elif k == "touch":
            conc = (k, o[1], self.tick(path_of(o[1])))
        elif k == "copyfile":
            p = path_of(o[2])
            conc = (k, o[1], o[2], self.tick(p) if os.path.exists(render_f(p)) else 0)
        elif k in ("stagefile", "unstagefile"):
            p = path_of(o[1] if k == "stagefile" else o[2])
            conc = (k, o[1], o[2], self.tick(p) if os.path.exists(render_f(p)) else 0)
        elif k == "copydir":
            conc = (k, o[1], o[2], self.mts_below(path_of(o[2])))
        elif k in ("stagedir", "unstagedir"):
            conc = (k, o[1], o[2], self.mts_below(path_of(o[1] if k == "stagedir" else o[2])))
        elif k == "xwrite":
            conc = (k, o[1], o[2], self.tick(o[1]))
        elif k == "xtouch":
            conc = (k, o[1], self.tick(o[1]))
        return code, rh, conc

    def observe(self):
        return [o._hash for o in self.objs], [self.fresh_hash(i) for i in range(len(self.objs))]


def snapshot():
    """bytes of every file of the universe below the current directory: {model path: bytes}"""
    out = {}
    for p in all_files(()):
        with open(render_f(p), "rb") as f:
            out[p] = f.read()
    return out


def in_scope(target, p):
    if target[0] == "file":
        return target[1] == p
    if target[0] == "set":
        return is_prefix(target[1], p[0]) if target[2] else tuple(target[1]) == tuple(p[0])
    return is_prefix(target[1], p[0])


def is_prefix(d, e):
    return tuple(e[:len(d)]) == tuple(d)


# ---------------------------------------------------------------------------- trace generator
class TraceGen:
    def __init__(self, rng):
        self.rng = rng

    def fpath(self):
        r = self.rng
        d = r.choice(DIRS) if r.random() < 0.9 else ()
        return (d, r.choice(FNAMES))

    def target(self):
        r = self.rng
        k = r.random()
        if k < 0.40:
            return ("file", self.fpath())
        if k < 0.58:
            return ("set", r.choice(DIRS), r.random() < 0.5)
        return ("dir", r.choice(DIRS))

    def trace(self, n):
        """yield abstract ops one at a time; the caller reports the kinds of the objects so far"""
        r = self.rng
        kinds = []
        ops = []
        for step in range(n):
            files = [i for i, (f, t) in enumerate(kinds) if t[0] == "file"]
            dirs = [i for i, (f, t) in enumerate(kinds) if t[0] == "dir"]
            k = r.random()
            o = None
            if not kinds or k < 0.16 or (step < 3 and k < 0.5):
                fam = r.choice(FAMS) if r.random() < 0.8 else "FContent"
                o = ("new", fam, self.target())
                kinds.append((o[1], o[2]))
            elif k < 0.28:
                o = (r.choice(["hash", "hash", "valid", "valid", "update"]), r.randrange(len(kinds)))
            elif k < 0.40:
                p = self.fpath()
                o = ("xwrite", p, r.choice(DATA), r.choice(TIMES + [None]))
            elif k < 0.46:
                o = ("xremove", self.fpath())
            elif k < 0.52:
                o = ("xtouch", self.fpath(), r.choice(TIMES))
            elif k < 0.54:
                o = ("xrmtree", r.choice(DIRS))
            elif k < 0.66 and files:
                o = (r.choice(["write", "write", "append"]), r.choice(files), r.choice(DATA))
            elif k < 0.70 and files:
                o = ("remove", r.choice(files))
            elif k < 0.74 and files:
                o = ("touch", r.choice(files), r.choice(TIMES + [None]))
            elif k < 0.82 and len(files) >= 1:
                o = (r.choice(["copyfile", "copyfile", "stagefile", "unstagefile"]), r.choice(files), r.choice(files))
            elif k < 0.92 and len(dirs) >= 2:
                i, j = r.choice(dirs), r.choice(dirs)
                di, dj = kinds[i][1][1], kinds[j][1][1]
                same = di == dj
                kind = r.choice(["copydir", "copydir", "stagedir", "unstagedir"])
                if (is_prefix(di, dj) or is_prefix(dj, di)) and not (same and kind != "copydir"):
                    o = ("hash", i)
                else:
                    o = (kind, i, j)
            elif dirs and k >= 0.96:
                o = (r.choice(["mkdir", "rmdir"]), r.choice(dirs))
            elif r.random() < 0.5:
                o = (r.choice(["valid", "valid", "hash"]), r.randrange(len(kinds)))
            else:
                o = ("xwrite", self.fpath(), r.choice(DATA), r.choice(TIMES + [None]))
            ops.append(o)
        return ops


def run_trace(ops):
    """Execute a trace on the real code in a fresh temp dir.
    Returns dict(ops=concrete ops, codes, hashes=flat list in the model's observation order, world facts)."""
    with tempcwd():
        w = World()
        conc, codes, flat, steps = [], [], [], []
        for o in ops:
            before = [x._hash for x in w.objs]
            code, rh, c = w.apply(o)
            cached, fresh = w.observe()
            conc.append(c)
            codes.append(code)
            flat += [rh] + cached + fresh
            steps.append({"op": c, "abstract": o, "code": code, "result_hash": rh, "cached_before": before,
                          "cached": cached, "fresh": fresh, "kinds": list(w.kinds), "files": snapshot()})
        return {"ops": conc, "codes": codes, "hashes": flat, "steps": steps,
                "error": getattr(w, "last_error", None)}


def intern_list(hs):
    it = Intern()
    return [it(h) for h in hs]


def trace_term(variant, run):
    ids = intern_list(run["hashes"])
    return ("(let r := run_obs %s (mkS [] []) %s in andb (list_eq Nat.eqb (fst r) %s) "
            "(list_eq (opt_eq Nat.eqb) (intern [] (snd r)) %s))" % (
                cq_variant(variant), cq_list([cq_op(o) for o in run["ops"]]),
                cq_list([f"{c}%nat" for c in run["codes"]]), cq_list([cq_optnat(i) for i in ids])))


def unpickled(o):
    """what the backend hands back: a deserialised copy carrying the recorded hash"""
    return pickle.loads(pickle.dumps(o))


# ---------------------------------------------------------------------------- trees with symbolic links
# (outside the Coq model, which has no links: judged on the implementation only.)  A member is whatever
# iterating the Dir / FileSet yields; every member must contribute to the hash.
T0 = 1_500_000_000
POPULATIONS = {
    "plain": ({"d0/f0": b"a", "d0/d2/f1": b"b"}, []),
    "linked_subdir": ({"d5/f0": b"s0", "d5/f1": b"s1", "d0/f0": b"a", "d0/d2/f1": b"b"}, [("d0/d9", "../d5")]),
    "linked_file": ({"d5/f0": b"s0", "d0/f0": b"a"}, [("d0/f5", "../d5/f0")]),
    "outside_nested": ({"d5/f0": b"s0", "d6/f1": b"t1", "d0/f0": b"a"}, [("d5/d8", "../d6"), ("d0/d9", "../d5")]),
    "broken_links": ({"d0/f0": b"a", "d0/d2/f1": b"b"}, [("d0/f7", "../missing"), ("d0/d7", "../missingdir")]),
}
TREE_VALUES = [("Dir", "FBase", 2, "d0"), ("ContentDir", "FContent", 2, "d0"), ("FileSet", "FBase", 1, "d0/**"),
               ("ContentFileSet", "FContent", 1, "d0/**"), ("FileSet", "FBase", 1, "d0/*")]
MUTATIONS = ["rewrite", "truncate", "delete", "recreate"]


def build_population(name):
    """(re)create the tree from scratch in the current directory, every file with mtime T0"""
    files, links = POPULATIONS[name]
    for d in ("d0", "d5", "d6", "d3"):
        if os.path.islink(d):
            os.remove(d)
        shutil.rmtree(d, ignore_errors=True)
    for path, data in files.items():
        os.makedirs(os.path.dirname(path), exist_ok=True)
        with open(path, "wb") as f:
            f.write(data)
        os.utime(path, (T0, T0))
    for link, target in links:
        os.makedirs(os.path.dirname(link), exist_ok=True)
        os.symlink(target, link)


def tree_value(cname, fam, idx, arg):
    return classes()[fam][idx](arg)


def mutate_member(path, how):
    """change one member through the path under which the value lists it; False if not applicable"""
    if how == "rewrite":
        with open(path, "rb") as f:
            old = f.read()
        with open(path, "wb") as f:
            f.write(old + b"!!")
    elif how == "truncate":
        if os.path.getsize(path) == 0:
            return False
        open(path, "wb").close()
    elif how == "delete":
        os.remove(path)
    elif how == "recreate":
        with open(path, "rb") as f:
            old = f.read()
        target = os.readlink(path) if os.path.islink(path) else None
        os.remove(path)
        if target is not None:
            os.symlink(target, path)
            path = os.path.realpath(path)
        with open(path, "wb") as f:
            f.write(old)
        os.utime(path, (T0 + 100, T0 + 100))
    return True


def check_member(pop, value, member, how):
    """one (tree, value, member, mutation): returns None or a description of the failure"""
    build_population(pop)
    v = tree_value(*value)
    h0 = v.hash
    rec = unpickled(v)
    listed = sorted(f.path for f in tree_value(*value))
    if member not in listed:
        return None
    if not mutate_member(member, how):
        return None
    content_same = how == "recreate" and value[1] == "FContent"
    try:
        h1 = tree_value(*value).hash
        valid = rec.is_valid()
    except Exception as e:  # noqa
        return f"hashing / is_valid raised {e!r} after {how} of {member}"
    if content_same:
        if h1 != h0 or not valid:
            return f"{value[0]}({value[3]}): {member} recreated with the same bytes but the content hash changed"
        return None
    if h1 == h0:
        return f"{value[0]}({value[3]}) lists {member} but its hash is unchanged after {how} of that member"
    if valid:
        return f"{value[0]}({value[3]}) lists {member} but is_valid() is still True after {how} of that member"
    return None


def tree_checks(pops=None, values=None):
    """all members x mutations; yields (pop, value, member, how, failure)"""
    with tempcwd("rv_fvl_"):
        for pop in (pops or POPULATIONS):
            for value in (values or TREE_VALUES):
                build_population(pop)
                try:
                    members = sorted(f.path for f in tree_value(*value))
                    tree_value(*value).hash
                except Exception as e:  # noqa: the unchanged tree lists and hashes all of these without raising
                    yield pop, value, None, None, f"listing / hashing raised {e!r}"
                    continue
                for m in members:
                    for how in MUTATIONS:
                        yield pop, value, m, how, check_member(pop, value, m, how)


def tree_fresh_checks():
    """C30 on such trees: after copy_to / stage / write the cached hash equals a fresh one.
    yields (pop, what, failure)"""
    from redun.file import Dir, File, StagingDir
    with tempcwd("rv_fvl_"):
        for pop in POPULATIONS:
            build_population(pop)
            dst = Dir("d3")
            dst.hash
            Dir("d0").copy_to(dst)
            yield pop, "Dir.copy_to", None if dst.hash == Dir("d3").hash else "destination hash stale after Dir.copy_to"
            build_population(pop)
            loc = Dir("d3")
            loc.hash
            got = StagingDir(loc, Dir("d0")).stage()
            yield pop, "StagingDir.stage", None if got.hash == Dir("d3").hash else "local hash stale after stage()"
            build_population(pop)
            members = sorted(f.path for f in Dir("d0"))
            d = Dir("d0")
            h = d.hash
            f = File(members[-1])
            f.write("written through redun")
            bad = None
            if f.hash != File(members[-1]).hash:
                bad = "File hash stale after write"
            elif Dir("d0").hash == h or d.is_valid():
                bad = f"Dir(d0) unchanged / still valid after File({members[-1]}).write"
            yield pop, "File.write below the Dir", bad
