"""C07 — Results and recorded call graph do not depend on timing.

translate   tr_timing: the `cfg` of Model/Timing.v from `_preprocess_args`, its call site and
            `Handle.preprocess`; tie lemma gen_cfg = shipped | fixed (anything else fails closed).
correspond  generated template programs (harness/progs/vm_c07.py: no handles / every Handle state
            passed once / Handle states shared by siblings) run on the REAL Scheduler under several
            completion orders x limit configurations (unlimited .. serial); the recorded event
            sequence is replayed in the Coq machine with the extracted cfg and the real hashes
            (argument lists, results, call nodes of all jobs of all runs) must form the same
            partition as the model's structures.
oracle      model-free: the same program under many completion orders x limit configurations must
            give the same result hash, CallNode hashes and Argument rows; the two Handle witnesses
            and the shared-object witness are replayed deterministically.
"""
from __future__ import annotations

import random

from harness.lib import CORPUS, GEN, Finding, PropertyCheck, TranslateError, run_bool_cases
from harness.progs import vm_c07
from harness.props import c07_run
from translate import astutil, tr_timing

import json
from pathlib import Path

PINS = json.loads((Path(__file__).resolve().parents[2] / "translate" / "pins_C07.json").read_text())

K_REENTRY = "handle-fork-key:limit-wait-reentry"
K_ORDER = "handle-fork-key:sibling-arrival-order"
K_SHARED = "value-hash:shared-object:executed-vs-replayed-twin"
K_PENDING = "pending-expr:duplicate-child-job-depends-on-completion-order"   # NOT a known finding (seed C07d)
K_REJECT = "failed-call:recorded-children:sibling-completion-order"
K_CROSS = "handle-fork-key:cross-parent-arrival-order"      # NOT a known finding: one fork counter per execution

c = lambda v: ("c", v)
p = lambda i: ("p", i)
l = lambda *a: ("l", tuple(a))
h = lambda n: ("h", n)
call = lambda t, *a: ("call", t, tuple(a))

LIM = {"r0": 1}
# main() = [block(), use(H("h0"))], both limited by r0           (Proofs/TimingWit.v W1)
W1 = [{"n": 0, "body": l(call(1), call(2, h(0))), "limits": None},
      {"n": 0, "body": c(7), "limits": LIM}, {"n": 1, "body": c(8), "limits": LIM}]
# main() = [use(h, 1), use(h, 2)], use limited by r0             (W1b, notes/experiments/e7.py)
W1B = [{"n": 0, "body": l(call(1, h(0), c(1)), call(1, h(0), c(2))), "limits": None},
       {"n": 2, "body": p(1), "limits": LIM}]
# main() = [use(h, arg_a()), use(h, arg_b())]                    (W2, notes/experiments/e23.py)
W2 = [{"n": 0, "body": l(call(1, h(0), call(2)), call(1, h(0), call(3))), "limits": None},
      {"n": 2, "body": p(1), "limits": None}, {"n": 0, "body": c(1), "limits": None},
      {"n": 0, "body": c(2), "limits": None}]
# main() = [P(), Q()], P() = [X()], Q() = [X(), 0], X() = [Y(), Y()], Y() = [5]:  X's result holds ONE list twice
W3 = [{"n": 0, "body": l(call(1), call(2)), "limits": None}, {"n": 0, "body": l(call(3)), "limits": None},
      {"n": 0, "body": l(call(3), c(0)), "limits": None}, {"n": 0, "body": l(call(4), call(4)), "limits": None},
      {"n": 0, "body": l(c(5)), "limits": None}]


# main(x) = [block(), use(x), x] called as main(H("h3")): the root job has no parent job
ROOTP = [{"n": 1, "body": l(call(1), call(2, p(0)), p(0)), "limits": None},
         {"n": 0, "body": c(7), "limits": LIM}, {"n": 1, "body": l(c(8), p(0)), "limits": LIM}]
ROOT_ARGS = (("h", 3),)


# main() = [P(), Q()], P() = [use(H("h0"))], Q() = [use(H("h0")), 0]: two PARENTS each pass their own fresh H("h0")
# (the same un-keyed Handle state) to one child                  (Proofs/TimingWit.v W4)
W4 = [{"n": 0, "body": l(call(1), call(2)), "limits": None}, {"n": 0, "body": l(call(3, h(0))), "limits": None},
      {"n": 0, "body": l(call(3, h(0)), c(0)), "limits": None}, {"n": 1, "body": c(8), "limits": None}]
# the same with a Handle returned by a common upstream task: P() = [use(open())], Q() = [use(open()), 0], open() = H("h0")
W4B = [{"n": 0, "body": l(call(1), call(2)), "limits": None}, {"n": 0, "body": l(call(3, call(4))), "limits": None},
       {"n": 0, "body": l(call(3, call(4)), c(0)), "limits": None}, {"n": 1, "body": c(8), "limits": None},
       {"n": 0, "body": h(0), "limits": None}]


# main() = [x, cond(check(), x, 0)] with x = expensive(1): x is demanded eagerly and again when check() has a value
W5 = [{"n": 0, "body": l(call(1, c(1)), ("cond", call(2), call(1, c(1)), c(0))), "limits": None},
      {"n": 1, "body": c(10), "limits": None}, {"n": 0, "body": c(1), "limits": None}]
# main() = seq([x, x])
W5B = [{"n": 0, "body": ("seq", (call(1, c(1)), call(1, c(1)))), "limits": None}, {"n": 1, "body": c(10), "limits": None}]


def rejected_parent_runs():
    """root() = catch(P(), ValueError, recover), P() = [ok(), boom()] (harness/progs/vm.py specs, not modelled in
    Coq): the failed P records a CallNode whose children are the child calls that HAD a call hash when P was
    rejected — with ok() completing before boom() or after it.  Returns [(result, call-node hashes, edges)]."""
    from harness import sched
    from harness.progs import vm
    from redun.backends.db import CallEdge, CallNode
    ok_ = ("ok", "leaf", 1, (), None)
    boom = ("boom", "raise", "x", (), None)
    root = ("root", "catch", 0, (("P", "list", 0, (ok_, boom), None),), None)
    out = []
    for prio in (["root", "P", "ok", "boom"], ["root", "P", "boom", "ok"]):
        o = sched.run_program(lambda: vm.call(root), {}, random.Random(0), complete_prob=0.0, priority=prio)
        sess = o["scheduler"].backend.session
        out.append((repr(o.get("result")), repr(o.get("error")),
                    tuple(sorted(x.call_hash for x in sess.query(CallNode).all())),
                    tuple(sorted({(e.parent_id, e.child_id) for e in sess.query(CallEdge).all()}))))
    return out


def by_task(order):
    """complete the held job whose task comes first in `order`"""
    def f(held, run):
        names = [run.task_idx[run.ids[j.id]] for j in held]
        for t in order:
            if t in names:
                return names.index(t)
        return 0
    return f


WITNESSES = [
    # name, program, [(limits, task order)], key when the runs differ
    ("W1 main=[block(),use(H)] limit 2 vs 1", W1, [({"r0": 2}, [0, 1, 2]), ({"r0": 1}, [0, 1, 2])], K_REENTRY),
    ("W1b main=[use(h,1),use(h,2)] limit 2 vs 1", W1B, [({"r0": 2}, [0, 1]), ({"r0": 1}, [0, 1])], K_REENTRY),
    ("W2 main=[use(h,arg_a()),use(h,arg_b())] arg_a first vs arg_b first", W2,
     [({}, [0, 2, 3, 1]), ({}, [0, 3, 2, 1])], K_ORDER),
    ("W3 twins whose result holds one list twice: P's twin runs first vs Q's", W3,
     [({}, [0, 1, 2, 3, 4]), ({}, [0, 2, 1, 3, 4])], K_SHARED),
    ("W4 main=[P(),Q()], P=[use(H)], Q=[use(H),0]: P completes first vs Q first", W4,
     [({}, [0, 1, 3, 2]), ({}, [0, 2, 3, 1])], K_CROSS),
    ("W4b main=[P(),Q()], P=[use(open())], Q=[use(open()),0]: P's subtree first vs Q's", W4B,
     [({}, [0, 1, 4, 3, 2]), ({}, [0, 2, 4, 3, 1])], K_CROSS),
    ("W5 main=[x,cond(check(),x,0)], x=expensive(1): check completes first vs expensive first", W5,
     [({}, [0, 2, 1]), ({}, [0, 1, 2])], K_PENDING),
]


# ---------------------------------------------------------------------------------- Coq rendering
def cq_val(v):
    if isinstance(v, int):
        return f"(VInt ({v})%Z)"
    return "(VList [" + "; ".join(cq_val(x) for x in v) + "])"


def cq_te(te):
    k = te[0]
    if k == "c":
        return f"(TC {cq_val(te[1])})"
    if k == "h":
        return f"(TH {te[1]}%nat)"
    if k == "p":
        return f"(TP {te[1]}%nat)"
    if k == "l":
        return "(TL [" + "; ".join(cq_te(x) for x in te[1]) + "])"
    if k == "call":
        return f"(TCall {te[1]}%nat [" + "; ".join(cq_te(x) for x in te[2]) + "])"
    raise AssertionError(te)


def cq_op(ev):
    if ev[0] == "enter":
        d = ev[2]
        ds = {"wait": "DWait", "start": "DStart"}.get(d[0]) or f"(DColl {d[1]}%nat)"
        return f"OEnter {ev[1]}%nat {ds}"
    if ev[0] == "done":
        return f"ODone {ev[1]}%nat"
    return f"OResolve {ev[1]}%nat"


def nl(xs):
    return "[" + "; ".join(f"{x}%nat" for x in xs) + "]"


def classes(items):
    first, out = {}, []
    for i, x in enumerate(items):
        first.setdefault(x, i)
        out.append(first[x])
    return out


def partitions(runs, structural):
    """Classes of the argument lists / results / call nodes of all jobs of all runs: by the hashes redun
    computed, or by the structural hashes of c07_run."""
    if structural:
        return (classes([x for r in runs for x in r.c_args]), classes([x for r in runs for x in r.c_res]),
                classes([x for r in runs for x in r.c_node]))
    return (classes([e[-1] for r in runs for e in r.entries]), classes([x for r in runs for x in r.res_hash]),
            classes([x for r in runs for x in r.call_hash]))


def check_term(cfg, prog, runs, structural, root_args=()):
    """root_args: template expressions of kind ("h", name) / ("c", v) given to the root call"""
    rargs = "[" + "; ".join(f"(VHInit {a[1]}%nat)" if a[0] == "h" else cq_val(a[1]) for a in root_args) + "]"
    ops = "[" + ";\n ".join("[" + "; ".join(cq_op(e) for e in r.events) + "]" for r in runs) + "]"
    tasks = "[" + "; ".join(nl(r.task_idx) for r in runs) + "]"
    args, res, node = partitions(runs, structural)
    progs = "[" + "; ".join(cq_te(td["body"]) for td in prog) + "]"
    return f"check_prog {cfg} {progs} {rargs} {ops} {tasks} {nl(args)} {nl(res)} {nl(node)}"


def modelled(run):
    return run.ok and all(e[0] != "enter" or e[2][0] in ("wait", "start", "collapse") for e in run.events) \
        and all(run.entries) and all(x is not None for x in run.call_hash)


# ---------------------------------------------------------------------------------- the oracle
def explain(prog, runs, variant):
    """All runs of one program.  Returns [] if they agree, else [(key, what, pair of run indices)]."""
    ok = [r for r in runs if r.ok]
    if len(ok) != len(runs):
        bad = next(r for r in runs if not r.ok)
        return [("run-failed", f"a feasible program did not complete: error={bad.error} deadlock={bad.deadlock}",
                 (runs.index(bad), runs.index(bad)))]
    sigs = [c07_run.graph_signature(r) for r in runs]
    if len(set(sigs)) == 1:
        return []
    i0 = 0
    j0 = next(j for j, s in enumerate(sigs) if s != sigs[0])
    # the same comparison on structural hashes: if those agree, the executions differ only because a value
    # that holds one object twice (a list, a Handle's namespace string, ...) does not hash like an equal
    # value built from distinct objects
    ssigs = [c07_run.structural_signature(r) for r in runs]
    if len(set(ssigs)) == 1:
        return [(K_SHARED, "structurally identical executions recorded different value / call-node hashes: the value "
                           "hash (hash of the pickle) depends on which objects inside a value are shared, and that "
                           "depends on which duplicate call ran and which was replayed", (i0, j0))]
    sigs = ssigs
    j0 = next(j for j, s in enumerate(sigs) if s != sigs[0])
    if vm_c07.handle_free(prog):
        return [("handle-free:graph-depends-on-schedule",
                 "a program without Handles recorded different call-node / argument hashes (or returned a different "
                 "value) under two schedules", (i0, j0))]
    # Handle-passing program: group the runs by the order in which siblings sharing a Handle state arrived
    groups: dict = {}
    for i, r in enumerate(runs):
        groups.setdefault(repr(sorted(c07_run.arrival_signature(r).items(), key=repr)), []).append(i)
    out = []
    for idx in groups.values():
        ss = {sigs[i] for i in idx}
        if len(ss) > 1:
            # runs in which no Handle-taking job re-entered must agree among themselves
            calm = [i for i in idx if not c07_run.reentered_handle_jobs(runs[i])]
            if len({sigs[i] for i in calm}) > 1:
                a = calm[0]
                b = next(i for i in calm if sigs[i] != sigs[a])
                if c07_run.cross_parent_arrival(runs[a]) != c07_run.cross_parent_arrival(runs[b]):
                    out.append((K_CROSS, "same arrival order among the children of every parent job, nobody re-entered, "
                                         "yet the fork keys differ: jobs of DIFFERENT parents that pass on the same un-keyed "
                                         "Handle state reached _exec_job_main_thread in another order (fork counter shared "
                                         "across parent jobs?)", (a, b)))
                else:
                    out.append(("handle:unexplained-difference",
                                "same arrival order of sibling calls, nobody re-entered, yet the recorded graphs differ", (a, b)))
                continue
            a = idx[0]
            b = next(i for i in idx if sigs[i] != sigs[a])
            if any(c07_run.reentered_handle_jobs(runs[i]) for i in idx):
                key = K_REENTRY if variant != "fixed" else K_REENTRY + ":despite-once-per-job"
                out.append((key, "same arrival order of the sibling calls, but a job that waited for limits was "
                                 "preprocessed again: its Handle got another fork key / argument hash", (a, b)))
            else:
                out.append(("handle:unexplained-difference",
                            "same arrival order of sibling calls, nobody re-entered, yet the recorded graphs differ", (a, b)))
    if not out:
        out.append((K_ORDER, "the fork key of a Handle state passed to several sibling calls follows the order in "
                             "which those calls reach _exec_job_main_thread", (i0, j0)))
    return out


class Check(PropertyCheck):
    id = "C07"
    module = "Props.C07"
    theorems = ["C07_handle_free_schedule_independent", "C07_once_per_job_linear_schedule_independent",
                "C07_recorded_graph_is_root_tree", "C07_refuted_limits_as_shipped", "C07_limits_witness_fixed",
                "C07_refuted_limits_e7_as_shipped", "C07_reentry_inert_fixed",
                "C07_refuted_sibling_order_as_shipped", "C07_sibling_order_remains_fixed",
                "C07_refuted_per_execution_counter", "C07_per_execution_witness_per_parent",
                "C07_per_execution_witness_linear", "C07_one_child_job_per_expression",
                "C07_child_jobs_schedule_independent", "C07_refuted_pending_expr_released_early"]
    extra_modules = ["Model.Timing", "Model.PendingExpr"]
    variant = None
    pending_uf = None
    assumptions = [
        "hashes are idealised as the structures they hash (injective, and a function of the value's structure); "
        "the second half is FALSE for values holding one container object twice (pickle back references) — "
        "known finding, such runs are excluded from the correspondence",
        "the machine lets ANY ready job enter next and lets any entering job wait: a superset of the FIFO event "
        "queue and of every limit configuration (checked by replaying real event sequences in the machine)",
        "modelled programs: task calls with nested values, lazy calls as arguments, Handles created / passed / "
        "returned; not modelled (oracle only, not generated here): failing tasks, catch, scheduler tasks, rollback",
    ]
    rule = ("generated template programs (3-6 tasks, task i calls tasks > i; a third without Handles, a third with "
            "every Handle state passed once, a third with Handle states shared by sibling calls; duplicate calls; "
            "limits on r0/r1) each run on the real Scheduler under >= 6 (completion order x limit configuration "
            "unlimited/2/1) combinations; non-trivial = >= 3 jobs")

    # ------------------------------------------------------------------
    def translate(self):
        try:
            text, cfg, _ = tr_timing.translate(pins=PINS)
        except astutil.TranslateError as e:
            raise TranslateError(str(e))
        cfg = dict(cfg)
        self.pending_uf = cfg.pop("pending_until_finalized")
        shipped = {"pre_every_entry": True, "read_after_incr": True, "root_order": 0, "key_reuse": True,
                   "forks_per_parent": True}
        fixed = dict(shipped, pre_every_entry=False)
        bb = lambda x: "true" if x else "false"
        self.cfg_literal = ("{| pre_every_entry := %s; read_after_incr := %s; root_order := %d%%nat; key_reuse := %s; "
                            "forks_per_parent := %s |}" % (bb(cfg["pre_every_entry"]), bb(cfg["read_after_incr"]),
                                                           cfg["root_order"], bb(cfg["key_reuse"]), bb(cfg["forks_per_parent"])))
        if cfg in (dict(shipped, forks_per_parent=False), dict(fixed, forks_per_parent=False)):
            self.variant = "per-execution"
            tie = ("(* ONE fork counter per execution: C07_refuted_per_execution_counter applies (for the once-per-job call site;\n"
                   "   the every-entry one is refuted already); the determinism theorem needs forks_per_parent = true *)\n"
                   "Lemma C07_tie_per_execution : forks_per_parent gen_cfg = false /\\ "
                   "(gen_cfg = per_execution \\/ pre_every_entry gen_cfg = true).\n"
                   "Proof. split; [reflexivity | (left; reflexivity) || (right; reflexivity)]. Qed.\n")
        elif cfg == shipped:
            self.variant = "shipped"
            tie = ("(* _preprocess_args runs on every entry of _exec_job_main_thread: C07_refuted_limits_as_shipped applies *)\n"
                   "Lemma C07_tie_shipped : gen_cfg = shipped.\nProof. reflexivity. Qed.\n")
        elif cfg == fixed:
            self.variant = "fixed"
            tie = ("(* once per job: C07_once_per_job_linear_schedule_independent applies *)\n"
                   "Lemma C07_tie_fixed : gen_cfg = fixed /\\ pre_every_entry gen_cfg = false /\\ forks_per_parent gen_cfg = true.\n"
                   "Proof. repeat split; reflexivity. Qed.\n")
        else:
            self.variant = "other"
            tie = "Lemma C07_tie : gen_cfg = shipped \\/ gen_cfg = fixed.\nProof. (left; reflexivity) || (right; reflexivity). Qed.\n"
        if self.pending_uf:
            tie += ("(* a _pending_expr entry lives until the parent job is finalized: C07_one_child_job_per_expression applies *)\n"
                    "Lemma C07_tie_pending : gen_pending_until_finalized = true.\nProof. reflexivity. Qed.\n")
        else:
            tie += ("(* entries are released when their job concludes: C07_refuted_pending_expr_released_early applies *)\n"
                    "Lemma C07_tie_pending_released_early : gen_pending_until_finalized = false.\nProof. reflexivity. Qed.\n")
        GEN.mkdir(exist_ok=True)
        path = GEN / "C07Gen.v"
        path.write_text(text + tie)
        return [path]

    # ------------------------------------------------------------------
    def limit_configs(self):
        return [{"r0": 100, "r1": 100}, {"r0": 2, "r1": 1}, {"r0": 1, "r1": 1}]

    def run_all(self):
        nprog = 20 if self.tier == "quick" else 400
        reps = 2 if self.tier == "quick" else 3
        db = c07_run.DbTemplate()
        self.programs = []
        try:
            for n in range(nprog):
                mode = ["none", "linear", "shared", "cross", "lazy"][n % 5]
                prog = vm_c07.gen_program(self.rng, mode, resources=("r0", "r1"))
                runs = []
                # both orders of any two concurrently running jobs of different tasks: lowest task first / highest first
                nt = len(prog)
                for order in ([0] + list(range(1, nt)), [0] + list(range(nt - 1, 0, -1))):
                    r = c07_run.run_prog(prog, self.limit_configs()[0], random.Random(0), complete_prob=0.0,
                                         chooser=by_task(order), db=db)
                    r.params = {"limits": self.limit_configs()[0], "order": order}
                    runs.append(r)
                for lim in self.limit_configs():
                    for _ in range(reps):
                        seed = self.rng.randrange(1 << 30)
                        cp = self.rng.choice([0.0, 0.3, 0.7])
                        r = c07_run.run_prog(prog, lim, random.Random(seed), complete_prob=cp, db=db)
                        r.params = {"limits": lim, "seed": seed, "complete_prob": cp}
                        runs.append(r)
                self.programs.append((mode, prog, runs))
                njobs = len(runs[0].jobs)
                self.count(repr(prog) if njobs >= 3 else None, n=len(runs))
                self.stat("programs", mode)
                self.stat("jobs per program", min(njobs // 5 * 5, 30))
                self.stat("runs", "with a job that waited for limits", sum(any(len(e) > 1 for e in r.entries) for r in runs))
                self.stat("runs", "with a collapsed / replayed duplicate",
                          sum(any(e[0] == "enter" and e[2][0] == "collapse" for e in r.events) for r in runs))
                self.stat("runs", "total", len(runs))
            # the witnesses
            self.witness_runs = []
            for name, prog, confs, key in WITNESSES:
                runs = []
                for lim, order in confs:
                    r = c07_run.run_prog(prog, lim, random.Random(0), complete_prob=0.0, chooser=by_task(order), db=db)
                    r.params = {"limits": lim, "order": order}
                    runs.append(r)
                self.witness_runs.append((name, prog, runs, key))
            # a Handle given to the ROOT call (no parent job: call order `root_order`), passed on to a child
            self.root_runs = []
            for lim in ({"r0": 2}, {"r0": 1}):
                r = c07_run.run_prog(ROOTP, lim, random.Random(0), root_args=ROOT_ARGS, complete_prob=0.0,
                                     chooser=by_task([0, 1, 2]), db=db)
                r.params = {"limits": lim, "order": [0, 1, 2], "root_args": ROOT_ARGS}
                self.root_runs.append(r)
        finally:
            db.close()

    def correspond(self):
        self.run_all()
        cfg = {"shipped": "shipped", "fixed": "fixed", "per-execution": "(" + getattr(self, "cfg_literal", "") + ")"}.get(self.variant)
        if cfg is None:
            self.ob("correspondence", "model replays the real event sequences (no recognised variant)", False,
                    f"translator variant: {self.variant}")
            return
        terms, idx = [], []
        skipped_shared = skipped_other = 0
        items = [(m, pr, rs) for m, pr, rs in self.programs] + [("witness", pr, rs) for _, pr, rs, _ in self.witness_runs]
        items.append(("root-handle", ROOTP, self.root_runs))
        for k, (mode, prog, runs) in enumerate(items):
            if vm_c07.has_lazy(prog):
                continue            # cond / seq: not part of the Timing machine (oracle + _pending_expr machine below)
            if not all(modelled(r) for r in runs):
                skipped_other += 1
                continue
            # redun's own hashes, unless they separate structurally equal values (object sharing, known
            # finding): then the structural hashes computed by c07_run stand in for them
            structural = partitions(runs, False) != partitions(runs, True)
            skipped_shared += structural
            terms.append(check_term(cfg, prog, runs, structural, ROOT_ARGS if mode == "root-handle" else ()))
            idx.append(k)
            if mode != "witness":
                self.sample({"mode": mode, "program": repr([td["body"] for td in prog])[:300],
                             "jobs": len(runs[0].jobs), "runs": len(runs)})
        self.stat("correspondence", "programs replayed in the model", len(terms))
        self.stat("correspondence", "of these compared on structural hashes (redun's hashes separate equal values that share objects differently)", skipped_shared)
        self.stat("correspondence", "skipped: not modelled", skipped_other)
        ok, failing, diags = run_bool_cases("c07", ["Model.Timing"], "", terms, chunk=6)
        detail = "\n".join(diags)
        for i in failing[:3]:
            mode, prog, runs = items[idx[i]]
            detail += f"\nmismatch ({mode}): {[td['body'] for td in prog]} limits/seeds {[r.params for r in runs]}"
        self.ob("correspondence",
                f"{len(terms)} programs x >= 2..6 real executions each: event sequences replay in the Coq machine ({cfg}) and "
                "argument / result / call-node hashes form the model's partition", ok and not failing, detail)
        self.ob("correspondence", "nothing outside the modelled fragment was generated", skipped_other == 0,
                f"{skipped_other} programs had events the model does not have")
        self.failing_programs = [items[idx[i]] for i in failing]
        # ---- the _pending_expr machine (Model/PendingExpr.v): for every parent job of every run, the demands for
        # task expressions and the conclusions of their jobs, in order; the model says which demands create a job
        pterms, pidx = [], []
        uf = "true" if self.pending_uf else "false"
        nparents = nlater = 0
        for k, (mode, prog, runs) in enumerate(items):
            cases = []
            for r in runs:
                for pj, evs in sorted(r.pending.items()):
                    evl = "[" + "; ".join((f"Demand {e[1]}%nat" if e[0] == "demand" else f"Conclude {e[1]}%nat") for e in evs) + "]"
                    exp = "[" + "; ".join("true" if e[2] else "false" for e in evs if e[0] == "demand") + "]"
                    cases.append(f"({evl}, {exp})")
                    nparents += 1
                    seen_conclude = False
                    for e in evs:
                        seen_conclude = seen_conclude or e[0] == "conclude"
                        nlater += e[0] == "demand" and seen_conclude
            if cases:
                pterms.append(f"forallb (fun p => list_bool_eqb (new_job_trace {uf} (fst p)) (snd p)) [" + "; ".join(cases) + "]")
                pidx.append(k)
        pok, pfailing, pdiags = run_bool_cases("c07p", ["Model.PendingExpr"], "", pterms, chunk=10)
        pdetail = "\n".join(pdiags)
        for i in pfailing[:3]:
            mode, prog, runs = items[pidx[i]]
            pdetail += f"\nmismatch ({mode}): {[td['body'] for td in prog]}"
        self.stat("_pending_expr machine", "parent jobs replayed", nparents)
        self.stat("_pending_expr machine", "demands arriving after a sibling job concluded", nlater)
        self.ob("correspondence", f"{nparents} parent jobs: which demand for a task expression creates a child job is what the "
                f"_pending_expr machine says (entries live until the parent is finalized: {uf})", pok and not pfailing, pdetail)

    # ------------------------------------------------------------------
    def oracle(self):
        if not hasattr(self, "programs"):
            self.run_all()
        nviol = 0
        for name, prog, runs, key in self.witness_runs:
            self.evaluations += len(runs)
            sig = {c07_run.graph_signature(r) for r in runs}
            bad = [r for r in runs if not r.ok]
            differs = len(sig) > 1 or bool(bad)
            self.stat("witnesses", f"{name}: {'differ' if differs else 'agree'}")
            if differs:
                k = key
                if key == K_REENTRY and self.variant == "fixed":
                    k = key + ":despite-once-per-job"
                if bad:
                    k = "run-failed"
                self.findings.append(Finding(k, f"{name}: the recorded call graphs differ",
                                             {"kind": "witness", "name": name, "program": repr(prog),
                                              "runs": [r.params for r in runs]}))
        # tie: the variant the translator found must show on the real code
        w1 = [len({c07_run.graph_signature(r) for r in runs}) > 1 for n, _, runs, k in self.witness_runs if k == K_REENTRY]
        if self.variant == "shipped":
            self.ob("tie-witness", "C07_refuted_limits_as_shipped reproduces on the real Scheduler (W1, W1b)", all(w1),
                    "translator says `_preprocess_args` runs on every entry but the limits witnesses agree")
        elif self.variant == "fixed":
            self.ob("tie-witness", "C07_limits_witness_fixed: the limits witnesses agree on the real Scheduler", not any(w1),
                    "translator says once per job but the limits witnesses differ")
        rj = rejected_parent_runs()
        self.evaluations += len(rj)
        self.stat("witnesses", "rejected parent catch(P()), P=[ok(),boom()], ok first vs boom first: "
                  + ("differ" if len(set(rj)) > 1 else "agree"))
        if len(set(rj)) > 1:
            self.findings.append(Finding(
                K_REJECT, "the CallNode of a failed call lists the children that had finished when it was rejected",
                {"kind": "rejected-parent", "program": "root=catch(P(),ValueError,recover); P=[ok(),boom()]",
                 "runs": [{"complete first": "ok"}, {"complete first": "boom"}],
                 "call nodes": [[h[:8] for h in x[2]] for x in rj]}))
        w5 = [len({c07_run.graph_signature(r) for r in runs}) > 1 for n, _, runs, k in self.witness_runs if k == K_PENDING]
        if self.pending_uf is not None:
            self.ob("tie-witness", "the _pending_expr witness (W5) " + ("agrees" if self.pending_uf else "differs")
                    + " on the real Scheduler, as the translated entry lifetime says", all(w5) != bool(self.pending_uf),
                    f"translator: until_finalized={self.pending_uf}; witness differs: {w5}")
        w4 = [len({c07_run.graph_signature(r) for r in runs}) > 1 for n, _, runs, k in self.witness_runs if k == K_CROSS]
        if self.variant == "per-execution":
            self.ob("tie-witness", "C07_refuted_per_execution_counter reproduces on the real Scheduler (W4, W4b)", all(w4),
                    "translator says one fork counter per execution but the cross-parent witnesses agree")
        elif self.variant in ("shipped", "fixed"):
            self.ob("tie-witness", "C07_per_execution_witness_per_parent: the cross-parent witnesses agree on the real Scheduler",
                    not any(w4), "translator says one fork counter per parent job but the cross-parent witnesses differ")
        for mode, prog, runs in self.programs:
            for key, what, (a, b) in explain(prog, runs, self.variant):
                nviol += 1
                self.findings.append(Finding(key, what, {"kind": "random", "mode": mode, "program": repr(prog),
                                                         "runs": [runs[a].params, runs[b].params]}))
        self.stat("oracle", "programs compared across schedules", len(self.programs))
        self.stat("oracle", "programs whose runs differ", nviol)
        self.ob("oracle", "implementation oracle ran (result hash, CallNode / Argument / Value / Evaluation / Handle rows across schedules)", True)

    # ------------------------------------------------------------------
    def replay(self, doc):
        r = doc.get("replay", {})
        if "program" not in r:
            print("replay: nothing to replay:", doc.get("broken_obligations"))
            return 1
        if r.get("kind") == "rejected-parent":
            rj = rejected_parent_runs()
            for x in rj:
                print("result", x[0], "call nodes", [h[:8] for h in x[2]], "edges", len(x[3]))
            print("replay: still fails (the executions differ)" if len(set(rj)) > 1 else "replay: the executions agree")
            return 1 if len(set(rj)) > 1 else 0
        prog = eval(r["program"])
        runs = []
        for prm in r["runs"]:
            if "order" in prm:
                run = c07_run.run_prog(prog, prm["limits"], random.Random(0), complete_prob=0.0, chooser=by_task(prm["order"]))
            else:
                run = c07_run.run_prog(prog, prm["limits"], random.Random(prm["seed"]), complete_prob=prm["complete_prob"])
            runs.append(run)
            print("run", prm, "->", "ok" if run.ok else (run.error, run.deadlock), "result", run.result,
                  "call nodes", [x[:8] for x in c07_run.graph_signature(run)[1]])
        if any(not x.ok for x in runs) or len({c07_run.graph_signature(x) for x in runs}) > 1:
            print("replay: still fails (the executions differ)")
            return 1
        print("replay: the executions agree")
        return 0
