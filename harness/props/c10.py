"""C10 — Remote-executor monitors never lose a submitted job.

translate : translate/tr_monitor.py reads _start / stop / _monitor (/ _submission_thread) of the five
            executor classes, emits coq/Gen/C10Gen.v (extracted protocol per executor + tie lemma against
            the shipped or the fixed configuration of Model/Monitor.v) and the marked source lines.
correspond: the real executor classes are driven under a deterministic thread scheduler
            (harness/c10_det.py) at the granularity of the marked lines, with the cloud API replaced by
            an in-process fake; the recorded (thread, observation) sequences are replayed through the
            model inside Coq (check_run, vm_compute).
oracle    : decides the property on the real classes only: run a schedule to quiescence, every
            submitted job must have been passed to done_job/reject_job exactly once.
"""
from __future__ import annotations

import json

from harness.lib import GEN, CORPUS, REPO, Finding, PropertyCheck, TranslateError, run_bool_cases
from harness import c10_det as D
from translate import astutil, tr_monitor

KEYS = ["docker", "aws_batch", "k8s", "gcp_batch", "aws_glue"]

# The interleavings of Proofs/MonitorWitness.v (thread names of the deterministic scheduler).
WITNESS = {
    "docker": (2, "S S S S M0 M0 M0 M0 S S M0 M0 M0"),
    "aws_batch": (2, "S S S S M0 M0 M0 M0 S S M0 M0 M0"),
    "k8s": (2, "S S S S M0 M0 M0 M0 S S M0 M0"),
    "gcp_batch": (2, "S S S S M0 M0 M0 M0 S S M0 M0 M0"),
    "aws_glue": (2, "S S S S S S S U0 U0 U0 U0 U0 U0 M0 M0 M0 M0 S S S S S M0 M0 U1 U1"),
    "aws_glue#single": (1, "S S S S S S S U0 U0 M0 M0 M0 U0 U0 U0 U0"),
}

FINISH_FUEL = 400


def cq_action(name):
    if name == "S":
        return "ASched"
    return f"A{'Mon' if name[0] == 'M' else 'Sub'} {int(name[1:])}"


def cq_b(b):
    return "true" if b else "false"


def cq_nl(l):
    return "[" + ";".join(str(x) for x in l) + "]"


def cq_obs(o):
    return (f"({cq_b(o['flag'])}, {cq_nl(o['queue'])}, {cq_nl(o['tracked'])}, {cq_nl(o['reported'])}, "
            f"{cq_b(o['err'])}, [{';'.join(cq_b(x) for x in o['mons'])}], [{';'.join(cq_b(x) for x in o['subs'])}])")


class Outcome:
    def __init__(self, key, njobs, kind, sched):
        self.key, self.njobs, self.kind, self.sched = key, njobs, kind, sched
        self.history = []
        self.done = False
        self.final = None
        self.error = None

    def coq_term(self):
        items = []
        for name, status, o in self.history:
            exp = "None" if status == "blocked" else f"Some {cq_obs(o)}"
            items.append(f"({cq_action(name)}, {exp})")
        return (f"check_run gen_{self.key} {cq_nl(range(self.njobs))} [{'; '.join(items)}] {cq_b(self.done)}")


def finish_order(names):
    """Quiet policy: submission threads first, then monitors, then the scheduler thread."""
    pri = {"U": 0, "M": 1, "S": 2}
    return sorted(names, key=lambda n: (pri[n[0]], int(n[1:] or 0)))


def execute(key, info, njobs, kind, prefix, rng=None, preempt=None, max_random=0):
    """Run one schedule on the real executor.
    prefix   : thread names to step first (skipped when the thread has finished);
    then `max_random` random steps (sticky), then the quiet policy until quiescence (with fuel)."""
    out = Outcome(key, njobs, kind, list(prefix))
    run = D.Run(key, info, REPO, njobs)
    try:
        def do(name):
            status, o = run.step(name)
            out.history.append((name, status, o))
            return status
        for name in prefix:
            if name in run.det.recs and run.det.recs[name].status != "done":
                do(name)
        cur = None
        for _ in range(max_random):
            live = run.threads()
            if not live:
                break
            if cur not in live or rng.random() < 0.35:
                cur = rng.choice(live)
            if do(cur) == "blocked":
                cur = None
        # quiet finish (no preemption inside a phase): all executor threads run, one after the other, until
        # they have finished (submission threads first, then monitors); then the scheduler thread performs
        # one whole _submit(); repeat.  Fuel bounds monitors that spin on a queue nobody drains.
        fuel = [FINISH_FUEL]
        insert_lines = set(info["lines"].get("insert", []))

        def until_done(name, cap):
            n = 0
            while fuel[0] > 0 and n < cap and run.det.recs[name].status != "done":
                fuel[0] -= 1
                n += 1
                if do(name) == "blocked":
                    return
        while fuel[0] > 0 and run.threads():
            before = (run.ad.observe(), tuple(run.threads()))
            for _ in range(4):   # a blocked joiner becomes enabled once the newer monitor is dead
                for name in finish_order([n for n in run.threads() if n != "S"]):
                    until_done(name, 60)
            if "S" in run.threads():
                while fuel[0] > 0:
                    fuel[0] -= 1
                    do("S")
                    rec = run.det.recs["S"]
                    if rec.status == "done" or rec.pos[0] in ("lock", "submit") or (rec.pos[0] == "line" and rec.pos[1] in insert_lines):
                        break
            if (run.ad.observe(), tuple(run.threads())) == before:
                break
        out.done = run.done()
        out.final = run.ad.observe()
        out.sched = [h[0] for h in out.history]
    except Exception as e:  # noqa: BLE001
        out.error = repr(e)
        out.final = run.ad.observe() if run.ad.ex is not None else None
    finally:
        run.close()
    return out


def classify(info, out):
    """Decide the property on one finished execution of the real code. Returns (key, what) or None."""
    cls = info["cls"]
    o = out.final
    if out.error:
        return f"{cls}:harness-error", f"execution under the deterministic scheduler failed: {out.error}"
    rep = o["reported"]
    if len(set(rep)) != len(rep):
        return f"{cls}:reported-twice", f"a job was reported to the scheduler twice: {rep}"
    if o["err"]:
        return f"{cls}:monitor-error", "a monitor thread raised and called reject_job(None, error)"
    lost = [j for j in range(out.njobs) if j not in rep]
    if not lost:
        if not out.done:
            return f"{cls}:threads-never-finish", "all jobs reported but executor threads keep running"
        return None
    if out.kind == "quiet":
        return (f"{cls}:lost-job:without-preemption",
                f"jobs {lost} never reported although no thread was preempted (quiet schedule)")
    where = []
    for j in lost:
        where.append("tracked" if j in o["tracked"] else "queue" if j in o["queue"] else "vanished")
    w = sorted(set(where))[0] if len(set(where)) == 1 else "+".join(sorted(set(where)))
    state = "all executor threads have exited" if out.done else "the remaining threads never report it"
    return (f"{cls}:lost-job:stuck-in-{w}",
            f"job(s) {lost} submitted but never reported (left in {w}; {state})")


ARR_KEYS = ["aws_batch", "k8s", "gcp_batch"]
# The interleaving of Proofs/ArrCounterInv.v (witness_counter): job 0 is being accounted for
# (num_pending read, not stored) when job 1 is added; then job 0 completes and the monitor leaves.
ARR_WITNESS = ["S", "A0>len", "S", "A0", "M0*"]


def execute_arr(key, info, cnt, njobs, kind, script, rng=None, max_random=0, force=True, program=None):
    """Arraying ON (min_array_size > 1, every description immediately stale): scheduler thread S, arrayer
    thread(s) A*, monitor thread(s) M*.  Scheduling points: every acquisition of arrayer._lock, the
    arrayer's idle loop, the monitor's guard / snapshot / pop lines and - when the decrement of
    num_pending is not under the lock - the len(jobs) call inside that statement.
    script items: "T" (one step), "T>kind" (step T until it is paused at a point of that kind),
    "T*" (run T until done; a blocked join is served by finishing the arrayer threads first)."""
    ainfo = dict(info, arr=cnt, program=program)
    if program:
        njobs = sum(1 for p in program if p[0] == "job")
    out = Outcome(key, njobs, kind, [])
    out.counter_bad = None
    out.program = program
    out.live = None
    run = D.Run(key, ainfo, REPO, njobs)
    try:
        def live(name):
            return name in run.det.recs and run.det.recs[name].status != "done"

        def check_counter(o):
            # locked discipline: whenever no arrayer thread is between pop and decrement, the counter is exact
            if cnt["locked"] and out.counter_bad is None:
                idle = all(r.status == "done" or (r.pos and r.pos[0] == "line" and r.pos[1] in cnt["lines"]["idle"])
                           for n, r in run.det.recs.items() if n[0] == "A")
                if idle and o["num_pending"] != len(o["held"]):
                    out.counter_bad = (list(out.sched), o)

        def do(name):
            status, o = run.step(name)
            out.history.append((name, status, o))
            out.sched.append(name)
            check_counter(o)
            if status == "blocked" and force:
                # a monitor is inside stop() -> arrayer.stop() -> join: finish the arrayer threads, then it
                for a in [n for n in run.threads() if n[0] == "A"]:
                    for _ in range(40):
                        if not live(a):
                            break
                        do(a)
                for _ in range(10):
                    if not live(name):
                        break
                    st2, o2 = run.step(name)
                    out.history.append((name, st2, o2))
                    out.sched.append(name)
            return status
        for item in script:
            if item == "idle":
                # everything but the scheduler thread runs (round robin) until every monitor has shut down
                for _ in range(120):
                    ms = [n for n in run.threads() if n[0] == "M"]
                    if not ms:
                        break
                    for n in [t for t in run.threads() if t != "S"]:
                        if live(n):
                            do(n)
            elif item.endswith("*"):
                n = item[:-1]
                for _ in range(60):
                    if not live(n):
                        break
                    do(n)
            elif ">" in item:
                n, want = item.split(">")
                for _ in range(40):
                    if not live(n):
                        break
                    do(n)
                    if run.det.recs[n].pos and run.det.recs[n].pos[0] == want:
                        break
            elif live(item):
                do(item)
        cur = None
        for _ in range(max_random):
            lv = run.threads()
            if not lv:
                break
            if cur not in lv or rng.random() < 0.4:
                cur = rng.choice(lv)
            do(cur)
        fuel = 900
        same = 0
        last = None
        while fuel > 0 and run.threads():       # fair finish: round robin, scheduler thread first
            for n in run.threads():
                fuel -= 1
                if live(n):
                    do(n)
            now = (run.ad.observe(), tuple(run.threads()))
            same = same + 1 if now == last else 0
            last = now
            if same >= 25 and "S" not in run.threads() and not any(t[0] == "A" for t in run.threads()):
                break       # only monitors are left and they poll without any effect
        out.done = run.done()
        out.live = run.threads()
        out.final = run.ad.observe()
    except Exception as e:  # noqa: BLE001
        out.error = repr(e)
        out.final = run.ad.observe() if run.ad.ex is not None else None
    finally:
        run.close()
    return out


def classify_arr(info, out):
    cls = info["cls"]
    o = out.final
    if out.error:
        return f"{cls}:harness-error:arrayer-mode", f"execution under the deterministic scheduler failed: {out.error}"
    rep = o["reported"]
    if len(set(rep)) != len(rep):
        return f"{cls}:reported-twice", f"a job was reported to the scheduler twice: {rep}"
    if o["err"]:
        return f"{cls}:monitor-error", "a thread raised and called reject_job(None, error)"
    lost = [j for j in range(out.njobs) if j not in rep]
    if lost and not out.done and out.live is not None and "S" not in out.live \
            and not any(t[0] == "A" for t in out.live) and all(j in o["held"] for j in lost):
        return (f"{cls}:lost-job:stuck-in-arrayer:no-arrayer-thread",
                f"job(s) {lost} submitted but never handed to the backend nor reported: they sit in arrayer.pending "
                f"(num_pending == {o['num_pending']}) and no arrayer thread is alive (the thread started by add_job() "
                f"returned at once: _exit_flag still set from an earlier stop()); the monitor polls for ever")
    if not lost or not out.done:
        return None     # undecided executions (fuel) are not findings
    if o["num_pending"] != len(o["held"]):
        return (f"{cls}:lost-job:stuck-in-arrayer:num_pending-lost-update",
                f"job(s) {lost} submitted but never reported: arrayer.num_pending == {o['num_pending']} while the "
                f"arrayer still holds {o['held']} (an add_job() landed between the read and the store of "
                f"`num_pending -= len(jobs)`); the monitor saw nothing pending, stopped the arrayer and exited")
    return (f"{cls}:lost-job:arrayer-mode", f"job(s) {lost} submitted but never reported with job arraying on; final {o}")


# ---------------------------------------------------------------------------------------------------
# Multi-wave histories at phase granularity (Model/GlueWaves.v): no thread is preempted inside a phase
# (one whole _submit(); a submission thread until it returns; one monitor loop iteration or its whole way
# out), runs stay in flight until the history completes them.  Actions: ("S",) ("T", thread) ("C", job).
# ---------------------------------------------------------------------------------------------------
WAVE_WITNESS = [("S",), ("S",), ("T", "U0"), ("C", 0), ("T", "M0"), ("S",)]   # A,B; drain+exit; A done; C while B runs


def execute_waves(key, info, njobs, kind, actions, rng=None, nrandom=0, park=False):
    winfo = dict(info, waves=True, park=park)
    out = Outcome(key, njobs, kind, [])
    out.macro = []      # (action, observation after it)
    out.stuck = False
    run = D.Run(key, winfo, REPO, njobs)
    guard = set(info["lines"].get("guard", []))
    insert_lines = set(info["lines"].get("insert", []))
    try:
        def live(name):
            return name in run.det.recs and run.det.recs[name].status != "done"

        def step(name):
            status, o = run.step(name)
            out.history.append((name, status, o))
            return status

        def park_step(name):
            """("P", monitor): run the monitor up to its next CLI / cloud call (or to its loop guard)."""
            rec = run.det.recs[name]
            for _ in range(60):
                if not live(name):
                    break
                st = step(name)
                if st == "blocked" or rec.status == "done" or rec.pos[0] in ("cloud", "lock") \
                        or (rec.pos[0] == "line" and rec.pos[1] in guard):
                    break

        def phase(name):
            rec = run.det.recs[name]
            for _ in range(300):
                if not live(name):
                    break
                st = step(name)
                if st == "blocked" or rec.status == "done":
                    break
                if name == "S" and (rec.pos[0] == "lock" or (rec.pos[0] == "line" and rec.pos[1] in insert_lines)):
                    break
                if name[0] == "M" and (rec.pos[0] == "lock" or (rec.pos[0] == "line" and rec.pos[1] in guard)):
                    break

        def act(a):
            if a[0] == "S":
                if not live("S"):
                    return False
                phase("S")
            elif a[0] == "T":
                if not live(a[1]):
                    return False
                phase(a[1])
            elif a[0] == "P":
                if not live(a[1]):
                    return False
                park_step(a[1])
            else:
                o = run.ad.observe()
                if a[1] in run.ad.finished or a[1] not in o["tracked"]:
                    return False
                run.ad.complete(a[1])
            out.macro.append((a, run.ad.observe()))
            out.sched.append("S" if a[0] == "S" else a[1] if a[0] == "T" else f"park({a[1]})" if a[0] == "P"
                             else f"complete({a[1]})")
            return True

        for a in actions:
            act(tuple(a))
        for _ in range(nrandom):
            o = run.ad.observe()
            cands = [("T", n) for n in run.threads() if n != "S"]
            if park:
                cands += [("P", n) for n in run.threads() if n[0] == "M"] * 3
            cands += [("C", j) for j in o["tracked"] if j not in run.ad.finished]
            if live("S"):
                cands += [("S",)] * 2
            if not cands:
                break
            act(rng.choice(cands))
        # finish: the scheduler thread submits the rest, every run finishes, threads take turns
        for _ in range(60):
            if not run.threads():
                break
            before = (run.ad.observe(), tuple(run.threads()), frozenset(run.ad.finished))
            if live("S"):
                act(("S",))
            for n in [t for t in run.threads() if t != "S"]:
                act(("T", n))
            for j in run.ad.observe()["tracked"]:
                act(("C", j))
            if (run.ad.observe(), tuple(run.threads()), frozenset(run.ad.finished)) == before:
                out.stuck = True      # a whole round of every live thread changed nothing: fixpoint
                break
        out.done = run.done()
        out.live = run.threads()
        out.final = run.ad.observe()
        out.errors = list(run.ad.sched.errors)
    except Exception as e:  # noqa: BLE001
        out.error = repr(e)
        out.final = run.ad.observe() if run.ad.ex is not None else None
    finally:
        run.close()
    return out


def classify_waves(info, out):
    cls = info["cls"]
    o = out.final
    if out.error:
        return f"{cls}:harness-error:waves", f"execution under the deterministic scheduler failed: {out.error}"
    rep = o["reported"]
    if len(set(rep)) != len(rep):
        return f"{cls}:reported-twice", f"a job was reported to the scheduler twice: {rep}"
    if o["err"]:
        lost = [j for j in range(out.njobs) if j not in rep]
        return (f"{cls}:job-less-scheduler-error",
                f"a monitor thread raised and reported reject_job(None, error) ({getattr(out, 'errors', [])}); "
                f"job(s) {lost} never reported; final state {o}")
    lost = [j for j in range(out.njobs) if j not in rep]
    if lost and (out.done or out.stuck):
        where = sorted({("tracked" if j in o["tracked"] else "queue" if j in o["queue"] else "vanished") for j in lost})
        what = ("all executor threads have exited" if out.done else
                f"threads {out.live} keep polling without any effect (every run has finished)")
        return (f"{cls}:lost-job:no-preemption:stuck-in-{'+'.join(where)}",
                f"job(s) {lost} submitted but never reported although no thread was preempted inside a phase "
                f"(whole submits, submission thread until it returns, whole monitor iterations; runs in flight): left in "
                f"{'+'.join(where)}; {what}; final state {o}")
    if not lost and out.done and (o["queue"] or o["tracked"]):
        return f"{cls}:leftover-at-quiescence", f"all jobs reported but the pending collections are not empty: {o}"
    return None


def cq_gact(a):
    return "GSubmit" if a[0] == "S" else ("GSub" if a[1][0] == "U" else "GPoll") if a[0] == "T" else f"(GComplete {a[1]})"


def cq_gobs(o):
    return (f"({cq_b(o['flag'])}, {cq_nl(o['queue'])}, {cq_nl(o['tracked'])}, {cq_nl(o['reported'])}, "
            f"{cq_b(any(o['mons']))}, {cq_b(any(o['subs']))})")


class Check(PropertyCheck):
    id = "C10"
    module = "Props.C10"
    theorems = ["C10_refuted_docker", "C10_refuted_aws_batch", "C10_refuted_k8s", "C10_refuted_gcp_batch",
                "C10_refuted_aws_glue", "C10_refuted_aws_glue_single", "C10_loses_refutes",
                "C10_holds_fixed", "C10_fixed_bounded", "C10_fixed_progress", "C10_quiescent_terminal",
                "C10_counter_exact", "C10_counter_exit_safe", "C10_counter_refuted_unlocked",
                "C10_counter_locked_never_loses", "C10_arrayer_armed", "C10_arrayer_all_submitted",
                "C10_arrayer_refuted_clear_in_stop", "C10_arrayer_shipped_never_loses",
                "C10_glue_queue_has_submitter", "C10_glue_waves_progress", "C10_glue_waves_quiescent",
                "C10_glue_refuted_early_return", "C10_glue_shipped_not_stuck",
                "C10_walk_snapshot_exactly_once", "C10_walk_snapshot_progress", "C10_walk_refuted_live",
                "C10_walk_snapshot_never_loses"]
    extra_modules = ["Model.Monitor"]
    allowed_axioms = []
    section_premises = []
    assumptions = [
        "granularity: threads are preempted only at the marked source lines (reads/writes of the running flag and "
        "of the pending collections, thread creation, join test, thread return) - line-level, not bytecode-level; "
        "the refutations need no finer preemption, the fixed-variant theorem is about critical sections",
        "protocol model (Model/Monitor.v): job arraying disabled (min_array_size = 0) so that submission inserts into "
        "the pending map in the submitting thread; arrayer.num_pending is then always 0. The counter the monitor guard "
        "reads with arraying on is modelled separately (Model/ArrCounter.v: one JobDescription, one arrayer thread, "
        "the monitor's exit is one step) and exercised on the real classes with arraying on; there a monitor's way "
        "out is not preempted, so the known monitor-exit race cannot occur and every loss has another cause",
        "the cloud / container API is an in-process fake in which every polled job has succeeded; "
        "parse_job_result is faked to return a result",
        "the scheduler thread only submits (no external stop() while jobs are outstanding)",
        "CPython: Thread.is_alive() is true from start() until the target function has returned and the thread was joined",
    ]
    rule = ("per executor class: the Coq witness interleavings, quiet (preemption-free) schedules, every single "
            "preemption of the quiet schedule (2 jobs), and sticky random schedules over 1-3 jobs; distinct by "
            "(executor, jobs, thread sequence)")

    def __init__(self, tier, seed):
        super().__init__(tier, seed)
        self.info = None
        self.outcomes = None

    # ------------------------------------------------------------------ translate
    def translate(self):
        try:
            text, info = tr_monitor.translate()
        except astutil.TranslateError as e:
            raise TranslateError(str(e))
        self.info = info
        if info["_errors"]:
            # A rejected shape is a broken obligation; the scheduling points of everything that was recognised
            # are kept, so correspondence (for the recognised executors) and the whole search still run.
            self.ob("translator", "C10 translator: every anchored function has a recognised shape / pinned shape",
                    False, "\n".join(info["_errors"]))
        GEN.mkdir(exist_ok=True)
        p = GEN / "C10Gen.v"
        p.write_text(text + "\n")
        t = GEN / "C10Tie.v"
        t.write_text(info["_tie_text"] + "\n")
        for k in KEYS:
            self.stat("variant", f"{k}:{info[k]['variant']}")
        return [p, t]

    # ------------------------------------------------------------------ executions
    def ensure_info(self):
        if self.info is None:
            # translator failed: fall back to nothing (the oracle cannot place scheduling points)
            raise RuntimeError("no scheduling points: the translator did not recognise the source")

    def executions(self):
        if self.outcomes is not None:
            return self.outcomes
        self.ensure_info()
        outs = []
        nrand = 16 if self.tier == "quick" else 400
        corpus = CORPUS / "C10.jsonl"
        if corpus.exists():
            for line in corpus.read_text().splitlines():
                if line.strip():
                    d = json.loads(line)
                    if d["executor"] in self.info:
                        outs.append(execute(d["executor"], self.info[d["executor"]], d["njobs"], "corpus", d["schedule"]))
        for key in KEYS:
            info = self.info[key]
            if not info["locked"]:
                for wk, (n, sch) in WITNESS.items():
                    if wk.split("#")[0] == key:
                        outs.append(execute(key, info, n, "witness", sch.split()))
            # the witness interleaving is also meaningful for a repaired executor: run it as far as it applies
            for n in (1, 2, 3):
                outs.append(execute(key, info, n, "quiet", []))
            # quiet, but the scheduler thread submits everything first
            outs.append(execute(key, info, 2, "burst", ["S"] * 40))
            # every single preemption of the quiet 2-job schedule
            base = execute(key, info, 2, "quiet", [])
            seq = base.sched
            alts = sorted(set(seq))
            limit = len(seq) if self.tier != "quick" else min(len(seq), 26)
            for p in range(1, limit):
                for alt in alts:
                    if alt != seq[p]:
                        outs.append(execute(key, info, 2, "preempt1", seq[:p] + [alt]))
            for i in range(nrand):
                n = self.rng.choice([1, 2, 2, 3])
                outs.append(execute(key, info, n, "random", [], rng=self.rng, max_random=self.rng.choice([10, 25, 60])))
        self.outcomes = outs
        return outs

    def waves_executions(self):
        if getattr(self, "wave_outs", None) is not None:
            return self.wave_outs
        outs = []
        nrand = 10 if self.tier == "quick" else 150
        for key in KEYS:
            info = self.info[key]
            outs.append(execute_waves(key, info, 3, "waves-witness", WAVE_WITNESS))
            outs.append(execute_waves(key, info, 3, "waves-burst", [("S",), ("S",), ("S",)]))
            outs.append(execute_waves(key, info, 3, "waves-serial", []))
            for i in range(nrand):
                outs.append(execute_waves(key, info, self.rng.choice([2, 3, 3, 4]), "waves-random", [], rng=self.rng,
                                          nrandom=self.rng.choice([5, 10, 20])))
            # a submit landing while the monitor is parked inside its status collection (fake CLI / cloud call):
            # every park position of the first monitor iteration x which runs have finished
            hand = [("T", "U0")] if key == "aws_glue" else []
            for fin in ([], [0], [0, 1]):
                for k in range(0, 6 if self.tier == "quick" else 10):
                    acts = [("S",), ("S",)] + hand + [("C", j) for j in fin] + [("P", "M0")] * k + [("S",)]
                    outs.append(execute_waves(key, info, 3, "park-sweep", acts, park=True))
            for i in range(4 if self.tier == "quick" else 80):
                outs.append(execute_waves(key, info, self.rng.choice([3, 4]), "park-random", [], rng=self.rng,
                                          nrandom=self.rng.choice([10, 20, 30]), park=True))
        self.wave_outs = outs
        return outs

    def arr_executions(self):
        if getattr(self, "arr_outs", None) is not None:
            return self.arr_outs
        cnt = self.info["_counter"]
        outs = []
        nrand = 12 if self.tier == "quick" else 200
        for key in ARR_KEYS:
            info = self.info[key]
            if info["locked"]:
                continue
            outs.append(execute_arr(key, info, cnt, 2, "arr-witness", ARR_WITNESS))
            for n in (1, 2, 3):
                outs.append(execute_arr(key, info, cnt, n, "arr-fair", []))
            for i in range(nrand):
                outs.append(execute_arr(key, info, cnt, self.rng.choice([2, 2, 3]), "arr-random", [], rng=self.rng,
                                        max_random=self.rng.choice([8, 20, 40])))
            # several waves separated by idle periods in which the monitor shuts down (Model/ArrLife.v)
            scriptable = key in ("aws_batch", "k8s")
            outs.append(execute_arr(key, info, cnt, 0, "arr-wave-stop", ["S", "idle", "S", "S"],
                                    program=[("job", False), ("stop",), ("job", False)]))
            outs.append(execute_arr(key, info, cnt, 0, "arr-wave-stop2", ["S", "idle", "S", "S", "S"],
                                    program=[("job", False), ("stop",), ("stop",), ("job", False)]))
            if scriptable:
                outs.append(execute_arr(key, info, cnt, 0, "arr-wave-script", ["idle", "S", "S"],
                                        program=[("job", True), ("wait",), ("job", False)]))
            for i in range(4 if self.tier == "quick" else 60):
                prog = []
                for _ in range(self.rng.randint(2, 5)):
                    r = self.rng.random()
                    prog.append(("job", scriptable and r < 0.25) if r < 0.6 else (("stop",) if r < 0.8 else ("wait",)))
                prog.append(("job", False))
                # the executor is drained (all monitors gone) before every step of the scheduler thread, so an
                # external stop() never hits an executor with outstanding jobs (assumption of the property)
                outs.append(execute_arr(key, info, cnt, 0, "arr-waves-random", ["idle", "S"] * (2 * len(prog) + 2),
                                        program=prog))
        self.arr_outs = outs
        return outs

    # ------------------------------------------------------------------ correspond
    def correspond(self):
        if self.info is None:
            self.ob("correspondence", "model == real executor classes", False,
                    "not run: the translator did not recognise the source, so there are no scheduling points")
            return
        outs = self.executions()
        terms, used = [], []
        for o in outs:
            if o.error or self.info[o.key]["errors"]:
                continue        # no gen_<key> for an executor whose shape was rejected (obligation already broken)
            terms.append(o.coq_term())
            used.append(o)
            sig = (o.key, o.njobs, tuple(o.sched))
            self.count(sig if len(o.sched) > 4 else None)
            self.stat("executor", o.key)
            self.stat("schedule_kind", o.kind)
            self.stat("jobs", o.njobs)
            self.stat("steps", f"{(len(o.sched) // 10) * 10}-{(len(o.sched) // 10) * 10 + 9}")
            self.stat("threads_created", len(o.final["mons"]) + len(o.final["subs"]))
            self.stat("blocked_join_steps", sum(1 for h in o.history if h[1] == "blocked") > 0)
            self.stat("quiescent_at_end", o.done)
            if o.kind in ("witness", "random"):
                self.sample({"executor": o.key, "jobs": o.njobs, "kind": o.kind, "schedule": " ".join(o.sched)[:300],
                             "final": o.final}, 6)
        errs = [o for o in outs if o.error]
        self.ob("correspondence", "every schedule could be executed on the real executor classes under the "
                "deterministic scheduler", not errs, "; ".join(f"{o.key} {o.kind} {o.sched[:30]}: {o.error}" for o in errs[:5]))
        ok, failing, diags = run_bool_cases("C10", ["Model.Monitor", "Gen.C10Gen"], "", terms, chunk=60)
        detail = "\n".join(diags)
        for i in failing[:5]:
            o = used[i]
            detail += f"\nMISMATCH {o.key} jobs={o.njobs} kind={o.kind} schedule={' '.join(o.sched)}\n  history={o.history}"
        self.ob("correspondence",
                f"model == real executor classes on {len(terms)} recorded executions (per step: flag, queue, pending map, "
                f"reported jobs, error, live monitor / submission threads; step enabledness; quiescence)",
                ok and not failing, detail)

    # ------------------------------------------------------------------ oracle
    def oracle(self):
        if self.info is None:
            return self.oracle_fallback()
        outs = self.executions()
        n = 0
        seen = set()
        for o in outs:
            n += 1
            info = self.info[o.key]
            c = classify(info, o)
            self.stat("oracle", "lost" if c and ":lost-job" in c[0] else ("other" if c else "all-reported"))
            if c and c[0] not in seen:
                seen.add(c[0])
                key, what = c
                what = (f"{info['cls']} ({info['file']}): {what}; e.g. {o.njobs} job(s), thread schedule "
                        f"{' '.join(o.sched)}")
                self.findings.append(Finding(key, what, {"kind": "schedule", "executor": o.key, "njobs": o.njobs,
                                                         "schedule": o.sched, "schedule_kind": o.kind,
                                                         "final": o.final, "expect": key}))
        # ---- job arraying on: the counter read by the monitor guard
        cnt = self.info["_counter"]
        arr = self.arr_executions()
        for o in arr:
            n += 1
            info = self.info[o.key]
            c = classify_arr(info, o)
            self.stat("oracle_arrayer_mode", ("lost" if c and ":lost-job" in c[0] else "other") if c else
                      ("all-reported" if o.done else "undecided(fuel)"))
            self.stat("arrayer_schedule_kind", o.kind)
            self.count((o.key, "arr", o.njobs, tuple(o.sched)))
            if c and c[0] not in seen:
                seen.add(c[0])
                self.findings.append(Finding(c[0], f"{info['cls']} ({info['file']} + redun/job_array.py): {c[1]}; e.g. "
                                             f"{o.njobs} job(s), thread schedule {' '.join(o.sched)}",
                                             {"kind": "arr-schedule", "executor": o.key, "njobs": o.njobs,
                                              "program": o.program, "schedule": o.sched, "final": o.final,
                                              "expect": c[0]}))
        if cnt["locked"]:
            bad = [o for o in arr if o.counter_bad]
            self.ob("correspondence", f"real JobArrayer: num_pending == number of jobs held whenever the arrayer thread is "
                    f"idle (model invariant C10_counter_exact) at every step of {len(arr)} executions with arraying on",
                    not bad, "; ".join(f"{o.key} after {' '.join(o.counter_bad[0])}: {o.counter_bad[1]}" for o in bad[:3]))
        else:
            wit = [o for o in arr if o.kind == "arr-witness"]
            hit = [o for o in wit if (classify_arr(self.info[o.key], o) or ("",))[0].endswith("num_pending-lost-update")]
            self.ob("correspondence", "the witness of C10_counter_refuted_unlocked (lost update of num_pending) reproduces on "
                    "the real classes", len(hit) == len(wit) and bool(wit),
                    "; ".join(f"{o.key}: final {o.final} error {o.error}" for o in wit if o not in hit))
        # ---- multi-wave histories at phase granularity, runs in flight (all five executors)
        waves = self.waves_executions()
        for o in waves:
            n += 1
            info = self.info[o.key]
            c = classify_waves(info, o)
            self.stat("oracle_waves", ("lost" if ":lost-job" in c[0] else "other") if c else
                      ("all-reported" if o.done else "undecided"))
            self.stat("waves_kind", f"{o.key}:{o.kind}")
            self.count((o.key, "waves", o.njobs, tuple(o.sched)))
            if o.kind == "waves-witness":
                self.sample({"executor": o.key, "jobs": o.njobs, "kind": o.kind, "history": " ".join(o.sched)}, 8)
            if c and c[0] not in seen:
                seen.add(c[0])
                self.findings.append(Finding(c[0], f"{info['cls']} ({info['file']}): {c[1]}; e.g. {o.njobs} job(s), "
                                             f"history {' '.join(o.sched)}",
                                             {"kind": "waves", "executor": o.key, "njobs": o.njobs,
                                              "actions": [list(a) for a, _ in o.macro], "history": o.sched,
                                              "final": o.final, "expect": c[0]}))
        for key in KEYS:
            if self.info[key].get("walk") == "Live":
                sw = [o for o in waves if o.key == key and o.kind == "park-sweep"]
                hit = [o for o in sw if (classify_waves(self.info[key], o) or ("",))[0].endswith("job-less-scheduler-error")]
                self.ob("correspondence", f"the witness of C10_walk_refuted_live (submit while the monitor walks the live "
                        f"pending map) reproduces on the real {self.info[key]['cls']}", bool(hit),
                        f"{len(sw)} park-sweep histories, none ended with a job-less scheduler error")
        gv = self.info.get("_glue_start")
        if gv:
            gl = [o for o in waves if o.key == "aws_glue" and not o.error and not o.kind.startswith("park")]
            terms = [f"gcheck gen_glue_start (ginit {cq_nl(range(o.njobs))}) "
                     f"[{'; '.join(f'({cq_gact(a)}, {cq_gobs(ob)})' for a, ob in o.macro)}]" for o in gl]
            ok, failing, diags = run_bool_cases("C10W", ["Model.GlueWaves", "Gen.C10Gen"], "", terms, chunk=60)
            detail = "\n".join(diags) + "".join(
                f"\nMISMATCH glue waves jobs={gl[i].njobs} history={' '.join(gl[i].sched)} macro={gl[i].macro}" for i in failing[:3])
            self.ob("correspondence", f"Glue phase model (Model/GlueWaves.v, variant {gv} from the AST of _start) == real "
                    f"AWSGlueExecutor on {len(terms)} multi-wave histories (after every phase: is_running, pending queue, "
                    f"running map, reported, monitor / submission thread alive)", ok and not failing, detail)
            if gv != "AlwaysCheck":
                wit = [o for o in gl if o.kind == "waves-witness"]
                hit = [o for o in wit if (classify_waves(self.info[o.key], o) or ("",))[0].startswith(
                    "AWSGlueExecutor:lost-job:no-preemption:stuck-in-queue")]
                self.ob("correspondence", "the witness of C10_glue_refuted_early_return reproduces on the real AWSGlueExecutor",
                        bool(hit), "; ".join(f"final {o.final} error {o.error}" for o in wit))
        else:
            self.ob("correspondence", "Glue _start is one of the two modelled shapes (AlwaysCheck / EarlyReturn)",
                    self.info["aws_glue"]["locked"], f"ops = {self.info['aws_glue']['ops']}")
        if self.info["_life"] != "ClearInStart":
            wit = [o for o in arr if o.kind.startswith("arr-wave-")]
            hit = [o for o in wit if (classify_arr(self.info[o.key], o) or ("",))[0].endswith("no-arrayer-thread")]
            self.ob("correspondence", "the witness of C10_arrayer_refuted_clear_in_stop (stop() without a live arrayer "
                    "thread, then a regular job) reproduces on the real classes", bool(hit),
                    "; ".join(f"{o.key} {o.kind}: final {o.final} error {o.error}" for o in wit if o not in hit)[:1500])
        self.ob("oracle", f"implementation oracle (every submitted job reported exactly once at quiescence) ran on "
                f"{n} executions of the real executor classes", True)

    def oracle_fallback(self):
        """The translator did not recognise the source, so there are no scheduling points.  Still decide the
        property on preemption-free executions: the scheduler thread yields before every _submit(), every
        executor thread runs to completion when it is created (or when the scheduler thread yields)."""
        n = 0
        for key in KEYS:
            sp = tr_monitor.SPECS[key]
            info = {"file": sp["file"], "cls": sp["cls"], "lines": {"ret": []}, "locked": False, "fallback": True}
            for njobs in (1, 2, 3):
                out = execute(key, info, njobs, "quiet", [])
                n += 1
                c = classify(info, out)
                if c and not any(f.key == c[0] for f in self.findings):
                    self.findings.append(Finding(c[0], f"{sp['cls']} ({sp['file']}): {c[1]}; final state {out.final}",
                                                 {"kind": "fallback", "executor": key, "njobs": njobs, "expect": c[0]}))
        self.ob("oracle", f"fallback oracle (no scheduling points; {n} preemption-free executions of the real classes) ran", True)

    # ------------------------------------------------------------------ replay
    def replay(self, doc):
        r = doc.get("replay", {})
        if r.get("kind") == "schedule":
            _, info = tr_monitor.translate()
            o = execute(r["executor"], info[r["executor"]], r["njobs"], r.get("schedule_kind", "replay"), r["schedule"])
            c = classify(info[r["executor"]], o)
            print("replay:", r["executor"], "jobs", r["njobs"], "schedule", " ".join(o.sched))
            print("replay: final state", o.final, "all threads finished:", o.done)
            print("replay:", f"still fails: {c[0]} - {c[1]}" if c else "property holds on this schedule now")
            return 1 if c else 0
        if r.get("kind") == "arr-schedule":
            _, info = tr_monitor.translate()
            o = execute_arr(r["executor"], info[r["executor"]], info["_counter"], r["njobs"], "replay", r["schedule"],
                            force=False, program=[tuple(p) for p in r["program"]] if r.get("program") else None)
            c = classify_arr(info[r["executor"]], o)
            print("replay:", r["executor"], "(job arraying on) jobs", r["njobs"], "schedule", " ".join(o.sched))
            print("replay: final state", o.final, "all threads finished:", o.done)
            print("replay:", f"still fails: {c[0]} - {c[1]}" if c else "property holds on this schedule now")
            return 1 if c else 0
        if r.get("kind") == "waves":
            _, info = tr_monitor.translate()
            o = execute_waves(r["executor"], info[r["executor"]], r["njobs"], "replay", [tuple(a) for a in r["actions"]])
            c = classify_waves(info[r["executor"]], o)
            print("replay:", r["executor"], "jobs", r["njobs"], "phase history", " ".join(o.sched))
            print("replay: final state", o.final, "all threads finished:", o.done, "live:", o.live)
            print("replay:", f"still fails: {c[0]} - {c[1]}" if c else "property holds on this history now")
            return 1 if c else 0
        if r.get("kind") == "fallback":
            self.oracle_fallback()
            hit = [f for f in self.findings if f.replay["executor"] == r["executor"]]
            for f in hit:
                print("replay: still fails:", f.key, "-", f.what[:400])
            if not hit:
                print("replay: property holds on the preemption-free executions now")
            return 1 if hit else 0
        print("replay: nothing to replay (no failing input was found); broken obligations:",
              json.dumps(doc.get("broken_obligations", []))[:2000])
        return 1
