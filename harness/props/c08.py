"""C08 — Resource limits are never exceeded."""
from __future__ import annotations

import random

from harness import jobcheck, sched
from harness.lib import Finding, PropertyCheck
from harness.progs import vm

# limited parent returns a failing child; then two limited jobs (the Coq witness c08_witness)
WITNESS = ("root", "list", 0, (
    ("c", "catch", 0, (("p", "list", 0, (("f", "raise", "boom", (), None),), {"limits": {"r0": 1}}),), None),
    ("s", "seq", 0, (("w1", "leaf", 1, (), {"limits": {"r0": 1}}), ("w2", "leaf", 2, (), {"limits": {"r0": 1}})), None),
), None)


def resource_violations(out):
    """Implementation oracle on one run: at every snapshot limits_used must be within [0, limit]."""
    bad = []
    lim = [out["limits"][r] for r in jobcheck.RES]
    for idx, (op, ob) in enumerate(out["trace"]):
        if ob is None:
            continue
        for r, u in enumerate(ob["used"]):
            if u < 0 or u > lim[r]:
                bad.append((idx, r, u, lim[r]))
                break
    return bad


def leaked_units(out):
    """Units are returned exactly once: when nothing is with an executor any more (the run returned, raised, or
    ended with jobs waiting and nothing running), no unit may still be counted as used."""
    s = out["scheduler"]
    used = {k: v for k, v in s.limits_used.items() if v}
    if not used:
        return None
    tr = out["tracer"]
    if "result" in out or "deadlock" in out:
        # a returned run may leave in-flight jobs of a caught failure (they hold their units legitimately)
        holders = [tr.jobid[j.id] for j in tr.jobobj if getattr(j, "holds_limits", False)]
        if holders:
            return None
        return used
    return None


class Check(PropertyCheck):
    id = "C08"
    module = "Props.C08"
    extra_modules = ["Model.JobTrace"]
    theorems = ["C08_limits_never_exceeded", "C08_no_units_leaked", "C08_cached_hold_nothing", "C08_collapsed_hold_nothing",
                "C08_released_once", "C08_refuted_as_shipped", "C08_witness_fixed", "C08_nonvacuous"]
    assumptions = [
        "job demands are well formed (unique resource names, counts >= 0) and configured limits are >= 0 (premises of the theorem)",
        "the model lets any queued event be processed next (superset of the FIFO loop) and leaves the evaluation of result expressions, executor completions and old cache entries to the schedule",
    ]
    rule = ("random programs over a generic task (lists, seq, catch, twins, failing leaves, limits on 2 resources, "
            "cache_scope NONE/CSE, prov=False) run on the real Scheduler with a controlled executor under a seeded "
            "completion schedule; non-trivial = at least 3 jobs; distinct by program spec")

    variant = None

    def translate(self):
        p, self.variant = jobcheck.translate_variant("C08", "")
        tie = ("Lemma C08_tie : release_if_holds gen_variant = true.\nProof. reflexivity. Qed.\n"
               if self.variant["release_if_holds"] else
               "(* the current code releases iff not was_cached: C08_refuted_as_shipped is the applicable theorem *)\n"
               "Lemma C08_tie_shipped : release_if_holds gen_variant = false.\nProof. reflexivity. Qed.\n")
        p.write_text(p.read_text() + tie)
        return [p]

    def correspond(self):
        n = 100 if self.tier == "quick" else 1500
        if self.variant is None:
            # translator failed closed: no model variant to compare with; still generate runs for the search
            self.runs = [jobcheck.random_run(self.rng, infeasible=0.15) for _ in range(n)]
            return
        self.runs, self.failing = jobcheck.correspond_traces(self, self.variant, n, "C08", infeasible=0.15)

    def oracle(self):
        # 1. the Coq witness replayed on the real code
        rng = random.Random(self.seed)
        out = sched.run_program(lambda: vm.call(WITNESS), {"r0": 1, "r1": 1}, rng, complete_prob=0.0)
        out["limits"] = {"r0": 1, "r1": 1}
        runs = [("witness", WITNESS, out)] + [("random", o["spec"], o) for o in getattr(self, "runs", [])]
        # jobs with limits that are rejected BEFORE they reach an executor (unknown executor name), the error caught so
        # that the execution goes on and other jobs contend for the same resource (seeded change C08b); oracle only
        for i in range(12 if self.tier == "quick" else 200):
            lim = {"r0": rng.choice([1, 2]), "r1": 1}
            dem = lambda: {"limits": {"r0": 1}} if rng.random() < 0.7 else {"limits": {"r0": 1, "r1": 1}}
            kids = []
            for j in range(rng.randint(3, 6)):
                if rng.random() < 0.35:
                    bad_leaf = (f"px{i}_{j}", "leaf", j, (), {**dem(), "executor": "no_such_executor"})
                    kids.append((f"pc{i}_{j}", "catchany", 0, (bad_leaf,), None))
                else:
                    kids.append((f"pl{i}_{j}", "leaf", j, (), dem()))
            spec = (f"pn{i}", "list", 0, tuple(kids), None)
            o = sched.run_program(lambda: vm.call(spec), lim, rng, complete_prob=rng.choice([0.1, 0.5]))
            o["limits"] = lim
            runs.append(("pre-executor-reject", spec, o))
        # a resource closed in the configuration (limit 0): a job asking for it must never be admitted (it waits; the
        # controlled loop ends such a run as a deadlock), while jobs on other resources go on (seeded change C08d)
        for i in range(4 if self.tier == "quick" else 40):
            lim = {"r0": 0, "r1": rng.choice([1, 2])}
            kids = [(f"zc{i}", "leaf", 0, (), {"limits": rng.choice([{"r0": 1}, {"r0": 1, "r1": 1}, ["r0"]])})]
            kids += [(f"zo{i}_{j}", "leaf", j, (), {"limits": {"r1": 1}}) for j in range(rng.randint(1, 3))]
            rng.shuffle(kids)
            spec = (f"zn{i}", "list", 0, tuple(kids), None)
            o = sched.run_program(lambda: vm.call(spec), lim, rng, complete_prob=rng.choice([0.1, 0.5]))
            o["limits"] = lim
            runs.append(("closed-resource", spec, o))
        nviol = 0
        for kind, spec, o in runs:
            bad = resource_violations(o)
            self.evaluations += 1
            if not bad:
                continue
            nviol += 1
            idx, r, u, lim = bad[0]
            # the known shape: a job released by _done_job_main_thread and again by _reject_job_main_thread
            twice = double_release_jobs(o)
            key = "double-release:done-then-reject" if twice else f"exceeded:{spec!r}"[:200]
            self.findings.append(Finding(key, f"limits_used[{jobcheck.RES[r]}] = {u} outside [0, {lim}] at step {idx}",
                                         {"kind": kind, "spec": repr(spec), "limits": o["limits"], "step": idx,
                                          "used": u, "limit": lim, "double_released_jobs": twice}))
        nleak = 0
        for kind, spec, o in runs:
            leak = leaked_units(o)
            if leak:
                nleak += 1
                self.findings.append(Finding(f"leaked-units:{kind}", f"limits_used = {leak} although no job holds units any "
                                             f"more (run ended: {[k for k in ('result', 'error', 'deadlock') if k in o]})",
                                             {"kind": kind, "spec": repr(spec), "limits": o["limits"], "used": leak}))
        self.stat("oracle", "runs_with_leak", nleak)
        self.stat("oracle", "runs", len(runs))
        self.stat("oracle", "runs_with_violation", nviol)
        expected = self.variant is not None and not self.variant["release_if_holds"]
        self.ob("oracle", "implementation oracle ran (limits_used within [0, limit] at every step of every run)", True)
        if not expected and nviol:
            pass  # a finding on code that the translator classifies as repaired: reported as VIOLATION by lib
        if expected and not any(f.key == "double-release:done-then-reject" for f in self.findings):
            self.ob("tie-witness", "C08_refuted_as_shipped witness reproduces on the real code (as-shipped variant)", False,
                    "translator says as-shipped but the witness did not reproduce")

    def replay(self, doc):
        r = doc.get("replay", {})
        if "spec" in r:
            spec = eval(r["spec"])
            for sd in range(20):
                out = sched.run_program(lambda: vm.call(spec), r["limits"], random.Random(sd))
                out["limits"] = r["limits"]
                if resource_violations(out):
                    print("replay: still fails with schedule seed", sd)
                    return 1
            print("replay: no violation in 20 schedules")
            return 0
        print("replay: nothing to replay:", doc.get("broken_obligations"))
        return 1


def double_release_jobs(out):
    """Model-independent: jobs for which a Done pop (of a non-cached job) is later followed by a Reject pop."""
    done, twice = set(), []
    cached = set()
    tr = out["tracer"]
    for op, _ in out["trace"]:
        if op[0] == "OPop" and op[1] == 1:
            done.add(op[2])
        if op[0] == "OPop" and op[1] == 2 and op[2] in done:
            j = tr.jobobj[op[2]]
            if not j.was_cached:
                twice.append(op[2])
    return twice
