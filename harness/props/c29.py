"""C29 — Script tasks run exactly the given command with correct staging."""
from __future__ import annotations

import json
import logging
import os
import shutil
import signal
import subprocess
import textwrap
from concurrent.futures import ThreadPoolExecutor
from pathlib import Path

from harness.lib import (CORPUS, GEN, VERIF, Finding, PropertyCheck, TranslateError, cq_list, run_bool_cases,
                         scratch_dir)
from translate import astutil, tr_scripting

PINS_FILE = VERIF / "translate" / "pins_C29.json"
BASH = shutil.which("bash") or "/bin/bash"
POOL = min(12, os.cpu_count() or 4)


# ---------------------------------------------------------------- Coq literals
def cq_s(s: str) -> str:
    return "[" + ";".join(str(ord(c)) for c in s) + "]%N" if s else "(@nil N)"


class Timeout(Exception):
    pass


def with_timeout(fn, secs=5.0):
    """Run fn() in-process; a non-terminating implementation becomes a Timeout exception."""
    def h(signum, frame):
        raise Timeout()
    old = signal.signal(signal.SIGALRM, h)
    signal.setitimer(signal.ITIMER_REAL, secs)
    try:
        return fn()
    finally:
        signal.setitimer(signal.ITIMER_REAL, 0)
        signal.signal(signal.SIGALRM, old)


# ---------------------------------------------------------------- command text generator
LINES = ["EOF", "EOF1", "EOF2", "EOF3", "EOF10", "EOF11", " EOF", "EOF ", "\tEOF", "EOF\r", "EOF01", "EOF-1", "EOF\uff11",
         "EOF1 ", "eof", "EOFEOF", "echo 'a'", 'echo "$HOME"', "echo `echo hi`", "x=$(echo x)", "\\", "a\\", "\\EOF",
         "", "  ", "\t", "'", '"', "{eof}", "{command}", "{", "}}", "{0}", "cat <<EOF", 'cat <<"EOF"', "<<\"", "#!/bin/sh",
         "#!", "# c", "\u00e9\u4e2d", "\U0001f600", "\x0b", "\x0c", "\x1c", "\u00a0", "\u0085x", "\u2028", "a\rb", "$", "$$",
         "$0", "${X:-y}", "!", "!!", "~", "*", "a;b", "a && b", "(", ")", "exit 3", "%s", "%", "\\n", "-"]
ALPH = "EOF019 \t$'\"\\`ab{}#!<\r\u00e9"


class TextGen:
    def __init__(self, rng):
        self.rng = rng

    def line(self):
        r = self.rng
        if r.random() < 0.8:
            return r.choice(LINES)
        return "".join(r.choice(ALPH) for _ in range(r.randint(0, 7)))

    def body(self):
        r = self.rng
        mode = r.random()
        if mode < 0.2:  # push the index up: EOF, EOF1 .. EOFk (shuffled), maybe with a gap
            k = r.choice([1, 2, 3, 5, 9, 10, 11, 12, 13])
            ls = ["EOF"] + [f"EOF{i}" for i in range(1, k)]
            if r.random() < 0.3 and len(ls) > 2:
                del ls[r.randrange(1, len(ls))]
            ls += [self.line() for _ in range(r.randint(0, 3))]
            r.shuffle(ls)
        else:
            ls = [self.line() for _ in range(r.randint(0, 8))]
        ind = r.choice(["", "", "  ", "\t", "    ", " \t"])
        return [ind + l if r.random() < 0.85 else l for l in ls]

    def text(self, observable=None):
        """observable: None | 'cat' (shebang /bin/cat) | 'bash' (default shell, prints itself)"""
        r = self.rng
        ls = self.body()
        if observable == "cat":
            ls = [r.choice(["", "  ", "\t"]) + "#!/bin/cat"] + ls
        elif observable == "bash":
            ls = [r.choice(["", "  "]) + 'cat "$0"; exit 0'] + ls
        elif r.random() < 0.25:
            ls = [r.choice(["#!/bin/sh", "#!/usr/bin/env python", "  #!/bin/sh", "#! x", "#", "!#/bin/sh"])] + ls
        head = r.choice(["", "", "\n", "\n\n", "  \n", "\n\t\n"])
        tail = r.choice(["", "", "\n", "\n  ", " ", "\n\n", "\t"])
        return head + "\n".join(ls) + tail


# ---------------------------------------------------------------- nested structures
PATHS = ["a.txt", "in/b c.txt", "x'y", "data-1_2.tsv", "/tmp/r/\u00e9.txt", "out", "d1", "p$q", "semi;colon", "a=b:c,d@e%f+g",
         "", "sp ace/x", "q\"uote", "back\\slash", "l1", "l2", "r/1", "r/2", "~", "*.txt"]


class StructGen:
    def __init__(self, rng):
        self.rng = rng

    def path(self):
        return self.rng.choice(PATHS)

    def staging(self):
        r = self.rng
        k = "SF" if r.random() < 0.7 else "SD"
        l, rm = self.nonempty_path(), self.nonempty_path()
        if r.random() < 0.2:
            rm = l
        return (k, l, rm)

    def nonempty_path(self):
        while True:
            p = self.path()
            if p:
                return p

    def leaf(self, role):
        r = self.rng
        x = r.random()
        if role == "in":
            if x < 0.88:
                return self.staging()
            if x < 0.93:
                return ("F", self.nonempty_path())
            return r.choice([("I", r.randrange(5)), ("S", r.randrange(4)), ("D", self.nonempty_path())])
        if x < 0.4:
            return self.staging()
        if x < 0.6:
            return ("F", self.nonempty_path())
        if x < 0.72:
            return ("F", "-")
        if x < 0.8:
            return ("D", self.nonempty_path())
        return r.choice([("I", r.randrange(5)), ("S", r.randrange(4))])

    def value(self, role, depth):
        r = self.rng
        if depth <= 0 or r.random() < 0.35:
            return self.leaf(role)
        n = r.choice([0, 1, 1, 2, 2, 3])
        k = r.random()
        if k < 0.45:
            return ("list", [self.value(role, depth - 1) for _ in range(n)])
        if k < 0.7:
            return ("tuple", [self.value(role, depth - 1) for _ in range(n)])
        keys = r.sample([("S", i) for i in range(4)] + [("I", i) for i in range(5)], n)
        if role == "in" and r.random() < 0.5:
            return ("list", [self.value(role, depth - 1) for _ in range(n)])
        return ("dict", [(kk, self.value(role, depth - 1)) for kk in keys])


STRS = ["k0", "k1", "reads", "log"]


class Result:  # sentinel for the script's stdout
    def __repr__(self):
        return "<RESULT>"


RESULT = Result()


def build(d):
    """description -> real redun objects"""
    from redun import Dir, File
    from redun.file import StagingDir, StagingFile
    t = d[0]
    if t == "SF":
        return StagingFile(d[1], d[2])
    if t == "SD":
        return StagingDir(d[1], d[2])
    if t == "F":
        return File(d[1])
    if t == "D":
        return Dir(d[1])
    if t == "I":
        return d[1]
    if t == "S":
        return STRS[d[1]]
    if t == "list":
        return [build(x) for x in d[1]]
    if t == "tuple":
        return tuple(build(x) for x in d[1])
    if t == "dict":
        return {build(k): build(v) for k, v in d[1]}
    raise TypeError(d)


def describe(v):
    """real objects -> description (exact types)"""
    from redun import Dir, File
    from redun.file import StagingDir, StagingFile
    if v is RESULT:
        return ("R",)
    if type(v) is StagingFile:
        if type(v.local) is not File or type(v.remote) is not File:
            raise TypeError(("staging file parts", v))
        return ("SF", v.local.path, v.remote.path)
    if type(v) is StagingDir:
        if type(v.local) is not Dir or type(v.remote) is not Dir:
            raise TypeError(("staging dir parts", v))
        return ("SD", v.local.path, v.remote.path)
    if type(v) is File:
        return ("F", v.path)
    if type(v) is Dir:
        return ("D", v.path)
    if type(v) is int:
        return ("I", v)
    if type(v) is str:
        return ("S", STRS.index(v))
    if type(v) is list:
        return ("list", [describe(x) for x in v])
    if type(v) is tuple:
        return ("tuple", [describe(x) for x in v])
    if type(v) is dict:
        return ("dict", [(describe(k), describe(x)) for k, x in v.items()])
    raise TypeError(v)


def cq_leaf(d):
    t = d[0]
    if t in ("SF", "SD"):
        return f"(LStaging {'KFile' if t == 'SF' else 'KDir'} {cq_s(d[1])} {cq_s(d[2])})"
    if t == "F":
        return f"(LFile {cq_s(d[1])})"
    if t == "D":
        return f"(LDir {cq_s(d[1])})"
    if t == "I":
        return f"(LOther {d[1]}%N)"
    if t == "S":
        return f"(LOther {1000 + d[1]}%N)"
    raise TypeError(d)


def cq_nv(d):
    t = d[0]
    if t == "list":
        return f"(NList {cq_list([cq_nv(x) for x in d[1]])})"
    if t == "tuple":
        return f"(NTuple {cq_list([cq_nv(x) for x in d[1]])})"
    if t == "dict":
        return "(NDict " + cq_list([f"({cq_nv(k)}, {cq_nv(v)})" for k, v in d[1]]) + ")"
    return f"(Leaf {cq_leaf(d)})"


def cq_ov(d):
    """a *returned* structure; File/Dir objects are written in normalised form (ORemote)"""
    t = d[0]
    if t == "list":
        return f"(OList {cq_list([cq_ov(x) for x in d[1]])})"
    if t == "tuple":
        return f"(OTuple {cq_list([cq_ov(x) for x in d[1]])})"
    if t == "dict":
        return "(ODict " + cq_list([f"({cq_ov(k)}, {cq_ov(v)})" for k, v in d[1]]) + ")"
    if t == "R":
        return "(OLeaf OResult)"
    if t == "F":
        return f"(OLeaf (ORemote KFile {cq_s(d[1])}))"
    if t == "D":
        return f"(OLeaf (ORemote KDir {cq_s(d[1])}))"
    return f"(OLeaf (OSame {cq_leaf(d)}))"


def leaves_lr(d):
    t = d[0]
    if t in ("list", "tuple"):
        return [l for x in d[1] for l in leaves_lr(x)]
    if t == "dict":
        return [l for k, _ in d[1] for l in leaves_lr(k)] + [l for _, v in d[1] for l in leaves_lr(v)]
    return [d]


def shape(d):
    t = d[0]
    if t in ("list", "tuple"):
        return (t, [shape(x) for x in d[1]])
    if t == "dict":
        return (t, [(shape(k), shape(v)) for k, v in d[1]])
    return "leaf"


PREAMBLE = """
Definition norm_oleaf (l : oleaf) : oleaf :=
  match l with OSame (LFile p) => ORemote KFile p | OSame (LDir p) => ORemote KDir p | x => x end.
Fixpoint norm_ov (v : ov) : ov :=
  match v with
  | OLeaf l => OLeaf (norm_oleaf l)
  | OList xs => OList (map norm_ov xs)
  | OTuple xs => OTuple (map norm_ov xs)
  | ODict kvs => ODict (map (fun kv => (norm_ov (fst kv), norm_ov (snd kv))) kvs)
  end.
Definition script_agrees_n (r : script_result) (full : str) (ia : ov) (outs : nv) : bool :=
  match r with
  | ScriptOk f _ ia' outs' => str_eqb f full && ov_eqb (norm_ov ia') ia && nv_eqb outs' outs
  | _ => false
  end.
Definition eof_is (r : eof_result) (e : str) : bool := match r with EofIs x => str_eqb x e | _ => false end.
Definition wrap_is (r : wrap_result) (w : str) : bool := match r with Wrapped x => str_eqb x w | _ => false end.
Definition body_is (script : str) (o : option str) : bool :=
  match heredoc_body script, o with Some a, Some b => str_eqb a b | None, None => true | _, _ => false end.
Fixpoint nlist_eqb (a b : list N) : bool :=
  match a, b with [], [] => true | x :: a', y :: b' => N.eqb x y && nlist_eqb a' b' | _, _ => false end.
"""


def run_bash(script: str, timeout=20):
    p = subprocess.run([BASH, "-c", script], capture_output=True, timeout=timeout, stdin=subprocess.DEVNULL)
    return p.returncode, p.stdout, p.stderr


def observable(t: str) -> bool:
    """the command prints its own script file (so the file content can be compared byte for byte)"""
    return t.lstrip().startswith("#!/bin/cat") or t.lstrip().startswith('cat "$0"; exit 0')


class Check(PropertyCheck):
    id = "C29"
    module = "Props.C29"
    theorems = ["C29_eof_terminates_and_fresh", "C29_heredoc_exact", "C29_heredoc_exact_any_prefix",
                "C29_collision_would_cut", "C29_shell_choice", "C29_interpreter_line", "C29_strip_only_whitespace",
                "C29_script_rejects_iff", "C29_script_total", "C29_script_parts", "C29_staging_order",
                "C29_full_command_text", "C29_stage_direction", "C29_stage_same_path", "C29_output_shape",
                "C29_input_args_shape", "C29_nonvacuous"]
    extra_modules = ["Model.Script"]
    allowed_axioms = []
    section_premises = []
    assumptions = [
        "textwrap.dedent is an arbitrary function in the theorems (universally quantified); the correspondence run passes CPython's result",
        "the wrapper is interpreted by bash (DEFAULT_SHELL is prepended by get_task_command in every executor): a here-document with a "
        "quoted delimiter is copied without expansion up to the first line equal to the delimiter (POSIX 2.7.4); the shell model "
        "(Model/Script.v sh_scan) is compared with bash on generated scripts, including colliding delimiters",
        "a Python str is a list of code points; splitting at U+000A and comparing lines commute with UTF-8 encoding; command texts "
        "contain no NUL and no lone surrogates (they cannot be written to the script file)",
        "CPython: str.isspace table, str(int) canonical decimal, str.format copies replacement values verbatim, shlex.quote/join "
        "(hand-modelled, re-tested every run)",
        "staging commands are modelled for local paths (LocalFileSystem.shell_copy: cp / cp -r); other filesystems only share the "
        "order/direction logic extracted by the translator",
        "nested values: list / tuple / dict (keys are leaves); set, namedtuple and dataclass containers are not generated",
        "dash 0.5.12 (/bin/sh here) drops a byte >= 0x80 that follows a prefix of the delimiter inside a here-document; redun never "
        "has dash read the wrapper, the check uses bash as redun does",
    ]
    rule = ("command texts: lines drawn from a pool (EOF, EOF1.., EOF with blanks/CR/fullwidth digit, quotes, $, backticks, "
            "backslashes, {eof}/{command}, nested heredocs, shebangs, Unicode blanks) with random indentation and surrounding blank "
            "lines, plus runs EOF..EOFk that push the index past 10; structures: random list/tuple/dict nests of StagingFile/"
            "StagingDir/File/Dir/int/str leaves; a case is non-trivial if the text has a line starting with EOF or the structure "
            "has a staging leaf; distinct by repr")

    # ------------------------------------------------------------------
    def translate(self):
        pins = json.loads(PINS_FILE.read_text())
        try:
            text, _ = tr_scripting.translate(pins=pins)
        except astutil.TranslateError as e:
            raise TranslateError(str(e))
        GEN.mkdir(exist_ok=True)
        p = GEN / "C29Gen.v"
        p.write_text(text)
        return [p]

    # ------------------------------------------------------------------
    def n(self, quick, thorough):
        return quick if self.tier == "quick" else thorough

    def corpus_texts(self):
        out = []
        p = CORPUS / "C29.jsonl"
        if p.exists():
            for line in p.read_text().splitlines():
                if line.strip():
                    d = json.loads(line)
                    if d.get("kind") == "text":
                        out.append(d["text"])
        return out

    def correspond(self):
        logging.getLogger("redun").setLevel(logging.CRITICAL)
        from redun import scripting
        from redun.scripting import get_command_eof, get_wrapped_command, prepare_command, script
        import shlex
        tg = TextGen(self.rng)
        sg = StructGen(self.rng)
        terms, descr = [], []

        def add(term, d):
            terms.append(term)
            descr.append(d)

        import time as _t
        t_last = [_t.time()]

        def mark(name):
            self.stat("timing_s", name, round(_t.time() - t_last[0], 1))
            t_last[0] = _t.time()

        # G. the isspace table
        spaces = [c for c in range(0x110000) if chr(c).isspace()]
        add(f"nlist_eqb space_points [{';'.join(map(str, spaces))}]%N", ("isspace-table",))
        hung = []

        # A. prepare_command
        texts = self.corpus_texts() + [tg.text() for _ in range(self.n(450, 4000))]
        for i, t in enumerate(texts):
            d = textwrap.dedent(t)
            if i % 7 == 3:
                ds = self.rng.choice(["#!/bin/sh\n\n", "#!/bin/cat", "", "\n", "#!/bin/sh\n \n", "x\n\n\n"])
                p = prepare_command(t, ds)
                add(f"str_eqb (prepare_command_with (fun _ => {cq_s(d)}) {cq_s(ds)} {cq_s(t)}) {cq_s(p)}", ("prepare", t, ds))
            else:
                p = prepare_command(t)
                add(f"str_eqb (prepare_command (fun _ => {cq_s(d)}) {cq_s(t)}) {cq_s(p)}", ("prepare", t))
            self.stat("prepare", "shebang" if textwrap.dedent(t).strip().startswith("#!") else "default-shell")
            self.count(("prepare", t) if "EOF" in t else None)
            self.sample({"op": "prepare_command", "text": t[:120], "result": p[:120]}, 2)

        # B/C. get_command_eof, get_wrapped_command on prepared and raw texts, several prefixes
        for i in range(self.n(450, 4000)):
            t = tg.text()
            c = prepare_command(t) if i % 3 else t
            prefix = "EOF" if i % 4 else self.rng.choice(["X", "", "E O", "1", "EOF1", "\u00e9", "EOF\uff11", "'", "$"])
            try:
                e = with_timeout(lambda: get_command_eof(c, prefix))
                w = with_timeout(lambda: get_wrapped_command(c, prefix))
            except Timeout:
                hung.append((c, prefix))
                continue
            add(f"eof_is (get_command_eof {cq_s(c)} {cq_s(prefix)}) {cq_s(e)}", ("eof", c, prefix))
            if i % 2 == 0:
                add(f"wrap_is (get_wrapped_command {cq_s(c)} {cq_s(prefix)}) {cq_s(w)}", ("wrap", c, prefix))
            self.stat("eof_chosen", e if len(e) < 8 else "other")
            self.count(("eof", c, prefix) if any(l.startswith(prefix) for l in c.split("\n")) else None)
            self.sample({"op": "get_command_eof", "command": c[:120], "prefix": prefix, "eof": e}, 4)
        if hung:
            self.ob("correspondence", "get_command_eof / get_wrapped_command terminate on generated texts", False,
                    f"no result within 5 s for {len(hung)} texts, e.g. {hung[0]!r}")
            self.hung = hung

        mark("python_side_pure_cases")
        # D. the shell model against bash: arbitrary (possibly colliding / missing) delimiters, and the real wrapper
        jobs = []
        for i in range(self.n(160, 2000)):
            lines = [tg.line() for _ in range(self.rng.randint(0, 7))]
            delim = self.rng.choice(["EOF", "EOF", "EOF1", "X", "EOF 1", "E-F"])
            if i % 3 == 1:
                lines.insert(self.rng.randint(0, len(lines)), delim)
            if delim in lines:   # nothing after the first terminator is read (exec); keep it free of further heredocs
                k = lines.index(delim)
                lines = lines[:k + 1] + [l for l in lines[k + 1:] if "<<" not in l]
            terminated = delim in lines or i % 5 != 0
            sc = f'exec cat <<"{delim}"\n' + "".join(l + "\n" for l in lines) + (delim + "\nexit 7\n" if terminated else "")
            jobs.append(("sh-model" if terminated else "sh-model-unterminated", sc, sc))
            self.stat("sh_model", "terminated" if terminated else "unterminated")
            self.count(("sh", sc))
        for i in range(self.n(100, 1200)):
            t = tg.text("cat" if i % 2 else "bash")
            jobs.append(("sh-wrapper", get_wrapped_command(prepare_command(t)), t))
            self.count(("shw", t))
        with ThreadPoolExecutor(max_workers=POOL) as ex:
            results = list(ex.map(lambda j: run_bash(j[1]), jobs))
        for (kind, sc, meta), (rc, out, err) in zip(jobs, results):
            try:
                got = out.decode("utf-8")
            except UnicodeDecodeError:
                got = None
            if kind == "sh-model-unterminated":
                add(f"body_is {cq_s(sc)} None" if b"here-document" in err else "false", (kind, sc))
            else:
                add(f"body_is {cq_s(sc)} (Some {cq_s(got)})" if got is not None else "false", (kind, meta))
            if kind == "sh-wrapper":
                self.sample({"op": "bash(wrapper)", "text": meta[:120], "stdout": out[:120].decode("utf-8", "replace")}, 6)

        mark("bash_runs")
        # H. shlex.quote / join
        for i in range(self.n(80, 600)):
            argv = [self.rng.choice(PATHS + LINES[:30]) for _ in range(self.rng.randint(1, 3))]
            add(f"str_eqb (shlex_join {cq_list([cq_s(a) for a in argv])}) {cq_s(shlex.join(argv))}", ("shlex", argv))

        # E/F. script() and postprocess_script on nested structures
        tmp = scratch_dir("c29_")
        cwd = os.getcwd()
        os.chdir(tmp)
        try:
            for i in range(self.n(320, 3000)):
                din = sg.value("in", self.rng.randint(0, 3))
                if din[0] not in ("list", "tuple", "dict"):
                    din = ("list", [din])
                dout = None if i % 9 == 0 else sg.value("out", self.rng.randint(0, 3))
                cmd = tg.text()
                as_list = i % 6 == 0
                if as_list:
                    argv = [self.rng.choice(["echo", "a b", "x'y", "$HOME", "EOF", ""]) for _ in range(self.rng.randint(1, 3))]
                    cmd_py, joined = argv, shlex.join(argv)
                    cq_cmd = f"(shlex_join {cq_list([cq_s(a) for a in argv])})"
                else:
                    cmd_py, joined, cq_cmd = cmd, cmd, cq_s(cmd)
                tempdir = i % 4 == 0
                kw = {} if dout is None else {"outputs": build(dout)}
                cq_out = "None" if dout is None else f"(Some {cq_nv(dout)})"
                ded = f"(fun _ => {cq_s(textwrap.dedent(joined))})"
                try:
                    expr = script(cmd_py, inputs=build(din), tempdir=tempdir, **kw)
                except AttributeError:
                    add(f"script_raises (script {ded} {cq_cmd} {cq_nv(din)} {cq_out} None)", ("script-raises", din))
                    self.stat("script", "AttributeError")
                    continue
                full, ia, outs = expr.args
                tp = expr.kwargs.get("temp_path")
                if tp:
                    shutil.rmtree(tp, ignore_errors=True)
                post = scripting.postprocess_script.func(RESULT, outs)
                add(f"script_agrees_n (script {ded} {cq_cmd} {cq_nv(din)} {cq_out} {('(Some ' + cq_s(tp) + ')') if tp else 'None'}) "
                    f"{cq_s(full)} {cq_ov(describe(ia))} {cq_nv(describe(outs))}", ("script", cmd_py, din, dout, tempdir))
                add(f"ov_eqb (norm_ov (postprocess_script {cq_nv(describe(outs))})) {cq_ov(describe(post))}", ("postprocess", dout))
                self.stat("script", "ok")
                self.stat("script_inputs_leaves", min(len(leaves_lr(din)), 6))
                self.count(("script", repr((cmd_py, din, dout))) if any(l[0] in ("SF", "SD") for l in leaves_lr(din)) else None)
                self.sample({"op": "script", "inputs": repr(din)[:150], "outputs": repr(dout)[:150], "full_command": full[:80]}, 8)
        finally:
            os.chdir(cwd)
            shutil.rmtree(tmp, ignore_errors=True)

        mark("script_structures")
        ok, failing, diags = run_bool_cases("C29", ["Model.Script"], PREAMBLE, terms, chunk=150)
        mark("coq_evaluation")
        self.ob("correspondence",
                f"model == scripting.py / file.py / bash on {len(terms)} generated cases (prepare_command, get_command_eof, "
                f"get_wrapped_command, here-document reader vs bash, shlex, script(), postprocess_script, isspace table)",
                ok and not failing, "\n".join(diags) + "".join(f"\nmismatch: {descr[i]!r}"[:600] for i in failing[:10]))
        self.mismatches = [descr[i] for i in failing]

    # ------------------------------------------------------------------ oracle (implementation only)
    def check_text_pure(self, t):
        """Decide the command-text half of the property for one text on the real code, without executing
        anything. Returns (why, prepared, wrapper)."""
        from redun.scripting import get_command_eof, get_wrapped_command, prepare_command
        try:
            p = with_timeout(lambda: prepare_command(t))
        except Timeout:
            return "prepare_command does not terminate", None, None
        d = textwrap.dedent(t).strip()
        want = d if d.startswith("#!") else "#!/usr/bin/env bash\nset -exo pipefail\n" + d
        if p != want:
            return f"prepared command is {p!r}, expected {want!r} (dedented text, default shell unless shebang)", None, None
        try:
            e = with_timeout(lambda: get_command_eof(p))
            w = with_timeout(lambda: get_wrapped_command(p))
        except Timeout:
            return "get_command_eof does not terminate", None, None
        if e in p.split("\n"):
            return f"terminator {e!r} equals a line of the command", None, None
        return None, p, w

    @staticmethod
    def check_text_exec(p, w):
        """The route redun takes: the wrapper inside a script task -> prepare_command -> exec_script (bash);
        the user command prints its own file, which must be the prepared text plus a newline."""
        from redun.scripting import exec_script, prepare_command
        try:
            out = exec_script(prepare_command(w))
        except Exception as ex:  # noqa
            return f"executing the wrapper failed: {type(ex).__name__}: {str(ex)[:200]}"
        if out != (p + "\n").encode("utf-8"):
            return f"command file content {out!r} differs from the command text {(p + chr(10)).encode('utf-8')!r}"
        return None

    def check_text(self, t, run=True):
        why, p, w = self.check_text_pure(t)
        if why is None and run:
            why = self.check_text_exec(p, w)
        return why

    def check_structure(self, cmd, din, dout, tempdir):
        """Decide the staging/shape half for one call of script() on the real code (no execution)."""
        from redun import scripting
        from redun.scripting import get_wrapped_command, prepare_command, script
        kw = {} if dout is None else {"outputs": build(dout)}
        in_leaves = leaves_lr(din)
        all_staging = all(l[0] in ("SF", "SD") for l in in_leaves)
        try:
            expr = script(cmd, inputs=build(din), tempdir=tempdir, **kw)
        except AttributeError:
            return None if not all_staging else "script() raised AttributeError although every input is a staging object"
        tp = expr.kwargs.get("temp_path")
        if tp:
            shutil.rmtree(tp, ignore_errors=True)
        if not all_staging:
            return None   # the code accepted more than the model's domain; nothing the property forbids
        full, ia, outs = expr.args
        w = get_wrapped_command(prepare_command(cmd))
        if full.count(w) != 1:
            return "the wrapped user command does not occur exactly once in the full command"
        pos = full.index(w)
        before, after = full[:pos], full[pos + len(w):]
        if before and not before.endswith("\n") or after and not after.startswith("\n"):
            return "the wrapped command does not start/end at a line boundary"
        pre_lines = before.split("\n")[:-1] if before else []
        post_lines = after.split("\n")[1:] if after else []
        for l in in_leaves:
            obj = build(l)
            line = obj.render_stage()
            exp = "" if l[1] == l[2] else obj.remote.shell_copy_to(obj.local.path)
            if line != exp:
                return f"render_stage of {l} is {line!r}, expected the copy remote -> local {exp!r}"
            if line not in pre_lines:
                return f"input {l} is not staged before the command"
        want_out = ("F", "-") if dout is None else dout
        out_leaves = leaves_lr(want_out)
        for l in out_leaves:
            if l[0] in ("SF", "SD"):
                obj = build(l)
                line = obj.render_unstage()
                exp = "" if l[1] == l[2] else obj.local.shell_copy_to(obj.remote.path)
                if line != exp:
                    return f"render_unstage of {l} is {line!r}, expected the copy local -> remote {exp!r}"
                if line not in post_lines:
                    return f"output {l} is not unstaged after the command"
        n_copy = sum(1 for l in in_leaves if l[1] != l[2])
        if sum(1 for x in pre_lines if x.startswith("cp ")) != n_copy:
            return "the number of stage commands before the command differs from the number of inputs to copy"
        n_copy = sum(1 for l in out_leaves if l[0] in ("SF", "SD") and l[1] != l[2])
        if sum(1 for x in post_lines if x.startswith("cp ")) != n_copy:
            return "the number of unstage commands after the command differs from the number of outputs to copy"
        # returned value
        post = describe(scripting.postprocess_script.func(RESULT, outs))
        if shape(post) != shape(want_out):
            return "the returned value is not shaped like outputs"

        def final(l):
            if l == ("F", "-"):
                return ("R",)
            if l[0] == "SF":
                return ("F", l[2])
            if l[0] == "SD":
                return ("D", l[2])
            return l
        if leaves_lr(post) != [final(l) for l in out_leaves]:
            return f"returned leaves {leaves_lr(post)} differ from the expected {[final(l) for l in out_leaves]}"
        return None

    def check_e2e(self, seed):
        """Run script() through a real Scheduler on real files; returns None or a description."""
        import random
        from redun import File, Scheduler, script
        r = random.Random(seed)
        tmp = scratch_dir("c29e_")
        cwd = os.getcwd()
        os.chdir(tmp)
        try:
            os.makedirs("remote/in")
            os.makedirs("remote/out")
            n_in, n_out = r.randint(1, 3), r.randint(1, 3)
            contents = [f"content-{seed}-{i}-" + "".join(r.choice("abc$'\" \n") for _ in range(r.randint(0, 12))) for i in range(n_in)]
            ins = []
            for i, c in enumerate(contents):
                File(f"remote/in/i{i}").write(c)
                ins.append(File(f"remote/in/i{i}").stage(f"local_in{i}"))
            outs = {f"o{j}": File(f"remote/out/o{j}").stage(f"local_out{j}") for j in range(n_out)}
            lines = [f"cat {' '.join(f'local_in{i}' for i in range(n_in))} > local_out{j}; printf 'tag{j}' >> local_out{j}"
                     for j in range(n_out)]
            lines.append("printf 'stdout-%s' \"$(cat local_in0 | wc -c)\"")
            lines.append("test ! -e remote/out/o0")       # outputs are not unstaged before the command ends
            tempdir = bool(seed % 2)
            if tempdir:   # local paths are relative to the temp dir; remote ones must be absolute
                ins = [File(os.path.abspath(f"remote/in/i{i}")).stage(f"local_in{i}") for i in range(n_in)]
                outs = {f"o{j}": File(os.path.abspath(f"remote/out/o{j}")).stage(f"local_out{j}") for j in range(n_out)}
                lines[-1] = f"test ! -e {os.path.abspath('remote/out/o0')}"
            same_name = tempdir and seed % 4 == 1
            if same_name:
                # the remote file lives in the directory the expression is built in and is staged under its own basename:
                # inside the temp dir the relative local path is a different file, so the copies are needed (seeded
                # change C29d: "no staging needed" decided by comparing absolute paths at build time)
                for i, c in enumerate(contents):
                    File(f"local_in{i}").write(c)
                ins = [File(os.path.abspath(f"local_in{i}")).stage(f"local_in{i}") for i in range(n_in)]
                outs = {f"o{j}": File(os.path.abspath(f"local_out{j}")).stage(f"local_out{j}") for j in range(n_out)}
                lines[-1] = f"test ! -e {os.path.abspath('local_out0')}"
            nested_in = [ins[0], tuple(ins[1:])] if seed % 3 else ins
            outputs = {"files": outs, "stdout": File("-"), "n": [1, (2,)]}
            expr = script("\n".join("    " + l for l in lines), inputs=nested_in, outputs=outputs, tempdir=tempdir)
            sch = Scheduler()
            sch.load()
            try:
                res = sch.run(expr)
            except Exception as ex:  # noqa
                return f"script with {n_in} staged inputs failed: {type(ex).__name__}: {str(ex)[:300]}"
            want_len = len(contents[0].encode())
            if not (isinstance(res, dict) and list(res) == ["files", "stdout", "n"] and res["n"] == [1, (2,)]):
                return f"returned value {res!r} is not shaped like outputs"
            if res["stdout"] != f"stdout-{want_len}".encode():
                return f"the stdout file was replaced by {res['stdout']!r}, expected the command's output"
            for j in range(n_out):
                f = res["files"].get(f"o{j}")
                if type(f) is not File or os.path.abspath(f.path) != os.path.abspath(f"local_out{j}" if same_name else f"remote/out/o{j}"):
                    return f"output o{j} was returned as {f!r}, expected the remote file"
                if not os.path.exists(f.path) or open(f.path).read() != "".join(contents) + f"tag{j}":
                    return f"remote output o{j} does not hold what the command wrote"
            return None
        finally:
            os.chdir(cwd)
            shutil.rmtree(tmp, ignore_errors=True)

    def oracle(self):
        logging.getLogger("redun").setLevel(logging.CRITICAL)
        tg = TextGen(self.rng)
        sg = StructGen(self.rng)
        n0 = len(self.findings)
        ntext = nrun = nstruct = 0
        import time as _t
        t_last = [_t.time()]

        def mark(name):
            self.stat("timing_s", name, round(_t.time() - t_last[0], 1))
            t_last[0] = _t.time()

        # corpus and fixed small scope first
        fixed = self.corpus_texts() + [
            "EOF", "EOF\nEOF1", "#!/bin/cat\nEOF\nEOF1\nEOF2", "#!/bin/cat\n$HOME `id` $(id) \\\n'\"", "  #!/bin/cat\n  a\n   b\n",
            "#!/bin/cat\n" + "\n".join(["EOF"] + [f"EOF{i}" for i in range(1, 13)]), "#!/bin/cat\n{eof}\n{command}\n{}",
            "cat \"$0\"; exit 0\nEOF\n$X", "#!/bin/cat\nEOF\r\nEOF \n EOF", "#!/bin/cat\ncat <<\"EOF\"\nx\nEOF\n",
        ]
        for hc, hp in getattr(self, "hung", [])[:3]:
            self.findings.append(Finding(f"eof-hang:{hc!r}:{hp!r}"[:300], "get_command_eof does not terminate",
                                         {"kind": "eof", "command": hc, "prefix": hp}))
        texts = fixed + [tg.text(("cat", "bash", None)[j % 3]) for j in range(self.n(180, 3000))]
        to_run = []
        for t in texts:
            why, p, w = self.check_text_pure(t)
            ntext += 1
            if why:
                self.findings.append(Finding(f"text:{t!r}"[:300], why, {"kind": "text", "text": t, "why": why}))
                if len(self.findings) - n0 > 5:
                    break
            elif observable(t):
                to_run.append((t, p, w))
        with ThreadPoolExecutor(max_workers=POOL) as ex:
            whys = list(ex.map(lambda x: self.check_text_exec(x[1], x[2]), to_run))
        nrun = len(to_run)
        for (t, p, w), why in zip(to_run, whys):
            if why and len(self.findings) - n0 <= 5:
                self.findings.append(Finding(f"text:{t!r}"[:300], why, {"kind": "text", "text": t, "why": why}))
        mark("oracle_texts")
        tmp = scratch_dir("c29o_")
        cwd = os.getcwd()
        os.chdir(tmp)
        try:
            for i in range(self.n(400, 5000)):
                din = sg.value("in", self.rng.randint(0, 3))
                if din[0] not in ("list", "tuple", "dict"):
                    din = ("list", [din])
                dout = None if i % 9 == 0 else sg.value("out", self.rng.randint(0, 3))
                cmd = tg.text()
                why = self.check_structure(cmd, din, dout, i % 5 == 0)
                nstruct += 1
                if why:
                    self.findings.append(Finding(f"script:{din!r}:{dout!r}"[:300], why,
                                                 {"kind": "structure", "command": cmd, "inputs": din, "outputs": dout,
                                                  "tempdir": i % 5 == 0, "why": why}))
                    if len(self.findings) - n0 > 8:
                        break
        finally:
            os.chdir(cwd)
            shutil.rmtree(tmp, ignore_errors=True)
        mark("oracle_structures")
        ne2e = 0
        for k in range(self.n(5, 60)):
            # the first runs cover each layout once: plain, temp dir, temp dir with same-basename staging
            seed = (2, 3, 5)[k] + 4 * self.rng.randrange(10 ** 5) if k < 3 else self.rng.randrange(10 ** 6)
            why = self.check_e2e(seed)
            ne2e += 1
            if why:
                self.findings.append(Finding(f"e2e:{why}"[:200], why, {"kind": "e2e", "seed": seed, "why": why}))
                break
        mark("oracle_scheduler_runs")
        self.evaluations += ntext + nstruct + ne2e
        self.stat("oracle", "texts", ntext)
        self.stat("oracle", "texts_executed_through_exec_script", nrun)
        self.stat("oracle", "script_structures", nstruct)
        self.stat("oracle", "scheduler_runs_on_real_files", ne2e)
        self.ob("oracle", f"implementation oracle: {ntext} command texts ({nrun} executed, command file compared byte for byte), "
                f"{nstruct} script() structures (order, direction, returned shape), {ne2e} scheduler runs on real files",
                len(self.findings) == n0, "; ".join(f.what for f in self.findings[n0:n0 + 5]))

    # ------------------------------------------------------------------
    def replay(self, doc):
        logging.getLogger("redun").setLevel(logging.CRITICAL)
        r = doc.get("replay", {})

        def tup(x):
            if isinstance(x, list) and x and isinstance(x[0], str) and x[0] in ("list", "tuple"):
                return (x[0], [tup(y) for y in x[1]])
            if isinstance(x, list) and x and x[0] == "dict":
                return ("dict", [(tup(k), tup(v)) for k, v in x[1]])
            return tuple(x) if isinstance(x, list) else x
        why = None
        if r.get("kind") == "text":
            t = r["text"]
            why = self.check_text(t, run=observable(t))
        elif r.get("kind") == "eof":
            from redun.scripting import get_command_eof
            try:
                e = with_timeout(lambda: get_command_eof(r["command"], r["prefix"]))
                why = f"terminator {e!r} equals a line" if e in r["command"].split("\n") else None
            except Timeout:
                why = "get_command_eof does not terminate"
        elif r.get("kind") == "structure":
            tmp = scratch_dir("c29r_")
            cwd = os.getcwd()
            os.chdir(tmp)
            try:
                why = self.check_structure(r["command"], tup(r["inputs"]), tup(r["outputs"]) if r["outputs"] is not None else None,
                                           r["tempdir"])
            finally:
                os.chdir(cwd)
                shutil.rmtree(tmp, ignore_errors=True)
        elif r.get("kind") == "e2e":
            why = self.check_e2e(r["seed"])
        else:
            print("replay: nothing to replay (no failing input was found); broken obligations:",
                  json.dumps(doc.get("broken_obligations", []))[:2000])
            return 1
        print("replay:", why or "property holds on this input now")
        return 1 if why else 0
