"""C13 — Promises settle once and notify every callback exactly once."""
from __future__ import annotations

import json

from harness.lib import CORPUS, GEN, Finding, PropertyCheck, TranslateError, run_bool_cases
from harness.props.c13_interp import (KNOWN_ORDER_KEY, BadRef, HistGen, HistoryTimeout, cq_prog, cq_state, cq_val, run_history,
                                      small_scope)
from translate import astutil, tr_promise

# The Coq witness of C13_order_refuted (Props/C13.v, C13_witness), in the history language.
WITNESS = [["new"],
           ["then", 0, [1, [["then", 0, [3, [], ["ret", ["arg"]]], None]], ["ret", ["arg"]]], None],
           ["then", 0, [2, [], ["ret", ["arg"]]], None],
           ["resolve", 0, ["const", ["int", 1]]]]
WITNESS_SHIPPED_LOG = [(1, ["int", 1]), (3, ["int", 1]), (2, ["int", 1])]
WITNESS_FIXED_LOG = [(1, ["int", 1]), (2, ["int", 1]), (3, ["int", 1])]


def has_other(x):
    if isinstance(x, (list, tuple)):
        return (len(x) > 0 and x[0] == "other") or any(has_other(y) for y in x)
    return False


def count_acts(prog, acc, depth=0):
    for a in prog:
        acc[a[0]] = acc.get(a[0], 0) + 1
        if a[0] == "then":
            for f in (a[2], a[3]):
                if f is not None:
                    if depth == 0 and f[1]:
                        acc["callback-with-body"] = acc.get("callback-with-body", 0) + 1
                    if f[2][0] == "raise":
                        acc["raising-callback"] = acc.get("raising-callback", 0) + 1
                    elif f[2][1][0] == "const" and f[2][1][1][0] == "prom":
                        acc["promise-returning-callback"] = acc.get("promise-returning-callback", 0) + 1
                    count_acts(f[1], acc, depth + 1)
    return acc


def shrink(prog, key):
    """Greedy removal of top-level acts while the same finding key is still produced."""
    cur = list(prog)
    i = len(cur) - 1
    while i >= 0:
        cand = cur[:i] + cur[i + 1:]
        try:
            it = run_history(cand)
            if any(k == key for k, _ in it.findings):
                cur = cand
        except (BadRef, RecursionError, HistoryTimeout):
            pass
        i -= 1
    return cur


class Check(PropertyCheck):
    id = "C13"
    module = "Props.C13"
    theorems = ["C13_cfgs_good", "C13_settle_once", "C13_first_settlement_wins", "C13_callback_after_settlement",
                "C13_called_is_registered_callback", "C13_no_callback_while_pending", "C13_callback_at_most_once", "C13_callback_exactly_once",
                "C13_nothing_left_behind", "C13_order_refuted", "C13_order_fixed", "C13_order_holds_fixed",
                "C13_order_shipped_partial", "C13_nonvacuous"]
    extra_modules = ["Model.Promise", "Proofs.PromiseBase"]
    allowed_axioms = []
    section_premises = []
    assumptions = [
        "single-threaded use of Promise (as in the scheduler): the model's frame stack is the Python call stack",
        "callbacks raise only Exception subclasses (BaseException such as KeyboardInterrupt is outside the model)",
        "user callbacks are reified as finite programs (settle/register/create/all/wait acts, then return a value, "
        "return a promise, or raise); a promise is never settled *directly* with a Promise object "
        "(do_resolve(p2) followed by an identity callback recurses forever in promise.py; outside the histories here)",
        "typing.cast is the identity",
        "chained-adoption, Promise.all and wait_promises clauses are modelled and compared with the implementation and "
        "decided by the implementation oracle on every generated history, but have no Coq theorem (see Props/C13.v)",
    ]
    rule = ("histories = 1-3 root promises then 3-9 random acts (then/catch with reified callbacks up to depth 2 that "
            "settle/register/create/all/wait re-entrantly and return values, promises or raise; do_resolve/do_reject; "
            "Promise.all; wait_promises) + all histories of <= N acts over a 12-act alphabet on two promises; "
            "non-trivial = contains a then; distinct by JSON of the history")

    info = None

    # ------------------------------------------------------------------
    def translate(self):
        pins = json.loads(tr_promise.PIN_FILE.read_text())
        try:
            text, _, info = tr_promise.translate(pins=pins)
        except astutil.TranslateError as e:
            raise TranslateError(str(e))
        self.info = info
        GEN.mkdir(exist_ok=True)
        p = GEN / "C13Gen.v"
        p.write_text(text)
        return [p]

    def cfg_term(self):
        if self.info is None:
            # translator failed closed: compare against the as-shipped model so that the
            # correspondence run can still localise a behavioural change
            return "shipped"
        return "(" + self.info["cfg"] + ")"

    def corpus(self):
        out = []
        p = CORPUS / "C13.jsonl"
        if p.exists():
            for line in p.read_text().splitlines():
                if line.strip():
                    out.append(json.loads(line)["prog"])
        return out

    # ------------------------------------------------------------------
    def correspond(self):
        g = HistGen(self.rng)
        quick = self.tier == "quick"
        progs = self.corpus() + [WITNESS]
        ss = list(small_scope(3))
        if quick:
            progs += self.rng.sample(ss, 150)
        else:
            progs += ss
        for _ in range(450 if quick else 8000):
            if g.hangs >= 2:
                break
            progs.append(g.history(self.rng.randint(3, 9)))
        cfg = self.cfg_term()
        terms, kept, hung = [], [], []
        for prog in progs:
            if len(hung) >= 2:
                break
            try:
                it = run_history(prog)
            except RecursionError:
                self.stat("correspondence", "skipped:RecursionError")
                continue
            except HistoryTimeout:
                self.stat("correspondence", "implementation did not terminate")
                hung.append(prog)
                continue
            if has_other(it.final_states) or has_other(it.calls):
                self.stat("correspondence", "skipped:value outside the model")
                continue
            states = "[" + "; ".join(cq_state(s) for s in it.final_states) + "]"
            calls = "[" + "; ".join(f"({l}%nat, {cq_val(v)})" for l, v in it.calls) + "]"
            terms.append(f"agrees {cfg} 6000%N {cq_prog(prog)} {states} {calls}")
            kept.append(prog)
            self.stat("correspondence", "compared")
            self.stat("promises_per_history", min(len(it.final_states) // 5 * 5, 40))
            self.stat("user_callback_invocations", min(len(it.calls), 12))
            nontriv = any(a[0] == "then" for a in prog)
            self.count(json.dumps(prog) if nontriv else None)
            if len(prog) > 5:
                self.sample({"history": json.dumps(prog)[:400], "final_states": json.dumps(it.final_states)[:200],
                             "calls": json.dumps(it.calls)[:200]}, 4)
        acc = {}
        for prog in kept:
            count_acts(prog, acc)
        for k, v in acc.items():
            self.stat("acts", k, v)
        ok, failing, diags = run_bool_cases("C13", ["Model.Promise"], "", terms, chunk=100)
        self.ob("correspondence",
                f"model ({cfg}) == redun.promise on {len(terms)} histories: final state of every promise ever constructed "
                f"(incl. the ones promise.py creates internally) and the user-callback invocation log",
                ok and not failing,
                "\n".join(diags) + "".join(f"\nmismatch on history: {json.dumps(kept[i])}" for i in failing[:5]))
        self.mismatches = hung[:3] + [kept[i] for i in failing]
        if hung:
            self.ob("correspondence", "every generated history terminates on the implementation", False,
                    "did not finish within 2 s of CPU time: " + json.dumps(hung[0]))

    # ------------------------------------------------------------------
    def judge(self, prog, origin):
        """Run one history on the real code and record findings. Returns the verdict list."""
        try:
            it = run_history(prog)
        except RecursionError:
            self.stat("oracle", "skipped:RecursionError")
            return []
        except HistoryTimeout as e:
            self.stat("oracle_findings", "hang")
            detail = str(e)
            if sum(1 for f in self.findings if f.key.startswith("hang:")) < 2:
                self.findings.append(Finding(f"hang:{json.dumps(prog)}"[:300],
                                             "the implementation does not finish this history within 2 s of CPU time: " + detail,
                                             {"kind": "history", "prog": prog, "key": "hang", "origin": origin}))
            self.hangs = getattr(self, "hangs", 0) + 1
            return []
        except BadRef:
            self.stat("oracle", "skipped:bad reference")
            return []
        self.evaluations += 1
        for key, what in it.findings:
            self.stat("oracle_findings", key)
            if key == KNOWN_ORDER_KEY:
                if not any(f.key == KNOWN_ORDER_KEY for f in self.findings):
                    small = shrink(prog, key)
                    self.findings.append(Finding(KNOWN_ORDER_KEY, what, {"kind": "history", "prog": small, "key": key,
                                                                        "what": what, "origin": origin}))
            else:
                if sum(1 for f in self.findings if f.key != KNOWN_ORDER_KEY) < 5:
                    small = shrink(prog, key)
                    it2 = run_history(small)
                    what2 = next((w for k, w in it2.findings if k == key), what)
                    self.findings.append(Finding(f"{key}:{json.dumps(small)}"[:300], what2,
                                                 {"kind": "history", "prog": small, "key": key, "what": what2,
                                                  "origin": origin, "calls": it2.calls,
                                                  "final_states": it2.final_states}))
        return it.findings

    def oracle(self):
        quick = self.tier == "quick"
        n0 = self.evaluations
        for prog in self.corpus():
            self.judge(prog, "corpus")
        for prog in getattr(self, "mismatches", [])[:20]:
            self.judge(prog, "correspondence-mismatch")
        # the Coq witness of C13_order_refuted decides which variant the code is in
        try:
            wit_calls = run_history(WITNESS).calls
        except (HistoryTimeout, RecursionError):
            wit_calls = "did not terminate"
        variant = self.info["variant"] if self.info else None
        if wit_calls == WITNESS_SHIPPED_LOG:
            behaves = "shipped"
        elif wit_calls == WITNESS_FIXED_LOG:
            behaves = "fixed"
        else:
            behaves = f"neither (log {wit_calls})"
        self.ob("oracle", f"witness of C13_order_refuted on the real code behaves as '{behaves}'; translator extracted variant "
                f"'{variant}'", variant is None or behaves == variant,
                "the variant the translator extracted and the behaviour of the witness history disagree")
        self.judge(WITNESS, "coq-witness")
        n = 0
        for prog in small_scope(4 if quick else 5):
            if getattr(self, "hangs", 0) >= 3:
                break
            self.judge(prog, "small-scope")
            n += 1
        self.stat("oracle", "small_scope_histories", n)
        g = HistGen(self.rng)
        for _ in range(2500 if quick else 60000):
            if getattr(self, "hangs", 0) >= 3 or g.hangs >= 3:
                break
            prog = g.history(self.rng.randint(3, 10))
            self.judge(prog, "random")
            self.stat("oracle", "random_histories")
        new = [f for f in self.findings if f.key != KNOWN_ORDER_KEY]
        self.ob("oracle", f"implementation oracle (settle-once, first-wins, exactly-once, after-settlement, registration order, "
                f"chained adoption, Promise.all, wait_promises) on {self.evaluations - n0} histories",
                not new, "; ".join(f.what for f in new[:5]))

    # ------------------------------------------------------------------
    def replay(self, doc):
        r = doc.get("replay", {})
        if r.get("kind") == "history":
            try:
                it = run_history(r["prog"])
            except HistoryTimeout as e:
                print("history:", json.dumps(r["prog"]))
                print("FAILS: hang - the implementation does not finish this history within 2 s of CPU time:", e)
                return 1
            print("history:", json.dumps(r["prog"]))
            print("user-callback log:", it.calls)
            print("final states:", it.final_states)
            for k, w in it.findings:
                print("FAILS:", k, "-", w)
            if not it.findings:
                print("replay: the property holds on this history now")
            return 1 if it.findings else 0
        print("replay: nothing to replay (no failing input was found); broken obligations:",
              json.dumps(doc.get("broken_obligations", []))[:3000])
        return 1
