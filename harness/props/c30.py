"""C30 — File value hashes track the filesystem (redun/file.py)."""
from __future__ import annotations

import json
import os

from harness.lib import CORPUS, GEN, Finding, PropertyCheck, TranslateError, run_bool_cases
from harness.props import fileval as fv
from translate import astutil, tr_file

PINS_FILE = astutil.Path(__file__).resolve().parents[2] / "translate" / "pins_C30.json"

# known-finding keys (one per repair site of Model/FileVal.v `variant`)
K_DIRCOPY = "Dir.copy_to:destination-with-cached-hash-stays-stale"
K_CFMISSING = "ContentFile:hash-of-missing-path-raises"
K_CONTENTDIR = "ContentDir:hash-changes-when-member-touched"
SITE_OF = {K_DIRCOPY: "dir_copy_updates", K_CFMISSING: "content_missing_total", K_CONTENTDIR: "contentdir_by_content"}

REFRESHING = {"write": 1, "append": 1, "mkdir": 1, "rmdir": 1, "copyfile": 2, "copydir": 2,
              "stagefile": 1, "stagedir": 1, "unstagefile": 2, "unstagedir": 2}
DIRCOPY = ("copydir", "stagedir", "unstagedir")

# the three Coq witnesses as traces on the real code
W_DIRCOPY = [("xwrite", ((0,), 0), b"", None), ("new", "FBase", ("dir", (0,))), ("new", "FBase", ("dir", (1,))),
             ("hash", 1), ("copydir", 0, 1)]
W_CFMISSING = [("new", "FContent", ("file", ((0,), 0))), ("hash", 0)]
W_CONTENTDIR = [("xwrite", ((0,), 0), b"", 5), ("new", "FContent", ("dir", (0,))), ("hash", 0),
                ("xtouch", ((0,), 0), 6), ("valid", 0)]


def scripted_traces():
    """small-scope suite: every class x every target shape through the same life cycle"""
    out = []
    p, q = ((0,), 0), ((0, 2), 1)
    for fam in fv.FAMS:
        for tgt in (("file", p), ("set", (0,), False), ("set", (0,), True), ("dir", (0,))):
            out.append([("new", fam, tgt), ("hash", 0), ("valid", 0), ("xwrite", p, b"a", 5), ("valid", 0), ("hash", 0),
                        ("update", 0), ("xtouch", p, 6), ("valid", 0), ("update", 0), ("xwrite", q, b"bb", 5),
                        ("valid", 0), ("update", 0), ("xwrite", p, b"b", 6), ("valid", 0), ("update", 0),
                        ("xremove", p), ("valid", 0), ("hash", 0), ("xrmtree", (0,)), ("valid", 0), ("update", 0),
                        ("new", fam, tgt), ("hash", 1), ("valid", 1)])
        # through redun: write, append, copy, stage into every family
        out.append([("new", fam, ("file", p)), ("write", 0, b"ab"), ("append", 0, b"c"), ("new", fam, ("file", q)),
                    ("hash", 1), ("copyfile", 0, 1), ("valid", 1), ("touch", 0, 7), ("valid", 0), ("remove", 0),
                    ("valid", 0), ("stagefile", 0, 1), ("unstagefile", 0, 1), ("copyfile", 0, 0),
                    ("remove", 0), ("copyfile", 0, 1), ("copyfile", 0, 0)])
        out.append([("new", "FBase", ("file", p)), ("write", 0, b"x"), ("new", fam, ("dir", (0,))),
                    ("new", fam, ("dir", (1,))), ("hash", 2), ("copydir", 1, 2), ("valid", 2), ("hash", 2),
                    ("new", fam, ("dir", (3, 4))), ("stagedir", 3, 1), ("hash", 3), ("xwrite", q, b"yy", 5),
                    ("unstagedir", 1, 3), ("valid", 3), ("rmdir", 3), ("mkdir", 3), ("stagedir", 1, 1)])
    return out


def infer_variant():
    """behavioural classification of the three sites (used only when the translator failed closed)"""
    probe = Check.__new__(Check)
    out = {}
    for key, w in ((K_DIRCOPY, W_DIRCOPY), (K_CFMISSING, W_CFMISSING), (K_CONTENTDIR, W_CONTENTDIR)):
        run = fv.run_trace(w)
        out[SITE_OF[key]] = not any(k == key for k, _, _ in Check.judge(probe, run, {}))
    return out


class Check(PropertyCheck):
    id = "C30"
    module = "Props.C30"
    extra_modules = ["Base.Lit"]
    theorems = ["C30_hash_fresh_after_write_copy_stage", "C30_dir_copy_refuted_as_shipped", "C30_first_hash_is_fresh",
                "C30_valid_iff_hash_equal", "C30_valid_unrecorded", "C30_content_hash_only_bytes",
                "C30_contentdir_refuted_as_shipped", "C30_calc_raises_only_missing_contentfile",
                "C30_missing_path_hash_total", "C30_contentfile_missing_refuted_as_shipped",
                "C30_sorted_hashes_canonical", "C30_dir_hash_is_over_the_listing", "C30_dir_hash_covers_listing",
                "C30_refuted_walk_skipping_subdirectory", "C30_nonvacuous"]
    allowed_axioms = []
    section_premises = ["(refutations and C30_dir_hash_covers_listing) the hash function has no collisions: "
                        "forall a b, H a = H b -> a = b"]
    assumptions = [
        "local filesystem; paths where directory names and file names are disjoint (no path is both), no symlinks; "
        "directories are implicit (exist as far as files lie below them)",
        "FileSet patterns of the form dir/* and dir/**; Dir / FileSet on the working directory itself is not generated",
        "the mtime the OS gives a written file is an input of the model's operation (taken from os.stat after the real "
        "operation); hashes are compared by equality pattern (truncated SHA-512 and the model's injective stand-in "
        "are both assumed collision free)",
        "symbolic links are outside the Coq model; trees with links are judged on the implementation only (members = "
        "what iterating the value yields); the model's Dir hash is over the listing, tied by the translator's check "
        "that LocalFileSystem inherits the generic iter_file_hashes (C30_dir_hash_covers_listing for any covering walk)",
                "copy_to(skip_if_exists=True), rmdir(recursive=False), overlapping directory copies and remote filesystems "
        "are outside the model (RUnmodelled / not generated)",
    ]
    rule = ("random and scripted sequences of ONew/hash/update_hash/is_valid/write/append/remove/touch/copy_to/"
            "stage/unstage/mkdir/rmdir and out-of-band write/remove/touch/rmtree over 5 directories x 3 file names, "
            "all 9 classes; non-trivial = at least 5 operations with at least one through redun; distinct by op list")

    variant = None

    # ------------------------------------------------------------------ translate
    def translate(self):
        pins = json.loads(PINS_FILE.read_text())
        try:
            text, variant, _ = tr_file.translate(pins=pins)
        except astutil.TranslateError as e:
            raise TranslateError(str(e))
        self.variant = variant
        b = lambda x: "true" if x else "false"
        text += "(* which theorems of Props/C30.v apply to the code as it is now, per repair site *)\n"
        for site in ("dir_copy_updates", "content_missing_total", "contentdir_by_content"):
            text += f"Lemma C30_site_{site} : {site} gen_variant = {b(variant[site])}.\nProof. reflexivity. Qed.\n"
        GEN.mkdir(exist_ok=True)
        p = GEN / "C30Gen.v"
        p.write_text(text)
        return [p]

    # ------------------------------------------------------------------ traces
    def gen_traces(self):
        if hasattr(self, "runs"):
            return self.runs
        g = fv.TraceGen(self.rng)
        n = 260 if self.tier == "quick" else 6000
        traces = []
        corpus = CORPUS / "C30.jsonl"
        if corpus.exists():
            for line in corpus.read_text().splitlines():
                if line.strip():
                    traces.append(("corpus", eval(json.loads(line)["ops"])))
        traces += [("witness", w) for w in (W_DIRCOPY, W_CFMISSING, W_CONTENTDIR)]
        traces += [("scripted", t) for t in scripted_traces()]
        traces += [("random", g.trace(self.rng.randint(5, 16))) for _ in range(n)]
        self.runs = []
        for kind, ops in traces:
            run = fv.run_trace(ops)
            run["kind"], run["abstract"] = kind, ops
            self.runs.append(run)
            for o in ops:
                self.stat("op", o[0])
                if o[0] == "new":
                    self.stat("class", f"{o[1]}:{o[2][0]}")
            for c in run["codes"]:
                self.stat("outcome", {0: "None", 1: "True", 2: "False", 3: "hash", 4: "object", 10: "FileNotFoundError",
                                      11: "SameFileError"}.get(c, f"other:{c}"))
            nontrivial = len(ops) >= 5 and any(not o[0].startswith("x") and o[0] != "new" for o in ops)
            self.count(repr(ops) if nontrivial else None)
            if kind == "random":
                self.sample({"ops": repr(run["ops"])[:400], "codes": run["codes"]}, 4)
        return self.runs

    def correspond(self):
        runs = self.gen_traces()
        variant = self.variant
        if variant is None:
            # translator failed closed: compare with the variant the witnesses exhibit, so that a change of
            # behaviour still yields concrete mismatching sequences in the report
            variant = infer_variant()
        terms = [fv.trace_term(variant, r) for r in runs]
        ok, failing, diags = run_bool_cases("C30", ["Base.Lit", "Model.FileVal"], "", terms, chunk=40)
        detail = "\n".join(diags)
        for i in failing[:5]:
            r = runs[i]
            detail += f"\nmismatch ({r['kind']}): ops={r['ops']!r} codes={r['codes']} error={r['error']}"
        self.ob("correspondence", f"model (variant {variant}{'' if self.variant else ', inferred from the witnesses'}) "
                f"== redun/file.py on {len(terms)} operation sequences: "
                "outcome of every operation, cached and fresh hash of every object after every step "
                "(equality pattern)", ok and not failing, detail)
        self.mismatch = [runs[i] for i in failing]

    # ------------------------------------------------------------------ oracle
    def judge(self, run, seen):
        """Decide the property on one executed trace (implementation observations only).
        Returns list of (key, what, step index)."""
        bad = []
        for idx, s in enumerate(run["steps"]):
            o, code, kinds = s["abstract"], s["code"], s["kinds"]
            k = o[0]
            # (1) fresh after write / copy / stage
            if k in REFRESHING and code in (0, 4):
                i = o[REFRESHING[k]]
                noop = k.startswith(("stage", "unstage")) and kinds[o[1]][1][:2] == kinds[o[2]][1][:2]
                if not noop and s["cached"][i] is not None and s["cached"][i] != s["fresh"][i]:
                    if k in DIRCOPY and s["cached_before"][i] is not None:
                        bad.append((K_DIRCOPY, f"after {k} the destination {kinds[i]} keeps its old hash", idx))
                    else:
                        bad.append((f"stale-after:{k}:{kinds[i][0]}:{kinds[i][1][0]}",
                                    f"after {k} the hash of {kinds[i]} differs from a fresh one", idx))
            # (2) valid iff recorded == current
            if k == "valid":
                i = o[1]
                rec = s["cached_before"][i]
                if code == 10:
                    key = K_CFMISSING if kinds[i] [0] == "FContent" and kinds[i][1][0] == "file" else \
                        f"is_valid-raises:{kinds[i][0]}:{kinds[i][1][0]}"
                    bad.append((key, f"is_valid() of {kinds[i]} raised FileNotFoundError", idx))
                elif code in (1, 2) and rec is not None and s["fresh"][i] is not None:
                    if (code == 1) != (rec == s["fresh"][i]):
                        bad.append((f"valid-iff:{kinds[i][0]}:{kinds[i][1][0]}",
                                    f"is_valid() = {code == 1} but recorded == current is {rec == s['fresh'][i]}", idx))
                elif code not in (1, 2):
                    bad.append((f"is_valid-outcome:{code}", "is_valid() neither returned a bool nor FileNotFoundError", idx))
            if k in ("hash", "update") and code == 10:
                i = o[1]
                key = K_CFMISSING if kinds[i][0] == "FContent" and kinds[i][1][0] == "file" else \
                    f"hash-raises:{kinds[i][0]}:{kinds[i][1][0]}"
                bad.append((key, f"hashing {kinds[i]} raised FileNotFoundError", idx))
            # (3) content-hashed: same bytes in scope => same hash; (4) missing path: total and deterministic
            for i, (fam, tgt) in enumerate(kinds):
                scope = tuple(sorted((p, b) for p, b in s["files"].items() if fv.in_scope(tgt, p)))
                h = s["fresh"][i]
                if h is None:
                    key = K_CFMISSING if fam == "FContent" and tgt[0] == "file" and not scope else \
                        f"hash-raises:{fam}:{tgt[0]}"
                    bad.append((key, f"a fresh {fam} {tgt} has no hash (raises)", idx))
                    continue
                if fam == "FContent" or not scope:
                    sig = (fam, tgt, scope)
                    if sig in seen and seen[sig] != h:
                        if fam == "FContent" and tgt[0] == "dir" and scope:
                            bad.append((K_CONTENTDIR, f"{fam} {tgt}: same bytes, different hash", idx))
                        elif scope:
                            bad.append((f"content-hash-not-bytes-only:{tgt[0]}", f"{fam} {tgt}: same bytes, different hash", idx))
                        else:
                            bad.append((f"missing-path-hash-varies:{fam}:{tgt[0]}", f"{fam} {tgt}: missing path, two hashes", idx))
                    seen.setdefault(sig, h)
            if code in (97, 98):
                bad.append((f"unexpected-exception:{k}", f"{k} raised {run['error']} / returned another object", idx))
        return bad

    def oracle(self):
        runs = self.gen_traces()
        seen = {}
        nsteps = 0
        keys = set()
        for run in runs:
            nsteps += len(run["steps"])
            for key, what, idx in self.judge(run, seen):
                site = SITE_OF.get(key)
                if site and self.variant is not None and self.variant[site]:
                    key += ":although-the-source-has-the-repaired-shape"
                if key in keys:
                    continue
                keys.add(key)
                self.findings.append(Finding(key, what, {"kind": "trace", "ops": repr(run["abstract"][:idx + 1]),
                                                         "step": idx, "expect_key": key, "what": what}))
        self.evaluations += nsteps
        self.stat("oracle", "traces", len(runs))
        # trees with symbolic links (outside the Coq model): every file that iterating a Dir / FileSet yields must
        # contribute to its hash -- mutate each yielded member in turn; and hashes are fresh after copy / stage / write
        nlink = 0
        for pop, value, member, how, failure in fv.tree_checks():
            nlink += 1
            self.stat("symlink_tree", f"{pop}:{value[0]}({value[3]})")
            if failure:
                key = f"symlink-tree:member-not-in-hash:{value[0]}({value[3]}):{pop}"
                if key not in keys:
                    keys.add(key)
                    self.findings.append(Finding(key, failure, {"kind": "members", "population": pop, "value": list(value),
                                                                "member": member, "mutation": how, "what": failure}))
        for pop, what, failure in fv.tree_fresh_checks():
            nlink += 1
            if failure:
                key = f"symlink-tree:stale-after:{what}:{pop}"
                if key not in keys:
                    keys.add(key)
                    self.findings.append(Finding(key, failure, {"kind": "tree-fresh", "population": pop, "what": failure}))
        self.evaluations += nlink
        self.stat("oracle", "symlink_tree_member_mutations", nlink)
        self.stat("oracle", "steps_judged", nsteps)
        self.ob("oracle", f"implementation oracle ran on {len(runs)} sequences / {nsteps} steps (fresh after "
                "write/copy/stage; is_valid <-> recorded == current; content hash depends on bytes only; missing "
                f"path hashes without raising, deterministically) and on {nlink} member mutations / copies in trees with "
                "symlinked sub-directories, symlinked files, nested and broken links (every listed member contributes "
                "to the hash; hashes fresh after copy_to / stage / write)", True)
        # the variant the translator reports must agree with what the witnesses do on the real code
        if self.variant is not None:
            for key, site in SITE_OF.items():
                if not self.variant[site] and key not in keys:
                    self.ob("tie-witness", f"as-shipped site {site}: the Coq witness reproduces on the real code", False,
                            f"the translator classifies {site} as shipped but the violation {key} was not observed")

    # ------------------------------------------------------------------ replay
    def replay(self, doc):
        r = doc.get("replay", {})
        if r.get("kind") == "members":
            with fv.tempcwd("rv_fvl_"):
                fv.build_population(r["population"])
                print("   tree:", fv.POPULATIONS[r["population"]])
                print("   listed members:", sorted(f.path for f in fv.tree_value(*r["value"])))
                failure = fv.check_member(r["population"], tuple(r["value"]), r["member"], r["mutation"])
            print("replay:", ("still fails: " + failure) if failure else "the property holds on this tree now")
            return 1 if failure else 0
        if r.get("kind") == "tree-fresh":
            bad = [x for x in fv.tree_fresh_checks() if x[0] == r["population"] and x[2]]
            print("replay:", ("still fails: %s" % (bad[0],)) if bad else "the property holds on this tree now")
            return 1 if bad else 0
        if r.get("kind") == "trace":
            ops = eval(r["ops"])
            run = fv.run_trace(ops)
            bad = self.judge(run, {})
            for s in run["steps"]:
                print("  ", s["abstract"], "->", s["code"], "cached", [h and h[:8] for h in s["cached"]],
                      "fresh", [h and h[:8] for h in s["fresh"]])
            want = (r.get("expect_key") or "").split(":although-the-source")[0]
            hit = [b for b in bad if b[0] == want] or ([] if want else bad)
            if hit:
                print("replay: still fails:", hit[0][0], "-", hit[0][1], "at step", hit[0][2])
                return 1
            if bad:
                print("replay: the recorded violation is gone; other findings on this sequence:", sorted({b[0] for b in bad}))
                return 0
            print("replay: the property holds on this sequence now")
            return 0
        print("replay: nothing to replay (no failing input was found); broken obligations:",
              json.dumps(doc.get("broken_obligations", []))[:3000])
        return 1
