"""C16 helper: value specs (JSON-able), building the Python object from a spec with a chosen
insertion order for every set, and the child-process entry point that hashes a batch of
specs with the real redun code under this process's PYTHONHASHSEED.

spec := ["n"] | ["t", bool] | ["i", int-as-str] | ["f", float-hex] | ["s", str] | ["b", hex]
      | ["list", [spec]] | ["tuple", [spec]] | ["dict", [[spec, spec]]]
      | ["set", [spec]] | ["fset", [spec]] | ["P", [spec, spec]] | ["Q", [spec]] | ["S", [spec, spec]]
      | ["dup", spec]          (a list holding the same object twice: exercises the pickle memo)
      | ["sub", base, depth, spec-of-kind-base]
                               (instance of a user-defined class `depth` levels below the builtin container
                                base in set|fset|dict|list|tuple; the registry dispatches on the MRO.  The
                                classes are created per namespace `ns` (one per spec), so that in every process
                                the instance is hashed before any instance of its parent classes was seen)
"""
from __future__ import annotations

import dataclasses
import json
import random
import sys


@dataclasses.dataclass
class P:
    x: object
    y: object


@dataclasses.dataclass(frozen=True)
class Q:
    a: object


@dataclasses.dataclass(frozen=True)
class S:
    left: object
    right: object


CLASSES = {"P": P, "Q": Q, "S": S}


BASES = {"set": set, "fset": frozenset, "dict": dict, "list": list, "tuple": tuple}
_classes: dict = {}


def get_class(base: str, depth: int, ns: str):
    """class `depth` levels below BASES[base] in family `ns`; importable by name (pickle GLOBAL)."""
    mod = sys.modules[__name__]
    parent = BASES[base]
    for d in range(1, depth + 1):
        key = (base, d, ns)
        if key not in _classes:
            name = f"Sub_{base}_{ns}_{d}"
            c = type(name, (parent,), {"__module__": __name__})
            setattr(mod, name, c)
            _classes[key] = c
        parent = _classes[key]
    return parent


def build(spec, order: random.Random | None, ns: str = "x"):
    """order=None: insert set elements as listed; else shuffle them with `order` first."""
    t = spec[0]
    if t == "sub":
        return get_class(spec[1], spec[2], ns)(build(spec[3], order, ns))
    if t == "n":
        return None
    if t == "t":
        return bool(spec[1])
    if t == "i":
        return int(spec[1])
    if t == "f":
        return float.fromhex(spec[1])
    if t == "s":
        return spec[1]
    if t == "b":
        return bytes.fromhex(spec[1])
    if t in ("list", "tuple"):
        l = [build(x, order, ns) for x in spec[1]]
        return l if t == "list" else tuple(l)
    if t == "dict":
        return {build(k, order, ns): build(v, order, ns) for k, v in spec[1]}
    if t in ("set", "fset"):
        elems = []
        for x in spec[1]:
            e = build(x, order, ns)
            # equal elements (1, True, 1.0; 0.0, -0.0) collapse in a set and the first inserted one
            # survives: keep the first *listed* one so that every insertion order builds the same value
            if not any(e == u for u in elems):
                elems.append(e)
        if order is not None:
            order.shuffle(elems)
        s = set()
        for e in elems:          # one by one: the insertion history is what we vary
            s.add(e)
        return s if t == "set" else frozenset(s)
    if t in CLASSES:
        return CLASSES[t](*[build(x, order, ns) for x in spec[1]])
    if t == "dup":
        x = build(spec[1], order, ns)
        return [x, x]
    raise ValueError(spec)


def hash_all(specs, order_seeds):
    """-> {order_seed: [outcome per spec]} using the real redun code.  outcome = H | "raise:<Exc>", followed by
    "|recorded:R" if backend.record_value gives R != H, and by "|after-parents:O2" if the same value has another
    outcome once instances of the parent classes of its user-defined classes were hashed in this process."""
    import logging

    from redun.backends.db import RedunBackendDb
    from redun.value import get_type_registry
    logging.getLogger("redun").setLevel(logging.ERROR)     # keep stdout/stderr for the JSON answer
    reg = get_type_registry()
    backend = RedunBackendDb(db_uri="sqlite:///:memory:")
    backend.load()
    out = {str(os_): [] for os_ in order_seeds}

    def both(v):
        try:
            h = reg.get_hash(v)
        except Exception as e:  # noqa: the exception type is part of the observation
            h = "raise:" + type(e).__name__
        # the hash the scheduler records for a task argument / result (CallNode.value_hash,
        # Argument.value_hash): RedunBackendDb.record_value -> get_hash(data=serialize())
        try:
            r = backend.record_value(v)
        except Exception as e:  # noqa
            r = "raise:" + type(e).__name__
        return h if r == h else f"{h}|recorded:{r}"

    for i, sp in enumerate(specs):
        ns = str(i)
        first = None
        for os_ in order_seeds:
            rng = None if os_ is None else random.Random(f"{os_}:{i}")
            v = build(sp, rng, ns)
            o = both(v)
            if first is None:
                first = (os_, o, v)
            out[str(os_)].append(o)
        # history independence of the dispatch: hash an instance of every parent class of the
        # user-defined classes of this spec (nearest to the builtin first), then the same object again
        fam = sorted(k for k in _classes if k[2] == ns)
        if first is not None and any(d >= 2 for _, d, _ in fam):
            for base, d, _ in fam:
                if any(b == base and d2 > d for b, d2, _ in fam):
                    try:
                        reg.get_hash(_classes[(base, d, ns)]())
                    except Exception:  # noqa
                        pass
            os_, o, v = first
            again = both(v)         # the very same object (a rebuilt one may iterate differently: hash(nan) is id-based)
            if again != o:
                out[str(os_)][-1] = f"{o}|after-parents:{again}"
    return out


CHILD = "from harness.props import c16_values as m; m.main()"   # python -c CHILD  (keeps the module name)


def main():
    req = json.load(sys.stdin)
    json.dump(hash_all(req["specs"], req["orders"]), sys.stdout)
