"""C16 helper: value specs (JSON-able), building the Python object from a spec with a chosen
insertion order for every set, and the child-process entry point that hashes a batch of
specs with the real redun code under this process's PYTHONHASHSEED.

spec := ["n"] | ["t", bool] | ["i", int-as-str] | ["f", float-hex] | ["s", str] | ["b", hex]
      | ["list", [spec]] | ["tuple", [spec]] | ["dict", [[spec, spec]]]
      | ["set", [spec]] | ["fset", [spec]] | ["P", [spec, spec]] | ["Q", [spec]] | ["S", [spec, spec]]
      | ["dup", spec]          (a list holding the same object twice: exercises the pickle memo)
"""
from __future__ import annotations

import dataclasses
import json
import random
import sys


@dataclasses.dataclass
class P:
    x: object
    y: object


@dataclasses.dataclass(frozen=True)
class Q:
    a: object


@dataclasses.dataclass(frozen=True)
class S:
    left: object
    right: object


CLASSES = {"P": P, "Q": Q, "S": S}


def build(spec, order: random.Random | None):
    """order=None: insert set elements as listed; else shuffle them with `order` first."""
    t = spec[0]
    if t == "n":
        return None
    if t == "t":
        return bool(spec[1])
    if t == "i":
        return int(spec[1])
    if t == "f":
        return float.fromhex(spec[1])
    if t == "s":
        return spec[1]
    if t == "b":
        return bytes.fromhex(spec[1])
    if t in ("list", "tuple"):
        l = [build(x, order) for x in spec[1]]
        return l if t == "list" else tuple(l)
    if t == "dict":
        return {build(k, order): build(v, order) for k, v in spec[1]}
    if t in ("set", "fset"):
        elems = []
        for x in spec[1]:
            e = build(x, order)
            # equal elements (1, True, 1.0; 0.0, -0.0) collapse in a set and the first inserted one
            # survives: keep the first *listed* one so that every insertion order builds the same value
            if not any(e == u for u in elems):
                elems.append(e)
        if order is not None:
            order.shuffle(elems)
        s = set()
        for e in elems:          # one by one: the insertion history is what we vary
            s.add(e)
        return s if t == "set" else frozenset(s)
    if t in CLASSES:
        return CLASSES[t](*[build(x, order) for x in spec[1]])
    if t == "dup":
        x = build(spec[1], order)
        return [x, x]
    raise ValueError(spec)


def hash_all(specs, order_seeds):
    """-> {order_seed: [hash | "raise:<ExceptionName>"]} using the real redun code."""
    import logging

    from redun.backends.db import RedunBackendDb
    from redun.value import get_type_registry
    logging.getLogger("redun").setLevel(logging.ERROR)     # keep stdout/stderr for the JSON answer
    reg = get_type_registry()
    backend = RedunBackendDb(db_uri="sqlite:///:memory:")
    backend.load()
    out = {}
    for os_ in order_seeds:
        res = []
        for i, sp in enumerate(specs):
            rng = None if os_ is None else random.Random(f"{os_}:{i}")
            v = build(sp, rng)
            try:
                h = reg.get_hash(v)
            except Exception as e:  # noqa: the exception type is part of the observation
                h = "raise:" + type(e).__name__
            # the hash the scheduler records for a task argument / result (CallNode.value_hash,
            # Argument.value_hash): RedunBackendDb.record_value -> get_hash(data=serialize())
            try:
                r = backend.record_value(v)
            except Exception as e:  # noqa
                r = "raise:" + type(e).__name__
            res.append(h if r == h else f"{h}|recorded:{r}")
        out[str(os_)] = res
    return out


CHILD = "from harness.props import c16_values as m; m.main()"   # python -c CHILD  (keeps the module name)


def main():
    req = json.load(sys.stdin)
    json.dump(hash_all(req["specs"], req["orders"]), sys.stdout)
