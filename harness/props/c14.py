"""C14 — The canonical structure encoding behind every hash is injective."""
from __future__ import annotations

import itertools
import json

from harness.lib import (GEN, CORPUS, Finding, PropertyCheck, TranslateError, cq_bytes, cq_list, cq_Z,
                         run_bool_cases)
from translate import astutil, tr_bcoding

PINS = json.loads((astutil.Path(__file__).resolve().parents[2] / "translate" / "pins.json").read_text())


# ---------------------------------------------------------------- values <-> Coq
def cq_pyval(v) -> str:
    if isinstance(v, bool):
        return f"(PBool {'true' if v else 'false'})"
    if isinstance(v, int):
        return f"(PInt {cq_Z(v)})"
    if v is None:
        return "PNone"
    if isinstance(v, float):
        return "PFloat"
    if isinstance(v, str):
        return f"(PStr {cq_bytes(v.encode())})"
    if isinstance(v, bytes):
        return f"(PBytes {cq_bytes(v)})"
    if isinstance(v, list):
        return f"(PList {cq_list([cq_pyval(x) for x in v])})"
    if isinstance(v, tuple):
        return f"(PTuple {cq_list([cq_pyval(x) for x in v])})"
    if isinstance(v, dict):
        items = []
        for k, x in v.items():
            kk = f"(KStr {cq_bytes(k.encode())})" if isinstance(k, str) else f"(KBytes {cq_bytes(k)})"
            items.append(f"({kk}, {cq_pyval(x)})")
        return f"(PDict {cq_list(items)})"
    raise TypeError(v)


def cq_data(v) -> str:
    """Python value returned by bdecode -> Coq `data` (None inside -> ValueError)."""
    if isinstance(v, bool) or v is None:
        raise ValueError("none inside")
    if isinstance(v, int):
        return f"(BInt {cq_Z(v)})"
    if isinstance(v, str):
        return f"(BStr {cq_bytes(v.encode())})"
    if isinstance(v, (bytes, bytearray)):
        return f"(BStr {cq_bytes(bytes(v))})"
    if isinstance(v, list):
        return f"(BList {cq_list([cq_data(x) for x in v])})"
    if isinstance(v, dict):
        return "(BDict " + cq_list([f"({cq_bytes(k.encode() if isinstance(k, str) else k)}, {cq_data(x)})"
                                    for k, x in v.items()]) + ")"
    raise TypeError(v)


def py_abstract(v, decoded=False):
    """Independent Python statement of the identification the property allows.
    decoded=True: the value comes from bdecode, whose str/bytes guess may mix key types."""
    if isinstance(v, bool) or v is None or isinstance(v, float):
        raise TypeError
    if isinstance(v, int):
        return ("i", v)
    if isinstance(v, str):
        return ("s", v.encode())
    if isinstance(v, bytes):
        return ("s", v)
    if isinstance(v, (list, tuple)):
        return ("l", tuple(py_abstract(x, decoded) for x in v))
    if isinstance(v, dict):
        ks = list(v.keys())
        if not decoded and ks and not (all(isinstance(k, str) for k in ks) or all(isinstance(k, bytes) for k in ks)):
            raise TypeError
        return ("d", tuple(sorted(((k.encode() if isinstance(k, str) else k), py_abstract(x, decoded)) for k, x in v.items())))
    raise TypeError


# ---------------------------------------------------------------- generators
ATOM_STRS = ["", "a", "b", "ab", "e", "i1e", "1:a", "é", "\U0001f600", "0", "-1", ":", "le", "d", "a" * 11]
ATOM_BYTES = [b"", b"a", b"\xff", b"\x00", b"ab", b"\xc3\xa9", b"e", b"3:abc"]
ATOM_INTS = [0, 1, -1, 9, 10, -10, 11, 255, 2 ** 63, -(2 ** 64) - 1, 10 ** 30, 100, 101]


class Gen:
    def __init__(self, rng):
        self.rng = rng

    def atom(self, bad=False):
        r = self.rng
        k = r.random()
        if bad and k < 0.4:
            return r.choice([True, False, None, 1.5, 0.0])
        if k < 0.35:
            return r.choice(ATOM_INTS) if r.random() < 0.6 else r.randint(-10 ** r.randint(1, 40), 10 ** r.randint(1, 40))
        if k < 0.75:
            if r.random() < 0.5:
                return r.choice(ATOM_STRS)
            return "".join(r.choice("abei:ld019-é中\U0001f600 ") for _ in range(r.randint(0, 14)))
        if r.random() < 0.5:
            return r.choice(ATOM_BYTES)
        return bytes(r.randrange(256) for _ in range(r.randint(0, 12)))

    def key(self, kind):
        r = self.rng
        if kind == "s":
            return r.choice(ATOM_STRS) if r.random() < 0.5 else "".join(r.choice("abcé\U0001f600z019") for _ in range(r.randint(0, 5)))
        return r.choice(ATOM_BYTES) if r.random() < 0.5 else bytes(r.choice(b"ab\xff\x00\xc3z") for _ in range(r.randint(0, 4)))

    def value(self, depth, bad=False, mixed=False):
        r = self.rng
        if depth <= 0 or r.random() < 0.3:
            return self.atom(bad)
        k = r.random()
        n = r.choice([0, 1, 1, 2, 2, 3, 4])
        if k < 0.35:
            return [self.value(depth - 1, bad, mixed) for _ in range(n)]
        if k < 0.5:
            return tuple(self.value(depth - 1, bad, mixed) for _ in range(n))
        kind = r.choice("sssb")
        d = {}
        for _ in range(n):
            kk = self.key(kind if not (mixed and r.random() < 0.3) else r.choice("sb"))
            d[kk] = self.value(depth - 1, bad, mixed)
        return d


def shuffled(v, rng):
    if isinstance(v, dict):
        items = [(k, shuffled(x, rng)) for k, x in v.items()]
        rng.shuffle(items)
        return dict(items)
    if isinstance(v, list):
        return [shuffled(x, rng) for x in v]
    if isinstance(v, tuple):
        return tuple(shuffled(x, rng) for x in v)
    return v


def small_scope():
    """All values of depth <= 2 over a tiny atom set (for exhaustive collision search)."""
    atoms = [0, 1, -1, 10, "", "a", "1", b"a", b"", "i0e", "0:", "e"]
    lvl1 = list(atoms)
    for n in range(0, 3):
        for combo in itertools.product(atoms[:7], repeat=n):
            lvl1.append(list(combo))
            lvl1.append(tuple(combo))
    for ks in (["a"], ["a", "b"], ["b", "a"], [""], ["0:"]):
        for vals in itertools.product(atoms[:5], repeat=len(ks)):
            lvl1.append(dict(zip(ks, vals)))
    return lvl1


class Check(PropertyCheck):
    id = "C14"
    module = "Props.C14"
    theorems = ["C14_prefix_free", "C14_injective", "C14_abstract_int", "C14_abstract_str", "C14_abstract_list",
                "C14_abstract_kinds", "C14_key_order", "C14_roundtrip", "C14_rejects", "C14_rejects_nested_list",
                "C14_rejects_nested_dict", "C14_nonvacuous"]
    allowed_axioms = []
    assumptions = [
        "CPython: str.encode() is UTF-8, injective, and byte order of encodings equals code-point order (sorted() on str keys == byte order); re-tested by the correspondence cases with astral/non-ASCII keys",
        "CPython: str(int) is canonical decimal (model: Coq stdlib DecimalString); re-tested by the correspondence cases",
        "the decoder's str-versus-bytes guess is outside the abstraction (str is identified with its UTF-8 bytes, as the property allows)",
    ]
    rule = ("structured random Python values (ints incl. huge/negative, str incl. astral and bencode-looking, bytes, "
            "list/tuple/dict nests, shuffled dict orders) + malformed byte streams for the decoder; a case is "
            "non-trivial if it is a container or a non-empty string; distinct by repr")

    def translate(self):
        pins = {k.split(".", 1)[1]: v for k, v in PINS.items() if k.startswith("bcoding.")}
        try:
            text, _ = tr_bcoding.translate(pins=pins)
        except astutil.TranslateError as e:
            raise TranslateError(str(e))
        GEN.mkdir(exist_ok=True)
        p = GEN / "C14Gen.v"
        p.write_text(text)
        return [p]

    # ------------------------------------------------------------------
    def correspond(self):
        from redun.bcoding import bdecode, bencode
        g = Gen(self.rng)
        n_enc = 1500 if self.tier == "quick" else 12000
        n_dec = 800 if self.tier == "quick" else 6000
        terms = []
        descr = []
        corpus = CORPUS / "C14.jsonl"
        vals = []
        if corpus.exists():
            for line in corpus.read_text().splitlines():
                if line.strip():
                    vals.append(eval(json.loads(line)["value"]))
        for i in range(n_enc):
            mode = i % 10
            v = g.value(self.rng.randint(0, 4), bad=(mode == 7), mixed=(mode == 8))
            if mode == 9:
                v = shuffled(v, self.rng)
            vals.append(v)
        for v in vals:
            try:
                b = bencode(v)
                exp = f"(Some {cq_bytes(b)})"
                self.stat("encode_result", "ok")
            except TypeError:
                exp = "None"
                self.stat("encode_result", "TypeError")
            except Exception as e:  # noqa: BLE001 -- any other exception is an outcome the model does not have
                exp = "None"
                self.stat("encode_result", "other:" + type(e).__name__)
                if not hasattr(self, "crashes"):
                    self.crashes = []
                self.crashes.append((v, f"{type(e).__name__}: {e}"))
            terms.append(f"opt_eq bytes_eq (enc_py {cq_pyval(v)}) {exp}")
            descr.append(("enc", repr(v)))
            self.stat("encode_kind", type(v).__name__)
            nontriv = isinstance(v, (list, tuple, dict)) and len(v) > 0 or (isinstance(v, (str, bytes)) and len(v) > 0)
            self.count(("enc", repr(v)) if nontriv else None)
            self.sample({"op": "bencode", "value": repr(v)[:200]}, 3)
        # decoder: encodings and mutated encodings
        alphabet = b"ilde:0123456789-a+"
        for i in range(n_dec):
            v = g.value(self.rng.randint(0, 3))
            try:
                b = bencode(v)
            except Exception:  # noqa: BLE001 -- judged by the encoder cases and the oracle
                continue
            m = i % 4
            if m == 1 and b:
                j = self.rng.randrange(len(b))
                b = b[:j] + bytes([self.rng.choice(alphabet)]) + b[j + 1:]
            elif m == 2 and b:
                b = b[:self.rng.randrange(len(b))]
            elif m == 3:
                j = self.rng.randrange(len(b) + 1)
                b = b[:j] + bytes([self.rng.choice(alphabet)]) + b[j:]
            try:
                r = bdecode(b)
                if r is None:
                    exp = "RNone"
                else:
                    exp = f"(RVal {cq_data(r)})"
                self.stat("decode_result", "value")
            except (ValueError, TypeError, AssertionError) as e:
                if str(e) == "none inside":
                    self.stat("decode_result", "skipped:None inside container")
                    continue
                exp = "RErr"
                self.stat("decode_result", type(e).__name__)
            terms.append(f"dec_agrees {cq_bytes(b)} {exp}")
            descr.append(("dec", repr(b)))
            self.count(("dec", b))
            self.sample({"op": "bdecode", "input": repr(b)[:200], "expected": exp[:200]}, 6)
        ok, failing, diags = run_bool_cases("C14", ["Base.Decimal", "Base.Lit", "Model.Bencode"], "", terms)
        self.ob("correspondence", f"model == bcoding.py on {len(terms)} generated cases (enc_py, bdecode)",
                ok and not failing, "\n".join(diags) + "".join(f"\nmismatch: {descr[i]}" for i in failing[:10]))
        self.mismatches = [descr[i] for i in failing]

    # ------------------------------------------------------------------
    def check_value(self, v):
        """Implementation oracle on one value; returns None or a description of the failure."""
        from redun.bcoding import bdecode, bencode
        try:
            a = py_abstract(v)
        except TypeError:
            try:
                bencode(v)
            except TypeError:
                return None
            except Exception as e:  # noqa: BLE001
                return f"a non-encodable value was not rejected with TypeError but raised {type(e).__name__}: {e}"
            return "a non-encodable value was encoded"
        try:
            b = bencode(v)
        except TypeError:
            return "an encodable value was rejected"
        except Exception as e:  # noqa: BLE001
            return f"encoding an encodable value raised {type(e).__name__}: {e}"
        try:
            back = bdecode(b)
        except Exception as e:  # noqa
            return f"decoding an encoding raised {type(e).__name__}"
        try:
            if py_abstract(back, decoded=True) != a:
                return "decode(encode(x)) differs from x"
        except TypeError:
            return "decode(encode(x)) is not a structure"
        s = shuffled(v, self.rng)
        if bencode(s) != b:
            return "mapping key order changes the encoding"
        return None

    def oracle(self):
        from redun.bcoding import bencode
        g = Gen(self.rng)
        seen = {}
        n = 0

        def visit(v):
            nonlocal n
            n += 1
            why = self.check_value(v)
            if why:
                self.findings.append(Finding(f"value:{v!r}"[:300], why, {"kind": "value", "value": repr(v), "why": why}))
                return
            try:
                a = py_abstract(v)
                b = bencode(v)
            except TypeError:
                return
            if b in seen and seen[b][0] != a:
                self.findings.append(Finding(f"collision:{seen[b][1]!r}|{v!r}"[:300], "two different structures encode equally",
                                             {"kind": "collision", "x": seen[b][1], "y": repr(v), "encoding": repr(b)}))
            seen.setdefault(b, (a, repr(v)))

        for v in small_scope():
            visit(v)
        ss = n
        for i in range(3000 if self.tier == "quick" else 60000):
            visit(g.value(self.rng.randint(0, 4), bad=(i % 9 == 0), mixed=(i % 11 == 0)))
        # prefix-freeness on the implementation: no encoding is a proper prefix of another
        encs = sorted(seen)
        pref = 0
        for x, y in zip(encs, encs[1:]):
            if y.startswith(x) and x != y:
                pref += 1
                self.findings.append(Finding(f"prefix:{seen[x][1]}|{seen[y][1]}"[:300], "an encoding is a proper prefix of another",
                                             {"kind": "prefix", "x": seen[x][1], "y": seen[y][1]}))
        self.stat("oracle", "values", n)
        self.stat("oracle", "small_scope_values", ss)
        self.stat("oracle", "distinct_encodings", len(seen))
        self.evaluations += n
        self.ob("oracle", f"implementation oracle (injective, prefix-free, key order, round trip, rejects) on {n} values",
                not self.findings, "; ".join(f.what for f in self.findings[:5]))
        # a correspondence mismatch with no property violation stays an unexplained broken obligation

    def replay(self, doc):
        r = doc.get("replay", {})
        if r.get("kind") == "value":
            why = self.check_value(eval(r["value"]))
            print("replay:", why or "property holds on this value now")
            return 1 if why else 0
        if r.get("kind") in ("collision", "prefix"):
            from redun.bcoding import bencode
            x, y = eval(r["x"]), eval(r["y"])
            bx, by = bencode(x), bencode(y)
            bad = (bx == by and py_abstract(x) != py_abstract(y)) or (bx != by and (bx.startswith(by) or by.startswith(bx)))
            print("replay:", "still fails" if bad else "holds now")
            return 1 if bad else 0
        print("replay: nothing to replay (no failing input was found); broken obligations:",
              json.dumps(doc.get("broken_obligations", []))[:2000])
        return 1
