"""C34 — Tag values survive display and re-parsing (redun/tags.py format_tag_value / parse_tag_value)."""
from __future__ import annotations

import itertools
import json
import math
import re
import struct

from harness.lib import (CORPUS, GEN, Finding, PropertyCheck, TranslateError, cq_list, cq_Z, run_bool_cases)
from translate import astutil, tr_tags

# ------------------------------------------------------------------ known-finding classes
K_RAISE = "format-ValueError:starts-like-json-but-is-not:[abc"
K_BARE = "roundtrip:bare-json-string-literal:\"abc\""
K_DEEP = "format-RecursionError:deeply-nested-brackets-string"
INT_SENTINEL = -918273645546372819      # Model/TagValue.v int_sentinel


# ------------------------------------------------------------------ values <-> Coq
def bits(f: float) -> int:
    return struct.unpack("<Q", struct.pack("<d", f))[0]


def cq_ustr(s: str) -> str:
    if not s:
        return "(@nil N)"
    return "[" + ";".join(str(ord(c)) for c in s) + "]%N"


def cq_jv(v) -> str:
    if v is None:
        return "JNull"
    if isinstance(v, bool):
        return f"(JBool {'true' if v else 'false'})"
    if isinstance(v, int):
        assert v != INT_SENTINEL
        return f"(JInt {cq_Z(v)})"
    if isinstance(v, float):
        return f"(JFloat {bits(v)}%N)"
    if isinstance(v, str):
        return f"(JStr {cq_ustr(v)})"
    if isinstance(v, list):
        return f"(JList {cq_list([cq_jv(x) for x in v])})"
    if isinstance(v, dict):
        assert all(isinstance(k, str) for k in v)
        return "(JDict " + cq_list([f"({cq_ustr(k)}, {cq_jv(x)})" for k, x in v.items()]) + ")"
    raise TypeError(v)


def cq_opt(x):
    return "None" if x is None else f"(Some {x})"


def strict_eq(a, b) -> bool:
    """`the original value`: same type at every level (1, 1.0 and True differ), floats by bit
    pattern, dict order ignored."""
    if type(a) is not type(b):
        return False
    if isinstance(a, float):
        return bits(a) == bits(b)
    if isinstance(a, list):
        return len(a) == len(b) and all(strict_eq(x, y) for x, y in zip(a, b))
    if isinstance(a, dict):
        return a.keys() == b.keys() and all(strict_eq(a[k], b[k]) for k in a)
    return a == b


def json_compatible(v, depth=0) -> bool:
    if v is None or isinstance(v, (bool, str)):
        return True
    if isinstance(v, int):
        return abs(v) < 10 ** 4000          # CPython int<->str digit limit (4300)
    if isinstance(v, float):
        return not math.isnan(v)
    if depth > 50:
        return False
    if isinstance(v, list):
        return all(json_compatible(x, depth + 1) for x in v)
    if isinstance(v, dict):
        return all(isinstance(k, str) and json_compatible(x, depth + 1) for k, x in v.items())
    return False


# ------------------------------------------------------------------ CPython answers for the table ext
def ask_int(s):
    try:
        return int(s)
    except ValueError:
        return None


def ask_float(s):
    try:
        return float(s)
    except ValueError:
        return None


class Skip(Exception):
    pass


def ask_loads(s):
    """-> ("ok", value) | ("err", None); Skip if CPython gives up for resource reasons."""
    try:
        return "ok", json.loads(s)
    except json.JSONDecodeError:
        return "err", None
    except RecursionError:
        raise Skip("json.loads RecursionError")


def ext_for(s: str | None, dumps: list = ()):
    """Coq term for the table ext answering exactly the questions CPython is asked about `s`."""
    ti = tf = tl = "[]"
    if s is not None:
        i, f = ask_int(s), ask_float(s)
        st, l = ask_loads(s)
        ti = f"[({cq_ustr(s)}, {cq_opt(None if i is None else cq_Z(i))})]"
        tf = f"[({cq_ustr(s)}, {cq_opt(None if f is None else str(bits(f)) + '%N')})]"
        tl = f"[({cq_ustr(s)}, {cq_opt(cq_jv(l) if st == 'ok' else None)})]"
    td = cq_list([f"({cq_jv(v)}, {cq_ustr(t)})" for v, t in dumps])
    return f"(tbl_ext {ti} {tf} {tl} {td})"


# ------------------------------------------------------------------ generators
NUMERIC = ["5", "-5", "+5", "1_0", "1e5", "1.5", ".5", "5.", "0x10", "1e", "inf", "nan", "-inf", "Infinity",
           "-Infinity", "NaN", "\t5", "5\n", "５", "١٢٣", "1" * 30, "1e400", "00", "-0", "0.0",
           "-0.0", "1_", "_1", "0b1", "1j", "1e+16", "1E5", "-", "+", ".", "e5", "--5", "5-", "1.5.2", "\x1c5",
           "5\x85", " 5", "12345678901234567890123", "0.1", "1e-7"]
LITERALS = ["true", "false", "null", "True", "False", "None", "TRUE", "Null", "nul", "truee", "true\n", "\ntrue"]
JSONISH = ["[1]", "[1,2]", "[1, 2]", "{}", "[]", '{"a":1}', '{"a": 1}', '"abc"', '"a b"', '""', '"', "[", "{", "[abc",
           "{a", '"abc', "[]x", '"abc"\n', '"\\u00e9"', '"\\ud800"', "[1]\n", '"a"x', "[[[[1]]]]", '"ab,c"', "[abc]",
           '"abc"\t', '\n"abc"', "[1.5]", "[true]", "[null]", '["a"]', '{"a":"b"}', '"\\n"', '"\\"', '"a\nb"',
           "[NaN]", "[1", "[\n1\n]", '"5"', '"true"', '"[1]"', "{}x", '{"a"}', "[,]", '"é"', "]", "}", "[}", '"\x00"']
SEPS = ["a b", "a,b", "a\nb c", "\n a", "a\n", "\n", " ", ",", "a\n,", " \n", "x y z", "a\rb c", "\r\n ", "tab\there"]
UNI = ["é", "中", "\U0001f600", "\ud800", "\x00", "\x85", " ", "é", "\udc00x", "\x7f", "\xa0"]
WORDS = ["abc", "x", "project", "v1.2", "a=b", "a:b", "path/to/file", "user@host", "2024-01-01", "a-b_c", "$HOME", "#1"]
ALPHABET = list('[{"]}: ,\n\\ab01-+.eE_tnu')
FLOATS = [0.0, -0.0, 1.5, -2.25, 1e100, 1e-7, float("inf"), float("-inf"), 5e-324, 1e16, 0.1, 1e22, 1e21, 123456789.125,
          1.7976931348623157e308, 2.0, -1.0, 3.141592653589793, 1e15, 9007199254740993.0]
INTS = [0, 1, -1, 5, 10, -10, 255, 2 ** 31, -2 ** 63, 2 ** 64, 10 ** 30, -10 ** 25, 42, 1000000]


class Gen:
    def __init__(self, rng):
        self.rng = rng

    def string(self):
        r = self.rng
        k = r.random()
        if k < 0.18:
            return r.choice(NUMERIC), "numeric-looking"
        if k < 0.26:
            return r.choice(LITERALS), "literal-looking"
        if k < 0.48:
            return r.choice(JSONISH), "json-looking"
        if k < 0.56:
            return r.choice(SEPS), "separators"
        if k < 0.62:
            return r.choice(UNI), "unicode"
        if k < 0.68:
            return r.choice(WORDS), "plain"
        if k < 0.70:
            return "", "empty"
        if k < 0.85:   # bracket / quote first, random tail
            return r.choice('[{"') + "".join(r.choice(ALPHABET) for _ in range(r.randint(0, 7))), "random-json-first"
        return "".join(r.choice(ALPHABET) for _ in range(r.randint(1, 8))), "random"

    def scalar(self):
        r = self.rng
        k = r.random()
        if k < 0.08:
            return None
        if k < 0.16:
            return r.choice([True, False])
        if k < 0.30:
            return r.choice(INTS) if r.random() < 0.6 else r.randint(-10 ** r.randint(1, 40), 10 ** r.randint(1, 40))
        if k < 0.44:
            if r.random() < 0.6:
                return r.choice(FLOATS)
            f = struct.unpack("<d", struct.pack("<Q", r.getrandbits(64)))[0]
            return 0.5 if math.isnan(f) else f
        return self.string()[0]

    def value(self, depth):
        r = self.rng
        if depth <= 0 or r.random() < 0.35:
            return self.scalar()
        n = r.choice([0, 1, 1, 2, 2, 3])
        if r.random() < 0.5:
            return [self.value(depth - 1) for _ in range(n)]
        return {self.string()[0]: self.value(depth - 1) for _ in range(n)}


def small_scope(maxlen):
    chars = ['[', '{', '"', 'a', '1', ' ', ',', '\n', ']', '}', 't', '.', '-', 'e']
    for n in range(0, maxlen + 1):
        for t in itertools.product(chars, repeat=n):
            yield "".join(t)


FIXED_VALUES = [None, True, False, 0, -1, 10 ** 30, 0.0, -0.0, 1.5, float("inf"), [], {}, [1, "a", {"k": [1.5, None]}],
                {"b": 1, "a": 2}, {"": ""}, ["[abc", '"abc"'], {"[": "{", '"': 5}, [[[]]], {"a b": {"c,d": [True]}},
                "[" * 100000, "{" * 3 + "[" * 5000, '"' + "a" * 2000 + '"']


# ------------------------------------------------------------------ the check
class Check(PropertyCheck):
    id = "C34"
    module = "Props.C34"
    theorems = ["C34_format_total_refuted", "C34_roundtrip_refuted", "C34_shipped_defect_class",
                "C34_roundtrip_shipped_partial", "C34_format_total_fixed", "C34_roundtrip_fixed",
                "C34_strings_stay_strings_fixed", "C34_scalars_exact_fixed", "C34_laws_satisfiable",
                "C34_nonvacuous"]
    extra_modules = ["Base.Lit"]
    allowed_axioms = []
    section_premises = [
        "py_laws.D_null/D_true/D_false: json.dumps(None/True/False, sort_keys=True) == 'null'/'true'/'false'",
        "py_laws.D_int, I_dec: json.dumps(z) == str(z) (canonical decimal, Coq DecimalString) and int(str(z)) == z",
        "py_laws.D_float: json.dumps(f) for a non-NaN float is non-empty, does not start with [ { or a quote, "
        "is rejected by int() and float() of it is the same float (bitwise)",
        "py_laws.D_str/D_list/D_dict: json.dumps of a str/list/dict starts with the quote / [ / {",
        "py_laws.I_lit: int() and float() raise ValueError on 'true', 'false', 'null'",
        "py_laws.J_rt: json.loads(json.dumps(v, sort_keys=True)) equals v (types kept, dict order ignored) for "
        "str/list/dict v whose mappings have unique str keys",
        "refutation witnesses: json.loads('[abc') raises JSONDecodeError; json.loads('\"abc\"') == 'abc'",
    ]
    assumptions = [
        "JSON-compatible value = None, bool, int, non-NaN float, str, list, dict with str keys (Python dicts have "
        "unique keys); tuples, NaN, non-str keys are outside the property",
        "CPython resource limits are outside the model: ints of more than 4300 digits (int<->str conversion limit) "
        "and values nested deeper than the json module's recursion limit",
        "int(), float(), json.loads, json.dumps are deterministic functions of their argument (model: Coq functions)",
        "the regex test re.match('.*[ ,].*', s) is modelled concretely (has_sep) and compared with `re` on every "
        "generated string",
    ]
    rule = ("JSON-compatible values biased to strings that start with [ { or a quote, numeric-/literal-looking text, "
            "separators, newlines and non-ASCII; model run under the regenerated configuration with CPython's own "
            "answers for int/float/json as a finite table; a case is non-trivial if it is a non-empty string or a "
            "container; distinct by repr")

    # ---------------------------------------------------------------- translate
    def translate(self):
        self.variant = None
        self.cfg_term = None
        try:
            text, info = tr_tags.translate()
        except astutil.TranslateError as e:
            raise TranslateError(str(e))
        self.variant = info["variant"]
        self.info = info
        GEN.mkdir(exist_ok=True)
        p = GEN / "C34Gen.v"
        p.write_text(text)
        q = GEN / "C34Tie.v"
        q.write_text(info["tie"])
        self.cfg_term = "gen"      # the correspondence runs under the regenerated configuration
        return [p, q]

    def behavioural_variant(self):
        from redun.tags import format_tag_value
        try:
            format_tag_value("[abc")
            return "fixed"
        except ValueError:
            return "shipped"

    # ---------------------------------------------------------------- premises on CPython
    def premise_tests(self, values, strings):
        def chk(name, fn):
            bad = None
            n = 0
            try:
                for x in fn():
                    n += 1
                    if x is not None and bad is None:
                        bad = x
            except Exception as e:  # noqa
                bad = f"{type(e).__name__}: {e}"
            self.ob("premise", f"{name} (re-tested on CPython, {n} instances)", bad is None, str(bad))
            self.evaluations += n

        def lits():
            for v, t in ((None, "null"), (True, "true"), (False, "false")):
                yield None if json.dumps(v, sort_keys=True) == t else f"dumps({v!r})"
                for f in (int, float):
                    try:
                        f(t)
                        yield f"{f.__name__}({t!r}) did not raise"
                    except ValueError:
                        yield None

        def ints():
            for z in INTS + [self.rng.randint(-10 ** 60, 10 ** 60) for _ in range(300)] + list(range(-30, 30)):
                t = json.dumps(z, sort_keys=True)
                yield None if (t == str(z) and int(t) == z and type(int(t)) is int and t[0] not in '[{"') else f"int {z}"

        def floats():
            fs = list(FLOATS)
            while len(fs) < 600:
                f = struct.unpack("<d", struct.pack("<Q", self.rng.getrandbits(64)))[0]
                if not math.isnan(f):
                    fs.append(f)
            fs += [float(z) for z in range(-20, 20)] + [z / 8 for z in range(-40, 40)]
            for f in fs:
                t = json.dumps(f, sort_keys=True)
                ok = bool(t) and t[0] not in '[{"' and ask_int(t) is None and ask_float(t) is not None \
                    and bits(ask_float(t)) == bits(f)
                yield None if ok else f"float {f!r} -> {t!r}"

        def firsts():
            for v in values:
                t = json.dumps(v, sort_keys=True)
                want = '"' if isinstance(v, str) else "[" if isinstance(v, list) else "{" if isinstance(v, dict) else None
                yield None if (want is None or t[:1] == want) else f"first char of dumps({v!r})"

        def rt():
            for v in values:
                if isinstance(v, (str, list, dict)):
                    try:
                        w = json.loads(json.dumps(v, sort_keys=True))
                    except RecursionError:
                        continue
                    yield None if strict_eq(v, w) else f"json round trip of {v!r}"[:200]

        def wit():
            try:
                json.loads("[abc")
                yield "json.loads('[abc') did not raise"
            except json.JSONDecodeError:
                yield None
            yield None if json.loads('"abc"') == "abc" else "json.loads('\"abc\"')"

        chk("py_laws D_null/D_true/D_false/I_lit", lits)
        chk("py_laws D_int/I_dec", ints)
        chk("py_laws D_float", floats)
        chk("py_laws D_str/D_list/D_dict", firsts)
        chk("py_laws J_rt", rt)
        chk("refutation-witness premises", wit)

    # ---------------------------------------------------------------- correspondence
    def correspond(self):
        from redun.tags import format_tag_value, parse_tag_value
        g = Gen(self.rng)
        quick = self.tier == "quick"
        variant = getattr(self, "variant", None) or self.behavioural_variant()
        cfg = getattr(self, "cfg_term", None) or variant
        requires = ["Base.Lit", "Model.TagValue"] + (["Gen.C34Gen"] if cfg == "gen" else [])
        self.stat("variant", variant)
        sep_cls = "[32;44]%N"
        for gd in getattr(self, "info", {}).get("guards", []):
            if gd[0] == "GNoSep":
                sep_cls = "[" + ";".join(map(str, gd[1])) + "]%N"

        strings, values = [], []
        corpus = CORPUS / "C34.jsonl"
        if corpus.exists():
            for line in corpus.read_text().splitlines():
                if line.strip():
                    values.append(eval(json.loads(line)["value"]))
        for lst in (NUMERIC, LITERALS, JSONISH, SEPS, UNI, WORDS):
            strings += lst
        strings.append("")
        for _ in range(500 if quick else 8000):
            s, kind = g.string()
            strings.append(s)
            self.stat("string_kind", kind)
        values += [v for v in FIXED_VALUES if not (isinstance(v, str) and len(v) > 500)]
        values += strings
        for _ in range(600 if quick else 9000):
            values.append(g.value(self.rng.randint(0, 3)))
        self.premise_tests(values, strings)

        terms, descr = [], []

        def add(term, d):
            terms.append(term)
            descr.append(d)

        # parse_tag_value on strings and on every displayed text
        shown = []
        for v in values:
            try:
                shown.append(format_tag_value(v))
            except Exception:  # noqa
                pass
        seen = set()
        for s in strings + shown:
            if s in seen or len(s) > 3000:
                continue
            seen.add(s)
            try:
                ext = ext_for(s)
                try:
                    exp = f"(POk {cq_jv(parse_tag_value(s))})"
                    self.stat("parse_result", "value")
                except ValueError:
                    exp = "PValueError"
                    self.stat("parse_result", "ValueError")
            except (Skip, RecursionError):
                self.stat("parse_result", "skipped:RecursionError")
                continue
            add(f"pres_eqb (parse_tag_value {cfg} {ext} {cq_ustr(s)}) {exp}", ("parse", s))
            self.count(("p", s) if s else None)
            self.sample({"op": "parse_tag_value", "input": s[:80], "expected": exp[:120]}, 3)
            # the regex test, fully concrete
            add(f"Bool.eqb (has_sep {sep_cls} {cq_ustr(s)}) {'true' if re.match('.*[ ,].*', s) else 'false'}",
                ("re.match", s))
        # format_tag_value
        seenv = set()
        for v in values:
            k = repr(v)
            if k in seenv or len(k) > 3000:
                continue
            seenv.add(k)
            try:
                t = json.dumps(v, sort_keys=True)
                ext = ext_for(v if isinstance(v, str) else None, [(v, t)])
                try:
                    exp = f"(FOk {cq_ustr(format_tag_value(v))})"
                    self.stat("format_result", "bare" if isinstance(v, str) and format_tag_value(v) == v else "json")
                except RecursionError:
                    raise Skip("format RecursionError")
                except ValueError:
                    exp = "FValueError"
                    self.stat("format_result", "ValueError")
            except (Skip, RecursionError):
                self.stat("format_result", "skipped:RecursionError")
                continue
            add(f"fres_eqb (format_tag_value {cfg} {ext} {cq_jv(v)}) {exp}", ("format", k[:300]))
            self.stat("value_kind", type(v).__name__)
            self.count(("f", k) if (isinstance(v, (list, dict, str)) and len(v) > 0) else None)
            self.sample({"op": "format_tag_value", "value": k[:80], "expected": exp[:120]}, 6)
        # str(int) against the Coq decimal printer used in the premises
        for z in INTS + [self.rng.randint(-10 ** 50, 10 ** 50) for _ in range(60)]:
            add(f"ustr_eqb (dec_u {cq_Z(z)}) {cq_ustr(json.dumps(z))}", ("dec_u", z))
        ok, failing, diags = run_bool_cases("C34", requires, "", terms)
        self.ob("correspondence",
                f"model ({cfg} = {variant}) == tags.py on {len(terms)} generated cases (parse_tag_value, "
                f"format_tag_value, regex test, decimal printer)",
                ok and not failing, "\n".join(diags) + "".join(f"\nmismatch: {descr[i]!r}"[:300] for i in failing[:10]))
        self.mismatches = [descr[i] for i in failing]

    # ---------------------------------------------------------------- oracle
    def check_value(self, v):
        """Decide the property for one JSON-compatible value on the real code.
        Returns None or (key, what)."""
        from redun.tags import format_tag_value, parse_tag_value
        if not json_compatible(v):
            return None
        try:
            t = format_tag_value(v)
        except BaseException as e:  # noqa
            if isinstance(e, (KeyboardInterrupt, SystemExit)):
                raise
            if isinstance(v, str) and v[:1] in ('[', '{', '"') and not re.match(".*[ ,].*", v):
                try:
                    json.loads(v)
                    loads = "ok"
                except json.JSONDecodeError:
                    loads = "JSONDecodeError"
                except RecursionError:
                    loads = "RecursionError"
                if loads == "JSONDecodeError" and isinstance(e, ValueError):
                    return K_RAISE, f"format_tag_value({v[:40]!r}) raises ValueError"
                if loads == "RecursionError" and isinstance(e, RecursionError):
                    return K_DEEP, f"format_tag_value({v[:10]!r}... len {len(v)}) raises RecursionError"
            elif not isinstance(v, str) and isinstance(e, RecursionError):
                return None   # json.dumps of a too deeply nested container: CPython limit, outside the model
            return f"format-raises:{type(e).__name__}:{v!r}"[:200], f"format_tag_value({v!r}) raises {type(e).__name__}"[:300]
        if not isinstance(t, str):
            return f"format-nonstr:{v!r}"[:200], "format_tag_value did not return a str"
        try:
            w = parse_tag_value(t)
        except BaseException as e:  # noqa
            if isinstance(e, (KeyboardInterrupt, SystemExit)):
                raise
            return f"parse-raises:{type(e).__name__}:{v!r}"[:200], \
                f"parse_tag_value({t!r}) (display of {v!r}) raises {type(e).__name__}"[:300]
        if strict_eq(v, w):
            return None
        if isinstance(v, str) and v[:1] == '"' and not re.match(".*[ ,].*", v) and t == v:
            try:
                if isinstance(json.loads(v), str) and strict_eq(json.loads(v), w):
                    return K_BARE, f"{v[:40]!r} is displayed bare and re-parses as {w[:40]!r}"
            except ValueError:
                pass
        return f"roundtrip:{v!r}"[:200], f"{v!r} is displayed as {t!r} and re-parses as {w!r}"[:400]

    def oracle(self):
        g = Gen(self.rng)
        quick = self.tier == "quick"
        n = 0
        kinds = {}

        def visit(v, src):
            nonlocal n
            n += 1
            r = self.check_value(v)
            if r:
                key, what = r
                kinds[key] = kinds.get(key, 0) + 1
                if sum(1 for f in self.findings if f.key == key) < 3 and len(self.findings) < 40:
                    rv = f"{v[:1]!r} * {len(v)}" if (isinstance(v, str) and len(v) > 200 and v == v[:1] * len(v)) \
                        else repr(v)
                    self.findings.append(Finding(key, what, {"kind": "value", "value": rv, "source": src}))

        corpus = CORPUS / "C34.jsonl"
        if corpus.exists():
            for line in corpus.read_text().splitlines():
                if line.strip():
                    visit(eval(json.loads(line)["value"]), "corpus")
        for v in ["[abc", '"abc"'] + FIXED_VALUES:
            visit(v, "fixed list")
        for lst in (NUMERIC, LITERALS, JSONISH, SEPS, UNI, WORDS):
            for s in lst:
                visit(s, "string tables")
                visit([s], "string tables")
                visit({s: s}, "string tables")
        ss = 0
        for s in small_scope(3 if quick else 4):
            visit(s, "small scope")
            ss += 1
        for _ in range(6000 if quick else 150000):
            visit(g.value(self.rng.randint(0, 3)), "random")
        self.stat("oracle", "values", n)
        self.stat("oracle", "small_scope_strings", ss)
        for k, c in kinds.items():
            self.stat("oracle_failures", k, c)
        self.evaluations += n
        known = {K_RAISE, K_BARE, K_DEEP}
        new = [f for f in self.findings if f.key not in known]
        self.ob("oracle", f"implementation oracle (format total, parse(format(v)) is v with types) on {n} values: "
                          f"nothing outside the registered defect classes", not new, "; ".join(f.what for f in new[:5]))
        # the Coq witnesses must behave on the implementation as the variant chosen by the translator says
        variant = getattr(self, "variant", None)
        if variant is not None:
            w1 = self.check_value("[abc")
            w2 = self.check_value('"abc"')
            if variant == "shipped":
                ok = bool(w1 and w1[0] == K_RAISE and w2 and w2[0] == K_BARE)
            else:
                ok = w1 is None and w2 is None and not kinds
            self.ob("witness", f"the refutation witnesses of Props/C34.v behave on the implementation as the "
                               f"extracted variant ({variant}) says", ok, f"[abc -> {w1}; \"abc\" -> {w2}; {kinds}")

    # ---------------------------------------------------------------- replay
    def replay(self, doc):
        r = doc.get("replay", {})
        if r.get("kind") == "value":
            try:
                v = eval(r["value"])
            except Exception as e:  # noqa
                print("replay: cannot rebuild the value:", e)
                return 1
            res = self.check_value(v)
            print("replay:", (res[1] + "  [" + res[0] + "]") if res else "property holds on this value now")
            return 1 if res else 0
        print("replay: nothing to replay (no failing input was found); broken obligations:",
              json.dumps(doc.get("broken_obligations", []))[:2000])
        return 1
