"""C28 — Dry runs execute nothing and predict the real run."""
from __future__ import annotations

import json
import random
import shutil

from harness import jobcheck, jobgen, sched
from harness.lib import VERIF, Finding, PropertyCheck, TranslateError, run_bool_cases, scratch_dir
from harness.progs import vm
from translate import astutil

PINS = VERIF / "translate" / "pins_C28.json"
PINNED = [("Scheduler", "_process_events"), ("Scheduler", "_run")]


def current_pins():
    mod = astutil.load("redun/scheduler.py")
    return {f"{c}.{n}": astutil.pin(astutil.find_func(mod, n, c)) for c, n in PINNED}


def norm(v):
    if isinstance(v, (list, tuple)):
        return [norm(x) for x in v]
    return v


def count_calls():
    """Count task-function invocations through the generic task."""
    return vm.node.func


class Check(PropertyCheck):
    id = "C28"
    module = "Props.C28"
    extra_modules = ["Model.JobTrace"]
    theorems = ["C28_dryrun_submits_nothing", "C28_dryrun_complete_predicts", "C28_dryrun_stop_means_work",
                "C28_nonvacuous"]
    variant = None
    assumptions = [
        "the op list fixes workflow shape, completion order and backend answers, so 'a real run on the same backend' is the real machine on the same op list; that the real backend answers a dry and a real run alike is checked by the oracle on copies of the same database file",
        "task functions are deterministic (premise of the property)",
    ]
    rule = ("random programs run as a dry run on copies of backends that are empty, fully populated by a previous run of "
            "the same program, or partially populated by a related program; each dry run is followed by a real run on "
            "another copy of the same backend; non-trivial = >= 3 jobs")

    def translate(self):
        p, self.variant = jobcheck.translate_variant("C28", "")
        want = json.loads(PINS.read_text())
        got = current_pins()
        bad = [k for k in want if got.get(k) != want[k]]
        if bad:
            raise TranslateError(f"shape changed (dry-run loop exit / run): {bad}; got {got}")
        p.write_text(p.read_text() + "Lemma C28_tie : release_if_holds gen_variant = true.\nProof. reflexivity. Qed.\n"
                     if self.variant["release_if_holds"] else p.read_text())
        return [p]

    def histories(self, n):
        """Yields (spec, backend_kind, dry_out, real_out)."""
        tmp = scratch_dir("rv_c28_")
        try:
            for i in range(n):
                limits = {r: self.rng.choice([1, 2, 3]) for r in jobcheck.RES}
                pool = []
                spec = jobgen.gen_spec(self.rng, jobcheck.RES, depth=self.rng.randint(1, 3), limits=limits, pool=pool,
                                       allow_fail=(i % 4 == 0))
                kind = ["empty", "full", "partial"][i % 3]
                inner = None
                if i % 6 == 4:
                    inner = spec
                    # a job routed to an unknown executor is rejected on the scheduler thread in dry and real runs alike
                    # (seeded change C28c: the dry-run return moved before the executor look-up); everything else cached
                    bad = (f"bx{i}", "leaf", 1, (), {"executor": "no_such_executor"})
                    # (catch keeps a private cache entry for its recovery, so the plain form and catch_all are used)
                    if (i // 6) % 2 == 0:
                        spec = (f"bn{i}", "list", 0, (bad, spec), None)
                    else:
                        spec = (f"ba{i}", "all", 1, (bad, spec), None)
                    kind = "full"
                base = tmp / f"b{i}.db"
                if kind == "full":
                    if inner is not None:     # the rest of the program completes and is recorded first (run fails fast otherwise)
                        sched.run_program(lambda: vm.call(inner), limits, self.rng, db_path=str(base))
                    sched.run_program(lambda: vm.call(spec), limits, self.rng, db_path=str(base))
                elif kind == "partial":
                    other = jobgen.gen_spec(self.rng, jobcheck.RES, depth=2, limits=limits, pool=pool, allow_fail=False)
                    sched.run_program(lambda: vm.call(other), limits, self.rng, db_path=str(base))
                else:
                    sched.run_program(lambda: vm.call(("z", "leaf", 0, (), None)), limits, self.rng, db_path=str(base))
                a, b = tmp / f"b{i}_dry.db", tmp / f"b{i}_real.db"
                shutil.copy(base, a)
                shutil.copy(base, b)
                seed = self.rng.randrange(10 ** 9)
                dry = sched.run_program(lambda: vm.call(spec), limits, random.Random(seed), db_path=str(a), dryrun=True)
                real = sched.run_program(lambda: vm.call(spec), limits, random.Random(seed), db_path=str(b))
                dry["limits"] = real["limits"] = limits
                yield spec, kind, dry, real
        finally:
            shutil.rmtree(tmp, ignore_errors=True)

    def correspond(self):
        n = 45 if self.tier == "quick" else 600
        self.hist = list(self.histories(n))
        if self.variant is None:
            return
        terms = [jobcheck.trace_term(dry, self.variant, dry=True) for _, _, dry, _ in self.hist]
        for spec, kind, dry, real in self.hist:
            self.stat("backend", kind)
            self.stat("dry_outcome", "complete" if "result" in dry else "incomplete" if dry.get("dryrun_incomplete") else
                      "error" if "error" in dry else "other")
            self.count(repr(spec) if len(dry["tracer"].jobobj) >= 3 else None)
            self.sample({"spec": repr(spec)[:200], "backend": kind}, 3)
        ok, failing, diags = run_bool_cases("C28", ["Model.JobMachine", "Model.JobTrace"], "", terms, chunk=12)
        self.ob("correspondence", f"every step of {len(terms)} real dry runs is a step of the job machine with dryrun = true "
                "and equal observables", ok and not failing,
                "\n".join(diags) + "".join(f"\nmismatch: {self.hist[i][0]!r} backend {self.hist[i][1]}" for i in failing[:5]))

    def oracle(self):
        nb = 0
        for spec, kind, dry, real in getattr(self, "hist", []):
            self.evaluations += 1
            tr = dry["tracer"]
            subs = sum(tr.ex.nsubmits.values())
            what = None
            if subs:
                what = ("dryrun-submitted", f"dry run handed {subs} job(s) to the executor")
            elif any(v != 0 for v in dry["scheduler"].limits_used.values()):
                what = ("dryrun-consumed", f"dry run consumed resources: {dict(dry['scheduler'].limits_used)}")
            elif "result" in dry:
                if "result" not in real or norm(real["result"]) != norm(dry["result"]):
                    what = ("dryrun-mispredicts", f"dry run returned {dry['result']!r}, real run {real.get('result', real.get('error'))!r}")
            elif "error" in dry:
                if "error" not in real or real["error"][0] != dry["error"][0]:
                    what = ("dryrun-mispredicts-error", f"dry run raised {dry['error']!r}, real run {real.get('result', real.get('error'))!r}")
            elif dry.get("dryrun_incomplete"):
                if sum(real["tracer"].ex.nsubmits.values()) == 0:
                    what = ("dryrun-stops-but-nothing-to-do", "dry run stopped early but the real run executed no task")
            else:
                what = ("dryrun-other", f"unexpected dry-run outcome {[k for k in dry if k not in ('tracer', 'scheduler', 'trace')]}")
            if what:
                nb += 1
                self.findings.append(Finding(f"{what[0]}:{kind}:{spec!r}"[:200], what[1],
                                             {"spec": repr(spec), "backend": kind, "limits": dry["limits"]}))
        nb += self.world_scenarios()
        self.stat("oracle", "violations", nb)
        self.ob("oracle", "implementation oracle ran (no submissions / consumption in dry runs; complete dry run = real run; "
                "incomplete dry run => real run executes a task)", True)

    def world_scenarios(self, only=None):
        """Histories in which the real run depends on more than the recorded graph: cache=False tasks reading an
        execution counter below cached parents, and File results edited outside redun (seeded change C28a). A history
        is built by real runs, the database file is copied, a dry run and a real run are made on the two copies."""
        import logging
        import os
        from redun import Scheduler
        from redun.config import Config
        from redun.scheduler import DryRunResult
        from harness.progs import c28_tasks as T
        logging.getLogger("redun").setLevel(logging.ERROR)
        tmp = scratch_dir("rv_c28w_")
        nb = 0
        scen = [(kind, depth, wraps, world, nprev)
                for kind in ("stamp", "report", "const", "subrun", "handles") for depth in (0, 1, 2)
                for wraps in (("wrap_full",), ("wrap_shallow", "wrap_full"))
                for world in ("same", "bump-generation", "edit-file", "delete-file") for nprev in (1, 2)
                if not (kind != "report" and world in ("edit-file", "delete-file"))]
        if only is not None:
            scen = [tuple(tuple(x) if isinstance(x, list) else x for x in only)]
        elif self.tier == "quick":
            self.rng.shuffle(scen)
            scen = scen[:30] + [x for x in scen[30:] if x[0] == "subrun"][:4] + [x for x in scen[30:] if x[0] == "handles"][:4]

        def mk(db):
            s = Scheduler(config=Config({"backend": {"db_uri": f"sqlite:///{db}"}}))
            s.load()
            s.logger.disabled = True
            return s
        try:
            for i, (kind, depth, wraps, world, nprev) in enumerate(scen):
                d = tmp / f"w{i}"
                d.mkdir()
                path = str(d / "data.txt")
                arg = path if kind == "report" else i
                T.WORLD["gen"], T.WORLD["clock"] = 1, {}
                expr = lambda: T.build(kind, arg, depth, wraps)
                db = d / "base.db"
                for _ in range(nprev):
                    mk(db).run(expr())
                if world == "bump-generation":
                    T.WORLD["gen"] += 1
                elif world == "edit-file" and os.path.exists(path):
                    with open(path, "w") as fh:
                        fh.write("edited outside redun, longer than before")
                elif world == "delete-file" and os.path.exists(path):
                    os.remove(path)
                a, b = d / "dry.db", d / "real.db"
                shutil.copy(db, a)
                shutil.copy(db, b)
                del T.CALLS[:]
                snapshot = json.dumps(T.WORLD, sort_keys=True)
                try:
                    dry = ("complete", mk(a).run(expr(), dryrun=True))
                except DryRunResult:
                    dry = ("stopped", None)
                dry_calls = list(T.CALLS)
                world_touched = json.dumps(T.WORLD, sort_keys=True) != snapshot
                del T.CALLS[:]
                real = mk(b).run(expr())
                real_calls = list(T.CALLS)
                self.evaluations += 1
                self.stat("world", f"{kind}/{world}/dry-{dry[0]}")
                what = None
                if dry_calls or world_touched:
                    what = ("dryrun-called-task", f"the dry run called {dry_calls}")
                elif dry[0] == "complete" and norm(dry[1]) != norm(real):
                    what = ("dryrun-mispredicts", f"the dry run completed with {dry[1]!r}, the real run on the same backend "
                            f"returns {real!r} after executing {real_calls}")
                elif dry[0] == "stopped" and not real_calls:
                    what = ("dryrun-stops-but-nothing-to-do", "the dry run stopped early but the real run executed no task")
                if what:
                    nb += 1
                    self.findings.append(Finding(f"world:{what[0]}:{kind}:{depth}:{'+'.join(wraps)}:{world}:{nprev}", what[1],
                                                 {"world_scenario": [kind, depth, list(wraps), world, nprev]}))
        finally:
            shutil.rmtree(tmp, ignore_errors=True)
        return nb

    def replay(self, doc):
        r = doc.get("replay", {})
        if "world_scenario" in r:
            self.findings, self.evaluations = [], 0
            n = self.world_scenarios(only=r["world_scenario"])
            print("replay:", "still fails: " + self.findings[0].what if n else "holds now")
            return 1 if n else 0
        print("replay: re-run ./check C28 with the same VERIF_SEED; stored case:", json.dumps(doc.get("replay"))[:600])
        return 1
