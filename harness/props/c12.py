"""C12 — Failures propagate and are never replayed from the cache."""
from __future__ import annotations

import json
import random
import shutil

from harness import jobcheck, jobgen, sched
from harness.lib import GEN, VERIF, Finding, PropertyCheck, TranslateError, run_bool_cases, scratch_dir
from harness.progs import ref, vm
from harness.props import c01
from translate import astutil, tr_getcache


def fails_without_catch(spec):
    try:
        ref.ref_eval(spec)
        return False
    except ref.Raised:
        return True
    except ref.Ambiguous:
        return False


class Check(PropertyCheck):
    id = "C12"
    module = "Props.C12"
    extra_modules = ["Model.EvalTreeCases"]
    theorems = ["C12_error_propagates", "C12_failed_chain", "C12_catch_handles", "C12_errors_not_replayed",
                "C12_values_still_replayed", "C12_nonvacuous"]
    assumptions = [
        "propagation is proved on the tree-of-calls model of C01 (same modelled language, same tie); the cache rule is the decision chain of Scheduler._get_cache as extracted by translate/tr_getcache.py",
        "an error handled by an enclosing catch is outside the first sentence of the property; catch replays its own cache entry by design",
    ]
    rule = ("random programs with failing leaves at every depth and in every control form (list, seq, catch), run twice on one "
            "backend; non-trivial = the program fails without an enclosing catch")

    def translate(self):
        want = json.loads(c01.PINS.read_text())
        got = c01.current_pins()
        bad = [k for k in want if got.get(k) != want[k]]
        if bad:
            raise TranslateError(f"shape changed: {bad}")
        # the cache-hit branch of _exec_job_main_thread (a hit carrying an ErrorValue rejects the job) belongs to the
        # scheduler shape recognised by translate/tr_sched.py
        from translate import tr_sched
        try:
            tr_sched.translate(pins=json.loads(jobcheck.PINS_FILE.read_text()))
        except astutil.TranslateError as e:
            raise TranslateError(str(e))
        pins = json.loads((VERIF / "translate" / "pins_C04.json").read_text())
        gc_pins = {k: v for k, v in pins.items() if k.startswith("Scheduler._get_cache") or k.startswith("Scheduler._has_valid")}
        try:
            text, chain, _ = tr_getcache.translate(pins=gc_pins or None)
        except astutil.TranslateError as e:
            raise TranslateError(str(e))
        GEN.mkdir(exist_ok=True)
        p = GEN / "C12Gen.v"
        p.write_text("From Coq Require Import List. Import ListNotations.\nFrom RV Require Import Model.FileVal.\n"
                     + text.replace("C04_tie_chain", "C12_tie_chain"))
        return [p]

    def correspond(self):
        n = 60 if self.tier == "quick" else 1000
        terms, descr = [], []
        self.runs = []
        for i in range(n):
            spec = jobgen.gen_spec(self.rng, [], depth=self.rng.randint(1, 4), allow_nocse=False, twins=False, allow_fail=True)
            out = sched.run_program(lambda: vm.call(spec), {}, self.rng, complete_prob=self.rng.choice([0.1, 0.4, 0.8]))
            out["spec"] = spec
            self.runs.append(out)
            oc = c01.cq_outcome(out)
            self.stat("outcome", "error" if "error" in out else "value")
            self.count(repr(spec) if fails_without_catch(spec) else None)
            self.sample({"spec": repr(spec)[:200]}, 3)
            if oc is None:
                terms.append("false")
            else:
                ops = "[" + "; ".join(c01.ops_of_trace(out, spec)) + "]"
                terms.append(f"check_run {c01.cq_spec(spec)} {ops} {oc} && "
                             f"Bool.eqb (fails {c01.cq_spec(spec)}) {'true' if 'error' in out else 'false'}")
            descr.append((repr(spec), oc))
        ok, failing, diags = run_bool_cases("C12", ["Model.EvalTree", "Model.EvalTreeCases"], "", terms, chunk=30)
        self.ob("correspondence", f"tree machine driven by the real order fails exactly when the real run raises, with an "
                f"admissible error, on {len(terms)} programs", ok and not failing,
                "\n".join(diags) + "".join(f"\nmismatch: {descr[i]}" for i in failing[:5]))

    def oracle(self):
        nb = 0
        # 0. a failing call made twice in one execution, the second time by another job that starts only after the first
        #    failure was caught, recorded and finalized (a same-execution replay of a recorded failure must raise too;
        #    seeded change C12b), with and without the backend cache
        staged = []
        for i in range(12 if self.tier == "quick" else 200):
            X = (f"sx{i}", "raise", f"boom{i % 3}", (), None)
            fail_sub = X
            for d in range(self.rng.randint(0, 1)):
                fail_sub = (f"sw{i}_{d}", "list", 0, (fail_sub,), None)
            first = (f"sc{i}", self.rng.choice(["catch", "catchany"]), 0, (fail_sub,), None)
            second = (f"sp{i}", "list", 1, (fail_sub,), None)
            if self.rng.random() < 0.4:
                second = (f"sq{i}", "catch", 0, (second,), None) if self.rng.random() < 0.5 else (f"sl{i}", "list", 2, (second, ("sy", "leaf", 1, (), None)), None)
            spec = (f"ss{i}", "seq", 0, (first, second), None)
            o = sched.run_program(lambda: vm.call(spec), {}, self.rng, cache=self.rng.random() < 0.7,
                                  complete_prob=self.rng.choice([0.1, 0.6]))
            o["spec"] = spec
            staged.append(o)
        # 0b. one failing expression demanded twice by ONE job, the second demand bare and staged after the first was
        #     caught (seeded change C12c/C01b: the duplicate of an already-rejected evaluation resolved to the error object)
        for i in range(8 if self.tier == "quick" else 120):
            X = (f"dx{i}", "raise", f"boom{i % 3}", (), None)
            inner = X if i % 2 == 0 else (f"dw{i}", "list", 0, (X,), None)
            spec = (f"dt{i}", "catchthen", 0, (inner,), None)
            if i % 3 == 0:
                spec = (f"du{i}", "list", 1, (spec,), None)
            o = sched.run_program(lambda: vm.call(spec), {}, self.rng, complete_prob=self.rng.choice([0.1, 0.6]))
            o["spec"] = spec
            staged.append(o)
        # 1. propagation + failed chain on the runs of the correspondence
        for out in getattr(self, "runs", []) + staged:
            self.evaluations += 1
            spec = out["spec"]
            try:
                ref.ref_eval(spec)
                expect_err = None
            except ref.Raised as r:
                expect_err = r.msgs
            except ref.Ambiguous:
                continue
            what = None
            if expect_err is not None:
                if "error" not in out:
                    what = ("error-swallowed", f"reference fails with {expect_err}, run returned {out.get('result')!r}")
                elif out["error"][0] != "ValueError" or out["error"][1] not in expect_err:
                    what = ("error-changed", f"run raised {out['error']!r}, reference {expect_err}")
                else:
                    tr = out["tracer"]
                    # the failing leaf job and every ancestor must be failed
                    def spec_of(j):
                        fa = tr.first_args.get(tr.jobid[j.id])
                        return fa[0][0] if fa and fa[0] else None
                    failed = [j for j in tr.jobobj if j.task.name == "node" and tr.status.get(j.id) == 2]
                    kids_failed = {id(j.parent_job) for j in failed if j.parent_job is not None}
                    # where a chain of failed jobs may end: the task that raised the error, or a job that replayed the
                    # recorded failure of an equal call of this execution (its children were not created again)
                    leafs = [j for j in failed if id(j) not in kids_failed and spec_of(j) is not None and (
                        (spec_of(j)[1] == "raise" and spec_of(j)[2] == out["error"][1])
                        or any(k is not j and spec_of(k) == spec_of(j) for k in failed))]
                    okchain = False
                    for leaf in leafs:
                        j, good = leaf, True
                        while j is not None:
                            if tr.status.get(j.id) != 2:
                                good = False
                                break
                            j = j.parent_job
                        okchain = okchain or good
                    if not okchain:
                        what = ("ancestors-not-failed", "no chain of failed jobs from the root to the raising task")
            elif "error" in out:
                what = ("spurious-error", f"reference succeeds, run raised {out['error']!r}")
            if what:
                nb += 1
                self.findings.append(Finding(f"{what[0]}:{spec!r}"[:200], what[1], {"spec": repr(spec)}))
        # 2. a failed call is executed again in a later execution
        tmp = scratch_dir("rv_c12_")
        try:
            for i in range(10 if self.tier == "quick" else 150):
                spec = jobgen.gen_spec(self.rng, [], depth=self.rng.randint(1, 3), allow_nocse=False, allow_fail=True)
                if not fails_without_catch(spec):
                    continue
                db = tmp / f"b{i}.db"
                o1 = sched.run_program(lambda: vm.call(spec), {}, self.rng, db_path=str(db))
                o2 = sched.run_program(lambda: vm.call(spec), {}, self.rng, db_path=str(db))
                self.evaluations += 1
                if "error" not in o1 or "error" not in o2 or o1["error"][0] != o2["error"][0]:
                    nb += 1
                    self.findings.append(Finding(f"second-run-differs:{spec!r}"[:200],
                                                 f"first {o1.get('error', o1.get('result'))!r}, second {o2.get('error', o2.get('result'))!r}",
                                                 {"spec": repr(spec), "history": "run twice"}))
                    continue
                tr = o2["tracer"]
                reexec = [j for j in tr.jobobj if tr.first_args.get(tr.jobid[j.id]) and j.task.name == "node"
                          and tr.first_args[tr.jobid[j.id]][0][0][1] == "raise" and tr.ex.nsubmits.get(j.id, 0) >= 1]
                if not reexec:
                    nb += 1
                    self.findings.append(Finding(f"failed-call-replayed:{spec!r}"[:200],
                                                 "second execution raised without executing any failing task again",
                                                 {"spec": repr(spec), "history": "run twice"}))
        finally:
            shutil.rmtree(tmp, ignore_errors=True)
        # 3. task matrix: sync/async x check_valid full/shallow x where the failure happens, fresh Scheduler per
        #    execution on one sqlite file (as repeated `redun run`): run 1 fails, run 2 must execute the failing body
        #    again and fail again, run 3 (cause of the failure removed) must succeed, run 4 is a plain replay
        nb += self.task_matrix()
        self.stat("oracle", "violations", nb)
        self.ob("oracle", "implementation oracle ran (same error type/message, failed chain, failed calls re-executed next run)", True)

    def task_matrix(self):
        import logging
        from redun import Scheduler
        from redun.config import Config
        from harness.progs import c12_tasks as T
        logging.getLogger("redun").setLevel(logging.ERROR)
        tmp = scratch_dir("rv_c12m_")
        nb = 0
        combos = [(sh, pa, le) for sh in ("leaf", "parent", "top") for pa in T.PARENTS for le in T.LEAVES
                  if sh != "leaf" or pa == "par_sync_full"]
        if self.tier == "quick":
            self.rng.shuffle(combos)
            combos = combos[:14] + [c for c in combos[14:] if "async" in c[1] + c[2]][:8]
        # the same histories with errors that carry something unpicklable (a lock, an open file, a generator, a lambda):
        # recording such a failure must not replace it by a serialisation error (seeded change C12d)
        # the failing call inside a sub-scheduler run (subrun extending the execution / in a new execution)
        combos += [(sh, "par_sync_full", le) for sh in ("subrun_ext", "subrun_new")
                   for le in (("leaf_sync_full",) if self.tier == "quick" else ("leaf_sync_full", "leaf_sync_shallow"))]
        plain = [(sh, pa, le, None) for sh, pa, le in combos]
        carried = [(sh, pa, le, pl) for pl in ("lock", "file", "generator", "lambda")
                   for sh, pa, le in (combos if self.tier != "quick" else
                                      [("leaf", "par_sync_full", "leaf_sync_full"), ("top", "par_sync_full", "leaf_sync_full"),
                                       ("parent", "par_async_full", "leaf_sync_shallow")])]
        try:
            for i, (sh, pa, le, pl) in enumerate(plain + carried):
                db = tmp / f"m{i}.db"
                x = 100 + i
                T.PAYLOAD[0] = pl

                def run():
                    s = Scheduler(config=Config({"backend": {"db_uri": f"sqlite:///{db}"}}))
                    s.load()
                    s.logger.disabled = True
                    del T.CALLS[:]
                    try:
                        return ("val", s.run(T.program(sh, pa, le, x))), list(T.CALLS)
                    except Exception as e:  # noqa: BLE001
                        return ("err", type(e).__name__, str(e)), list(T.CALLS)
                T.FAIL[0] = True
                r1, c1 = run()
                r2, c2 = run()
                T.FAIL[0] = False
                r3, c3 = run()
                r4, c4 = run()
                self.evaluations += 1
                self.stat("matrix", f"{sh}/{'async' if 'async' in pa and sh != 'leaf' else 'sync'}-parent/{'async' if 'async' in le else 'sync'}-leaf")
                want_err = ("err", "ValueError" if pl is None else "Busy", f"boom-{le}-{x}")
                what = None
                if r1 != want_err:
                    what = ("first-run", f"run 1 gave {r1!r}, expected {want_err!r}")
                elif r2 != want_err:
                    what = ("second-run-differs", f"run 2 gave {r2!r}, expected the same failure {want_err!r}")
                elif le not in c2:
                    what = ("failed-call-replayed", f"run 2 raised the recorded error without executing {le} again (bodies run: {c2})")
                elif r3[0] != "val" or le not in c3:
                    what = ("failure-sticks", f"run 3 (cause removed) gave {r3!r}, bodies run {c3}: the failed call was not executed again")
                elif r4 != r3:
                    what = ("values-not-replayed", f"run 4 gave {r4!r}, run 3 {r3!r}")
                if what:
                    nb += 1
                    self.findings.append(Finding(f"matrix:{what[0]}:{sh}:{pa if sh != 'leaf' else '-'}:{le}"
                                                 + (f":error-carries-{pl}" if pl else ""), what[1],
                                                 {"matrix": [sh, pa, le], "payload": pl, "history": "fail, fail, repaired, replay"}))
        finally:
            T.FAIL[0] = True
            T.PAYLOAD[0] = None
            shutil.rmtree(tmp, ignore_errors=True)
        return nb

    def replay(self, doc):
        r = doc.get("replay", {})
        if "matrix" in r:
            from harness.progs import c12_tasks as T
            self.findings, self.evaluations, self.tier = [], 0, "thorough"
            keep = tuple(r["matrix"])
            orig = (dict(T.PARENTS), dict(T.LEAVES))
            sh, pa, le = keep
            T.PARENTS = {pa: orig[0][pa]}
            T.LEAVES = {le: orig[1][le]}
            try:
                self.task_matrix()
            finally:
                T.PARENTS, T.LEAVES = orig
            bad = [f for f in self.findings if f.replay.get("matrix") == list(keep)]
            print("replay:", "still fails: " + bad[0].what if bad else "holds now")
            return 1 if bad else 0
        if "spec" in r:
            spec = eval(r["spec"])
            out = sched.run_program(lambda: vm.call(spec), {}, random.Random(0))
            try:
                ref.ref_eval(spec)
                good = "error" not in out
            except ref.Raised as e:
                good = "error" in out and out["error"][1] in e.msgs
            except ref.Ambiguous:
                good = True
            print("replay:", "holds now" if good else "still fails")
            return 0 if good else 1
        print("replay: nothing to replay:", doc.get("broken_obligations"))
        return 1
