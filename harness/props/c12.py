"""C12 — Failures propagate and are never replayed from the cache."""
from __future__ import annotations

import json
import random
import shutil

from harness import jobcheck, jobgen, sched
from harness.lib import GEN, VERIF, Finding, PropertyCheck, TranslateError, run_bool_cases, scratch_dir
from harness.progs import ref, vm
from harness.props import c01
from translate import astutil, tr_getcache


def fails_without_catch(spec):
    try:
        ref.ref_eval(spec)
        return False
    except ref.Raised:
        return True
    except ref.Ambiguous:
        return False


class Check(PropertyCheck):
    id = "C12"
    module = "Props.C12"
    extra_modules = ["Model.EvalTreeCases"]
    theorems = ["C12_error_propagates", "C12_failed_chain", "C12_catch_handles", "C12_errors_not_replayed",
                "C12_values_still_replayed", "C12_nonvacuous"]
    assumptions = [
        "propagation is proved on the tree-of-calls model of C01 (same modelled language, same tie); the cache rule is the decision chain of Scheduler._get_cache as extracted by translate/tr_getcache.py",
        "an error handled by an enclosing catch is outside the first sentence of the property; catch replays its own cache entry by design",
    ]
    rule = ("random programs with failing leaves at every depth and in every control form (list, seq, catch), run twice on one "
            "backend; non-trivial = the program fails without an enclosing catch")

    def translate(self):
        want = json.loads(c01.PINS.read_text())
        got = c01.current_pins()
        bad = [k for k in want if got.get(k) != want[k]]
        if bad:
            raise TranslateError(f"shape changed: {bad}")
        pins = json.loads((VERIF / "translate" / "pins_C04.json").read_text())
        gc_pins = {k: v for k, v in pins.items() if k.startswith("Scheduler._get_cache") or k.startswith("Scheduler._has_valid")}
        try:
            text, chain, _ = tr_getcache.translate(pins=gc_pins or None)
        except astutil.TranslateError as e:
            raise TranslateError(str(e))
        GEN.mkdir(exist_ok=True)
        p = GEN / "C12Gen.v"
        p.write_text("From Coq Require Import List. Import ListNotations.\nFrom RV Require Import Model.FileVal.\n"
                     + text.replace("C04_tie_chain", "C12_tie_chain"))
        return [p]

    def correspond(self):
        n = 60 if self.tier == "quick" else 1000
        terms, descr = [], []
        self.runs = []
        for i in range(n):
            spec = jobgen.gen_spec(self.rng, [], depth=self.rng.randint(1, 4), allow_nocse=False, twins=False, allow_fail=True)
            out = sched.run_program(lambda: vm.call(spec), {}, self.rng, complete_prob=self.rng.choice([0.1, 0.4, 0.8]))
            out["spec"] = spec
            self.runs.append(out)
            oc = c01.cq_outcome(out)
            self.stat("outcome", "error" if "error" in out else "value")
            self.count(repr(spec) if fails_without_catch(spec) else None)
            self.sample({"spec": repr(spec)[:200]}, 3)
            if oc is None:
                terms.append("false")
            else:
                ops = "[" + "; ".join(c01.ops_of_trace(out, spec)) + "]"
                terms.append(f"check_run {c01.cq_spec(spec)} {ops} {oc} && "
                             f"Bool.eqb (fails {c01.cq_spec(spec)}) {'true' if 'error' in out else 'false'}")
            descr.append((repr(spec), oc))
        ok, failing, diags = run_bool_cases("C12", ["Model.EvalTree", "Model.EvalTreeCases"], "", terms, chunk=30)
        self.ob("correspondence", f"tree machine driven by the real order fails exactly when the real run raises, with an "
                f"admissible error, on {len(terms)} programs", ok and not failing,
                "\n".join(diags) + "".join(f"\nmismatch: {descr[i]}" for i in failing[:5]))

    def oracle(self):
        nb = 0
        # 1. propagation + failed chain on the runs of the correspondence
        for out in getattr(self, "runs", []):
            self.evaluations += 1
            spec = out["spec"]
            try:
                ref.ref_eval(spec)
                expect_err = None
            except ref.Raised as r:
                expect_err = r.msgs
            except ref.Ambiguous:
                continue
            what = None
            if expect_err is not None:
                if "error" not in out:
                    what = ("error-swallowed", f"reference fails with {expect_err}, run returned {out.get('result')!r}")
                elif out["error"][0] != "ValueError" or out["error"][1] not in expect_err:
                    what = ("error-changed", f"run raised {out['error']!r}, reference {expect_err}")
                else:
                    tr = out["tracer"]
                    # the failing leaf job and every ancestor must be failed
                    leafs = [j for j in tr.jobobj if j.task.name == "node" and tr.first_args.get(tr.jobid[j.id])
                             and tr.first_args[tr.jobid[j.id]][0][0][1] == "raise"
                             and tr.first_args[tr.jobid[j.id]][0][0][2] == out["error"][1] and tr.status.get(j.id) == 2]
                    okchain = False
                    for leaf in leafs:
                        j, good = leaf, True
                        while j is not None:
                            if tr.status.get(j.id) != 2:
                                good = False
                                break
                            j = j.parent_job
                        okchain = okchain or good
                    if not okchain:
                        what = ("ancestors-not-failed", "no chain of failed jobs from the root to the raising task")
            elif "error" in out:
                what = ("spurious-error", f"reference succeeds, run raised {out['error']!r}")
            if what:
                nb += 1
                self.findings.append(Finding(f"{what[0]}:{spec!r}"[:200], what[1], {"spec": repr(spec)}))
        # 2. a failed call is executed again in a later execution
        tmp = scratch_dir("rv_c12_")
        try:
            for i in range(10 if self.tier == "quick" else 150):
                spec = jobgen.gen_spec(self.rng, [], depth=self.rng.randint(1, 3), allow_nocse=False, allow_fail=True)
                if not fails_without_catch(spec):
                    continue
                db = tmp / f"b{i}.db"
                o1 = sched.run_program(lambda: vm.call(spec), {}, self.rng, db_path=str(db))
                o2 = sched.run_program(lambda: vm.call(spec), {}, self.rng, db_path=str(db))
                self.evaluations += 1
                if "error" not in o1 or "error" not in o2 or o1["error"][0] != o2["error"][0]:
                    nb += 1
                    self.findings.append(Finding(f"second-run-differs:{spec!r}"[:200],
                                                 f"first {o1.get('error', o1.get('result'))!r}, second {o2.get('error', o2.get('result'))!r}",
                                                 {"spec": repr(spec), "history": "run twice"}))
                    continue
                tr = o2["tracer"]
                reexec = [j for j in tr.jobobj if tr.first_args.get(tr.jobid[j.id]) and j.task.name == "node"
                          and tr.first_args[tr.jobid[j.id]][0][0][1] == "raise" and tr.ex.nsubmits.get(j.id, 0) >= 1]
                if not reexec:
                    nb += 1
                    self.findings.append(Finding(f"failed-call-replayed:{spec!r}"[:200],
                                                 "second execution raised without executing any failing task again",
                                                 {"spec": repr(spec), "history": "run twice"}))
        finally:
            shutil.rmtree(tmp, ignore_errors=True)
        self.stat("oracle", "violations", nb)
        self.ob("oracle", "implementation oracle ran (same error type/message, failed chain, failed calls re-executed next run)", True)

    def replay(self, doc):
        r = doc.get("replay", {})
        if "spec" in r:
            spec = eval(r["spec"])
            out = sched.run_program(lambda: vm.call(spec), {}, random.Random(0))
            try:
                ref.ref_eval(spec)
                good = "error" not in out
            except ref.Raised as e:
                good = "error" in out and out["error"][1] in e.msgs
            except ref.Ambiguous:
                good = True
            print("replay:", "holds now" if good else "still fails")
            return 0 if good else 1
        print("replay: nothing to replay:", doc.get("broken_obligations"))
        return 1
