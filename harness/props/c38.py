"""C38 — Sub-scheduler runs are equivalent to direct evaluation.

translate   : translate/tr_subrun.py -> coq/Gen/C38Gen.v (five tie lemmas, reflexivity)
correspond  : (1) RedunBackendDb.check_cache on crafted backend states (every combination of the three lookups'
                  answers x scope x check_valid x allowed set) against the translated program run in Coq,
                  result and observable backend consultations;
              (2) Scheduler._get_cache with a scripted backend: the arguments handed to check_cache for every
                  combination of the job's cache options (incl. script / async tasks) and the final chain;
              (3) generated sub-workflows on real schedulers (thread executor): for every _subrun_root_task job the
                  options that reach check_cache against root_task_jobopts, and the Job rows written by every
                  sub-scheduler against sub_rows;
              (4) the hand-back model against the real Scheduler.run / extend_run / _subrun_root_task / then on
                  scripted inner outcomes.
oracle      : generated sub-workflows (harness/progs/vm_c38.py) through subrun with new_execution on/off, cache
              scope / check_valid / cache=False varied, thread and process executors, one to three executions on
              one backend; result or error against the scheduler-free reference and against direct evaluation on
              a fresh backend; Job rows in the database; no single-reduction replay / evaluation-cache lookup
              for the _subrun_root_task job.
"""
from __future__ import annotations

import itertools
import json
import os
import random
import shutil
import subprocess
import sys
import threading
import time
from pathlib import Path

from harness.lib import GEN, Finding, PropertyCheck, TranslateError, run_bool_cases, scratch_dir
from translate import astutil

PINS_FILE = Path(__file__).resolve().parents[2] / "translate" / "pins_C38.json"
ROOT_TASK = "redun.subrun_root_task"
KEY_LOCK_INNER = "sqlite-lock:new-execution-subrun-of-prov-false-call"
KEY_LOCK_CALLER = "sqlite-lock:subrun-from-prov-false-caller"
KEY_RACE = "sqlite-race:concurrent-schedulers-insert-the-same-row"


# ------------------------------------------------------------------------------------------------ programs
def norm(v):
    if isinstance(v, (list, tuple)):
        return [norm(x) for x in v]
    return v


class ProgGen:
    """Structured random specs of harness/progs/vm_c38.py: twins, failures, catch, seq, contexts, call options,
    and subrun nodes with varied settings."""

    def __init__(self, rng, allow_noprov=False, execs=("default",)):
        self.rng, self.allow_noprov, self.execs = rng, allow_noprov, execs
        self.pool = []
        self.n = 0

    def opts(self, ctx):
        r = self.rng
        o = {}
        if r.random() < 0.08:
            o["cache_scope"] = r.choice(["NONE", "CSE"])
        if self.allow_noprov and r.random() < 0.05:
            o["prov"] = False
        if ctx and r.random() < 0.3:
            # update_context overrides: k may also be defined by the config-level context, j never is
            o["context"] = r.choice([{"k": r.choice([1, 2])}, {"k": r.choice([1, 2])}, {"j": r.choice([3, 4])},
                                     {"k": r.choice([1, 2]), "j": 3}])
        return o or None

    def leaf(self, ctx, fail):
        r = self.rng
        if self.pool and r.random() < 0.4:
            return r.choice(self.pool)
        self.n += 1
        if ctx and r.random() < 0.5:
            s = (f"x{self.n % 2}", "ctx", self.n % 2, (), self.opts(ctx))
        elif fail and r.random() < 0.2:
            s = (f"f{self.n}", "raise", f"boom{r.randint(0, 2)}", (), self.opts(ctx))
        else:
            s = (f"l{self.n}", "leaf", r.randint(0, 3), (), self.opts(ctx))
        self.pool.append(s)
        return s

    def subrun_payload(self):
        r = self.rng
        pl = [("new_execution", r.random() < 0.5), ("executor", r.choice(self.execs))]
        if r.random() < 0.45:
            pl.append(("cache_scope", r.choice(["NONE", "CSE", "BACKEND"])))
        if r.random() < 0.45:
            pl.append(("check_valid", r.choice(["full", "shallow"])))
        if r.random() < 0.2:
            pl.append(("aslist", True))
        return tuple(pl)

    def node(self, d, ctx, fail, psub):
        r = self.rng
        if d <= 0 or r.random() < 0.25:
            s = self.leaf(ctx, fail)
        else:
            self.n += 1
            k = r.random()
            n = r.choice([1, 2, 2, 3])
            ch = tuple(self.node(d - 1, ctx, fail, psub) for _ in range(n))
            if k < 0.6:
                s = (f"n{self.n}", "list", r.randint(0, 1), ch, self.opts(ctx))
            elif k < 0.8:
                s = (f"c{self.n}", "catch", 0, ch[:1], self.opts(ctx))
            else:
                s = (f"s{self.n}", "seq", 0, ch, self.opts(ctx))
            if r.random() < 0.3:
                self.pool.append(s)
        if r.random() < psub:
            self.n += 1
            pl = self.subrun_payload()
            if r.random() < 0.3 and not (s[4] and "lazy" in s[4]):
                # the subrun'd expression is a bare task call with a call-time option whose value is a lazy expression
                oname, shape, val = r.choice([("memory", "call", 2), ("memory", "simple", 2), ("vcpus", "simple", 1),
                                              ("extra", "nested", 3), ("executor", "call", "default")])
                s = s[:4] + (dict(s[4] or {}, lazy=(oname, shape, (f"o{self.n}", "leaf", val, (), None))),)
            if not dict(pl).get("aslist") and r.random() < 0.15:
                pl = pl + (("wrap", r.choice(["catch", "seq"])),)      # ... or a scheduler-task call
            kids = (s,)
            if dict(pl).get("aslist") and r.random() < 0.6:
                kids = (s, self.leaf(ctx, fail))
            s = (f"S{self.n}", "subrun", pl, kids, self.opts(ctx))
            if r.random() < 0.4:
                self.pool.append(s)          # the same subrun twice: CSE on the _subrun_root_task job
        return s

    def program(self, depth, ctx=False, fail=True, psub=0.3):
        s = self.node(depth, ctx, fail, psub)
        if "'subrun'" not in repr(s):
            self.n += 1
            s = (f"S{self.n}", "subrun", self.subrun_payload(), (s,), None)
        return s


def round_spec(spec, k):
    """a program of pseudo-kind 'rounds' evaluates its k-th child in the k-th execution on the backend"""
    if spec[1] == "rounds":
        return spec[3][min(k, len(spec[3]) - 1)]
    return spec


def subrun_nodes(spec):
    out = []
    if spec[1] == "subrun":
        out.append(spec)
    for c in spec[3]:
        out += subrun_nodes(c)
    return out


def spec_size(spec):
    return 1 + sum(spec_size(c) for c in spec[3])


def has_noprov(spec):
    return "'prov': False" in repr(spec)


def _S(name, child, new_execution=False, **kw):
    return (name, "subrun", (("new_execution", new_execution), ("executor", "default")) + tuple(sorted(kw.items())), (child,), None)


_LEAVES = ("m", "list", 0, (("l1", "leaf", 1, (), None), ("l2", "leaf", 2, (), None)), None)
_BOOM = ("f1", "raise", "boom1", (), None)
_CTXLEAF = ("x0", "ctx", 0, (), None)
_OPT = ("om", "leaf", 2, (), None)
_LZ_OK = ("lz", "list", 5, (("l1", "leaf", 1, (), None),), {"lazy": ("memory", "simple", _OPT)})
_LZ_FAIL = ("lf", "raise", "boom1", (), {"lazy": ("memory", "call", _OPT)})
_LZ_NEST = ("ln", "leaf", 6, (), {"lazy": ("extra", "nested", _OPT)})
_LZ_EXEC = ("le", "leaf", 7, (), {"lazy": ("executor", "call", ("oe", "leaf", "default", (), None))})
# always run (thread executor): situations the random programs reach only sometimes
# (name, program, cache flags[, config-level context])
SCENARIOS = [
    # the same subrun under two different parents, one after the other: CSE hit on the _subrun_root_task job
    # (the two subrun nodes differ in name only, so the calling jobs differ and the subrun expressions are equal)
    ("cse-twins", ("q", "seq", 0, (_S("Sa", _LEAVES), _S("Sb", _LEAVES)), None), [True]),
    # full validity checking, run twice: a single-reduction entry for the job exists in the second run and must not be used
    ("full-twice", _S("S", _LEAVES, check_valid="full"), [True, True]),
    ("full-twice-new", _S("S", _LEAVES, True, check_valid="full", cache_scope="BACKEND"), [True, True, False]),
    # errors, replayed: the dict with 'error' (extend) and the failed job (new execution)
    ("error-extend-twice", ("c", "catch", 0, (_S("S", _BOOM),), None), [True, True]),
    # config-level context {"k": 7}: a caller / ancestor override of the config-defined key k (and of the other key j)
    # must reach a sub-workflow that reads them, in a new execution and in the current one
    ("ctx-override-new", ("r", "list", 0, (_S("Sn", _CTXLEAF, True),), {"context": {"k": 2, "j": 3}}), [True, True], {"k": 7}),
    ("ctx-override-extend", ("r", "list", 0, (_S("Se", _CTXLEAF, False),), {"context": {"k": 2, "j": 3}}), [True], {"k": 7}),
    ("ctx-override-on-subrun-node", ("Sn", "subrun", (("new_execution", True), ("executor", "default")), (_CTXLEAF,), {"context": {"k": 1}}), [True], {"k": 7}),
    ("ctx-config-only", ("r", "list", 0, (_S("Sn", _CTXLEAF, True), _S("Se", _CTXLEAF, False)), {"context": {"j": 4}}), [True], {"k": 7}),
    # the SAME expression through subrun first in a new execution, then extending the current one: the second must start
    # its own sub-scheduler and record the sub-workflow's jobs under its _subrun_root_task job --
    # (a) in two executions on one backend, (b) in one execution, sequenced, (c) in one execution, pending together
    ("new-then-extend-two-executions", ("R", "rounds", 0, (_S("Sn", _LEAVES, True), _S("Se", _LEAVES, False)), None), [True, True]),
    ("new-then-extend-sequenced", ("q", "seq", 0, (_S("Sn", _LEAVES, True), _S("Se", _LEAVES, False)), None), [True]),
    ("new-and-extend-pending-together", ("p", "list", 0, (_S("Sn", _LEAVES, True), _S("Se", _LEAVES, False)), None), [True]),
    ("extend-then-new-sequenced", ("q", "seq", 0, (_S("Se", _LEAVES, False), _S("Sn", _LEAVES, True)), None), [True, True]),
    # the subrun'd expression is a bare task call whose call-time option is a lazy expression (task call, SimpleExpression,
    # nested in a dict/list, an executor name), succeeding and failing, both modes, cache on and off
    ("lazy-option-extend", _S("S", _LZ_OK, False), [True, False]),
    ("lazy-option-new", _S("S", _LZ_OK, True), [True, False]),
    ("lazy-option-fail-extend", _S("S", _LZ_FAIL, False), [True]),
    ("lazy-option-fail-new", ("c", "catch", 0, (_S("S", _LZ_FAIL, True),), None), [False]),
    ("lazy-option-nested-and-executor", ("p", "list", 0, (_S("Sa", _LZ_NEST, False), _S("Sb", _LZ_EXEC, True)), None), [True]),
    ("scheduler-task-call-subrun", ("p", "list", 0, (("Sa", "subrun", (("new_execution", False), ("executor", "default"), ("wrap", "catch")), (_BOOM,), None),
                                                     ("Sb", "subrun", (("new_execution", True), ("executor", "default"), ("wrap", "seq")), (_LZ_OK, _CTXLEAF), None)), None), [True]),
    ("error-new-twins", ("q", "seq", 0, (("c1", "catch", 0, (_S("Sa", _BOOM, True),), None), ("c2", "catch", 0, (_S("Sb", _BOOM, True),), None)), None), [True, True]),
]


# ------------------------------------------------------------------------------------------------ running
def make_scheduler(db, cfgctx=None, busy_timeout=2.0):
    from redun import Scheduler
    from redun.config import Config
    cfg = {"backend": {"db_uri": f"sqlite:///{db}?timeout={busy_timeout}", "db_retries": "3", "db_retries_backoff": "0.05"},
           "executors.default": {"type": "local", "mode": "thread"},
           "executors.process": {"type": "local", "mode": "process"}}
    if cfgctx:
        cfg["scheduler"] = {"context": json.dumps(cfgctx)}       # [scheduler] context = {...}: forwarded to sub-schedulers too
    s = Scheduler(config=Config(cfg))
    s.load()
    s.logger.disabled = True
    return s


def base_ctx(cfgctx, runctx):
    """context of the execution: the config-level context, overridden by the context given to run()"""
    out = dict(cfgctx or {})
    out.update(runctx or {})
    return out or None


def run_expr(db, expr_builder, cache=True, context=None, cfgctx=None, dryrun=False):
    s = make_scheduler(db, cfgctx)
    try:
        return {"result": s.run(expr_builder(), cache=cache, context=context or {}, dryrun=dryrun)}, s
    except Exception as e:  # noqa
        return {"error": (type(e).__name__, str(e))}, s


def expected(spec, ctx):
    """the set of admissible outcomes ({("val", frozen value) | ("err", message)}), or None when it is too large to
    enumerate (then only the kind of outcome is checked for that program; every other check still runs)"""
    from harness.progs import vm_c38
    try:
        return vm_c38.ref_outcomes(spec, ctx)
    except vm_c38.TooManyOutcomes:
        return None


def outcome_of(out):
    from harness.progs import vm_c38
    if "result" in out:
        return ("val", vm_c38.freeze(out["result"]))
    if "error" in out and out["error"][0] == "ValueError":
        return ("err", out["error"][1])
    return None


def agrees(out, exp):
    o = outcome_of(out)
    if o is None:
        return False            # an error that no program of the language raises (infrastructure, protocol, ...)
    return True if exp is None else o in exp


def show_exp(exp):
    if exp is None:
        return "(too many admissible outcomes to list)"
    l = sorted(exp, key=repr)
    return repr(l[0][1]) if len(l) == 1 and l[0][0] == "val" else "one of " + repr(l)[:400]


def is_infra(out):
    """failures of the shared sqlite file under concurrent schedulers (time-dependent): lock time-outs, insert races"""
    return "error" in out and out["error"][0] in ("OperationalError", "IntegrityError") and \
        ("database is locked" in out["error"][1] or "UNIQUE constraint failed" in out["error"][1])


def is_lock(out):
    return "error" in out and out["error"][0] == "OperationalError" and "database is locked" in out["error"][1]


def run_in_child(job: dict, timeout=90):
    """run one program (all its rounds) in a child interpreter: used for process-executor programs, bounded in time"""
    env = dict(os.environ)
    p = subprocess.run([sys.executable, "-m", "harness.props.c38", "--child"], input=json.dumps(job), text=True,
                       capture_output=True, timeout=timeout, env=env, cwd=job["cwd"])
    for line in p.stdout.splitlines():
        if line.startswith("@@C38 "):
            return json.loads(line[6:])
    return {"child_failed": (p.stdout + p.stderr)[-1500:]}


def child_main():
    from harness.progs import vm_c38
    job = json.loads(sys.stdin.read())
    spec = eval(job["spec"])
    outs = []
    for k, cache in enumerate(job["caches"]):
        out, s = run_expr(job["db"], lambda: vm_c38.call38(round_spec(spec, k + job.get("first_round", 0))), cache=cache, context=job.get("context"), cfgctx=job.get("cfgctx"))
        if "result" in out:
            out["result"] = norm(out["result"])
        outs.append(out)
    print("@@C38 " + json.dumps({"outs": outs}))


def db_rows(db):
    """Job rows and executions of a sqlite file: {id: (parent_id, execution_id, task fullname, cached)}"""
    import sqlite3
    con = sqlite3.connect(db)
    try:
        rows = {r[0]: (r[1], r[2], ((r[4] + ".") if r[4] else "") + (r[3] or ""), bool(r[5]))
                for r in con.execute("select job.id, job.parent_id, job.execution_id, task.name, task.namespace, job.cached "
                                     "from job left join task on task.hash = job.task_hash")}
        execs = {r[0]: r[1] for r in con.execute("select id, job_id from execution")}
    finally:
        con.close()
    return rows, execs


# ------------------------------------------------------------------------------------------------ histories
# The same sub-workflow, with an impure probe task inside, run 2-3 times on one backend under different run options,
# (a) directly, (b) through subrun extending the execution, (c) through subrun with new_execution=True.  The external
# state changes before every execution, so whether the probe really ran again is visible in the value and in its log.
_PROBE = ("pr", "probe", "a", (), None)
HIST_BODIES = {
    "flat": ("m", "list", 0, (_PROBE, ("l1", "leaf", 1, (), None)), None),
    "nested": ("o", "list", 1, (("c", "catch", 0, (("i", "list", 0, (_PROBE,), None),), None), ("pr2", "probe", "b", (), None)), None),
}
PROBE_TASK = "rvvm38.probe38"


def hist_variants(body, sub_opts=()):
    mk = lambda ne: ("S", "subrun", (("new_execution", ne), ("executor", "default")) + tuple(sub_opts), (body,), None)
    return {"direct": body, "extend": mk(False), "new": mk(True)}


def run_history(tmp, tag, spec, hist, states=None):
    with Probe() as P:
        return _run_history(tmp, tag, spec, hist, P, states)


def _run_history(tmp, tag, spec, hist, P, states=None):
    """hist: list of True / False (scheduler-level cache flag) / "dry" (cache on, dry run).  Returns per execution
    dict(out, execs: real probe executions, new_execs: executions recorded, probe_rows_ok, detail)."""
    from harness.progs import vm_c38
    db = tmp / f"{tag}.db"
    steps = []
    for k, h in enumerate(hist):
        (tmp / "state").write_text(states[k] if states else f"s{k}")     # "fail..." makes the probe task raise
        (tmp / "log").write_text("")
        before_rows, before_execs = db_rows(str(db)) if db.exists() else ({}, {})
        out, _ = run_expr(db, lambda: vm_c38.call38(spec), cache=(h is not False), dryrun=(h == "dry"))
        out = P.reclassify(out)
        n = len((tmp / "log").read_text().split())
        rows, execs = db_rows(str(db))
        new = [j for j in rows if j not in before_rows]
        probes = [j for j in new if rows[j][2] == PROBE_TASK and not rows[j][3]]
        under_root = 0
        for j in probes:
            p = rows[j][0]
            while p is not None and p in rows and rows[p][2] != ROOT_TASK:
                p = rows[p][0]
            under_root += 1 if (p is not None and p in rows) else 0
        if "result" in out:
            out = {"result": norm(out["result"])}
        steps.append({"out": out, "execs": n, "new_execs": len([e for e in execs if e not in before_execs]),
                      "probe_rows": len(probes), "probe_rows_under_root_task": under_root,
                      "probe_row_execs": len({rows[j][1] for j in probes})})
    return steps


def compare_history(direct, other, variant, default_options=True):
    """per execution: same outcome, same number of real probe executions, and the job tree the variant must leave"""
    for k, (d, o) in enumerate(zip(direct, other)):
        where = f"execution {k + 1}"
        if d["out"] != o["out"]:
            return f"{where}: directly {d['out']!r:.160}, through subrun ({variant}) {o['out']!r:.160}"
        if d["execs"] != o["execs"]:
            return (f"{where}: the impure inner task really ran {d['execs']} time(s) when evaluated directly and {o['execs']} "
                    f"time(s) through subrun ({variant}); both returned {o['out']!r:.100}")
        if o["probe_rows"] != o["execs"] or d["probe_rows"] != d["execs"]:
            return f"{where}: {o['execs']} real executions but {o['probe_rows']} uncached Job rows of the inner task ({variant})"
        if variant == "extend":
            if o["new_execs"] != 1:
                return f"{where}: a subrun extending the execution recorded {o['new_execs']} executions"
            if o["probe_rows_under_root_task"] != o["probe_rows"]:
                return f"{where}: inner jobs of the extending subrun are not recorded under the _subrun_root_task job"
        if variant == "new":
            started = 1 if d["execs"] > 0 else 0
            # with full checking / a narrower scope the sub-scheduler is started even when everything inside is replayed
            allowed = {1 + started} if default_options else {1 + started, 2}
            if o["new_execs"] not in allowed and "error" not in o["out"]:
                return (f"{where}: new_execution subrun recorded {o['new_execs']} executions, expected {1 + started} "
                        f"(the sub-workflow {'ran' if started else 'was replayed'} when evaluated directly)")
    return None


def extend_invariant(db, root_jobs):
    """An extend-mode subrun records the sub-workflow's jobs under a calling _subrun_root_task job: the call node such a
    job resolves to (run by itself, or replayed by CSE / ultimate reduction / collapse) must have been produced by a
    _subrun_root_task job that has child jobs in its execution.  root_jobs: [(job id, new_execution)] seen at
    record_job_start.  Returns a list of problems."""
    import sqlite3
    con = sqlite3.connect(db)
    try:
        call = {r[0]: r[1] for r in con.execute("select id, call_hash from job")}
        has_kids = {r[0] for r in con.execute("select distinct parent_id from job where parent_id is not null")}
    finally:
        con.close()
    producers = {}
    for jid, ch in call.items():
        if ch is not None:
            producers.setdefault(ch, []).append(jid)
    bad = []
    for jid, ne in root_jobs:
        if ne or call.get(jid) is None:
            continue
        if not any(p in has_kids for p in producers[call[jid]]):
            bad.append(f"extend-mode _subrun_root_task job {jid[:8]} resolved to call node {call[jid][:8]}, which no job produced by "
                       f"extending an execution: none of the {len(producers[call[jid]])} job(s) with that call node has child jobs, "
                       f"so the sub-workflow's jobs are not recorded under a calling job")
    return bad


def row_invariants(db, spec, rounds):
    """DB-only checks of the Job rows; returns a list of problems"""
    rows, execs = db_rows(db)
    bad = []
    kids = {}
    for jid, (par, ex, task, cached) in rows.items():
        if par is not None:
            if par not in rows:
                bad.append(f"job {jid[:8]} ({task}) has an unknown parent {par[:8]}")
            elif rows[par][1] != ex:
                bad.append(f"job {jid[:8]} ({task}) is in another execution than its parent")
            kids.setdefault(par, []).append(jid)
    roots = {}
    for jid, (par, ex, task, cached) in rows.items():
        if par is None:
            roots.setdefault(ex, []).append(jid)
    for ex, js in roots.items():
        if len(js) != 1 or execs.get(ex) != js[0]:
            bad.append(f"execution {ex[:8]} has root jobs {[j[:8] for j in js]} but records {str(execs.get(ex))[:8]}")
    for jid, (par, ex, task, cached) in rows.items():
        if task == ROOT_TASK and len(kids.get(jid, [])) > 1:
            bad.append(f"_subrun_root_task job {jid[:8]} has {len(kids[jid])} child jobs")
    nodes = subrun_nodes(spec)
    if not has_noprov(spec):
        if nodes and all(not dict(n[2]).get("new_execution") for n in nodes) and len(execs) != rounds:
            bad.append(f"every subrun extends the execution, yet {len(execs)} executions were recorded for {rounds} runs")
        if nodes and all(dict(n[2]).get("new_execution") for n in nodes):
            for jid, (par, ex, task, cached) in rows.items():
                if task == ROOT_TASK and kids.get(jid):
                    bad.append(f"new_execution subrun job {jid[:8]} has child jobs in the caller's execution")
    return bad


# ------------------------------------------------------------------------------------------------ instrumentation
class Probe:
    """Class-level wrappers (restored afterwards; nothing in /repo is touched) that record, per thread:
    _get_cache calls of _subrun_root_task jobs with what reached check_cache and whether the evaluation cache was
    consulted; every Job row a backend writes; every extend_run / run of a scheduler."""

    def __init__(self):
        self.tl = threading.local()
        self.cache_calls = []
        self.job_starts = []      # (backend id, job id, parent id, execution id, task)
        self.root_jobs = []       # (job id, new_execution argument) of every _subrun_root_task job recorded
        self.sub_runs = []        # dict(mode, backend, caller, job_id / execution)
        self.lock = threading.RLock()
        self.saved = []

    def token(self, backend):
        """a name for a backend object that is never reused (id() of a collected object can be)"""
        t = getattr(backend, "_rv_c38_token", None)
        if t is None:
            with self.lock:
                self.ntok = getattr(self, "ntok", 0) + 1
                t = backend._rv_c38_token = self.ntok
        return t

    def reclassify(self, out):
        """An extending sub-scheduler hands an inner error back as a VALUE in its result dict, which the calling scheduler
        then pickles.  When that inner error is the shared-backend insert race / lock (a sqlalchemy error whose statement
        parameters hold BLOBs as memoryview objects), the caller fails with TypeError 'cannot pickle memoryview objects'
        instead: the same time-dependent failure, seen one level up.  It is re-labelled only when this attempt really had
        an extending sub-scheduler return such a database error; any other TypeError stays a difference."""
        if "error" in out and out["error"][0] == "TypeError" and "cannot pickle memoryview" in out["error"][1]:
            inner = [sr for sr in self.sub_runs if sr.get("error_type") in ("IntegrityError", "OperationalError")
                     and is_infra({"error": (sr["error_type"], sr.get("error_text") or "")})]
            if inner:
                return {"error": (inner[0]["error_type"], inner[0]["error_text"] + "  [handed back by an extending sub-scheduler in its "
                                  "result dict; the calling scheduler could not pickle it: TypeError cannot pickle memoryview objects]")}
        return out

    def patch(self, cls, name, wrapper_factory):
        orig = cls.__dict__[name]
        self.saved.append((cls, name, orig))
        setattr(cls, name, wrapper_factory(orig))

    def __enter__(self):
        from redun.backends.db import RedunBackendDb
        from redun.scheduler import Scheduler
        P = self

        def w_get_cache(orig):
            def _get_cache(self, job):
                rec = None
                if job.task.fullname == ROOT_TASK:
                    try:
                        pspec = job.parent_job.eval_args[0][0] if job.parent_job is not None else None
                    except Exception:
                        pspec = None
                    rec = {"options": dict(job.get_options()), "use_cache": self._use_cache, "parent_spec": pspec,
                           "checks": [], "eval_cache": 0}
                prev = getattr(P.tl, "rec", None)
                P.tl.rec = rec
                try:
                    r = orig(self, job)
                finally:
                    P.tl.rec = prev
                if rec is not None:
                    rec["returned_cached"] = bool(r[1])
                    with P.lock:
                        P.cache_calls.append(rec)
                return r
            return _get_cache

        def w_check_cache(orig):
            def check_cache(self, *a, **kw):
                r = orig(self, *a, **kw)
                rec = getattr(P.tl, "rec", None)
                if rec is not None:
                    names = ["task_hash", "args_hash", "eval_hash", "execution_id", "scheduler_task_hashes", "cache_scope",
                             "check_valid", "context_hash", "allowed_cache_results"]
                    args = dict(zip(names, a))
                    args.update(kw)
                    al = args.get("allowed_cache_results")
                    rec["checks"].append({"scope": args["cache_scope"].name, "valid": args["check_valid"].name,
                                          "allowed": None if al is None else sorted(x.name for x in al),
                                          "type": r[2].name})
                return r
            return check_cache

        def w_get_eval_cache(orig):
            def get_eval_cache(self, *a, **kw):
                rec = getattr(P.tl, "rec", None)
                if rec is not None:
                    rec["eval_cache"] += 1
                return orig(self, *a, **kw)
            return get_eval_cache

        def w_record_job_start(orig):
            def record_job_start(self, job, *a, **kw):
                r = orig(self, job, *a, **kw)
                with P.lock:
                    P.job_starts.append((P.token(self), job.id, job.parent_job.id if job.parent_job else None,
                                         job.execution.id, job.task.fullname))
                    if job.task.fullname == ROOT_TASK:
                        try:
                            P.root_jobs.append((job.id, bool(job.expr.kwargs.get("new_execution", False))))
                        except Exception:  # noqa
                            pass
                return r
            return record_job_start

        def w_extend_run(orig):
            def extend_run(self, expr, parent_job_id, *a, **kw):
                r = orig(self, expr, parent_job_id, *a, **kw)
                with P.lock:
                    err = r.get("error") if isinstance(r, dict) else None
                    P.sub_runs.append({"mode": "extend", "backend": P.token(self.backend), "caller": parent_job_id,
                                       "error_type": type(err).__name__ if err is not None else None,
                                       "error_text": str(err)[:300] if err is not None else None,
                                       "job_id": r.get("job_id") if isinstance(r, dict) else None,
                                       "keys": sorted(r) if isinstance(r, dict) else None})
                return r
            return extend_run

        def w_run(orig):
            def run(self, *a, **kw):
                try:
                    return orig(self, *a, **kw)
                finally:
                    if threading.current_thread() is not threading.main_thread():
                        with P.lock:
                            P.sub_runs.append({"mode": "new", "backend": P.token(self.backend), "caller": None})
            return run

        self.patch(Scheduler, "_get_cache", w_get_cache)
        self.patch(RedunBackendDb, "check_cache", w_check_cache)
        self.patch(RedunBackendDb, "get_eval_cache", w_get_eval_cache)
        self.patch(RedunBackendDb, "record_job_start", w_record_job_start)
        self.patch(Scheduler, "extend_run", w_extend_run)
        self.patch(Scheduler, "run", w_run)
        return self

    def __exit__(self, *exc):
        for cls, name, orig in reversed(self.saved):
            setattr(cls, name, orig)
        self.saved = []


# ------------------------------------------------------------------------------------------------ Coq rendering
SC = {"NONE": "ScNONE", "CSE": "ScCSE", "BACKEND": "ScBACKEND"}
CV = {"FULL": "CvFULL", "SHALLOW": "CvSHALLOW", "full": "CvFULL", "shallow": "CvSHALLOW"}


def cq_opt(x):
    return "None" if x is None else f"(Some {x})"


def cq_allowed_list(al):
    return "None" if al is None else "(Some [" + "; ".join(al) + "])"


def cq_bools(l):
    return "None" if l is None else "(Some [" + "; ".join("true" if x else "false" for x in l) + "])"


# ------------------------------------------------------------------------------------------------ the check
class Check(PropertyCheck):
    id = "C38"
    module = "Props.C38"
    theorems = ["C38_subrun_no_single_reduction", "C38_no_single_when_excluded", "C38_ultimate_only_when_shallow_backend",
                "C38_cache_false_is_cse_only", "C38_direct_cache_false_is_cse_only", "C38_guarded_downgrade_refuted", "C38_check_cache_closed_form", "C38_get_cache_total", "C38_subrun_eq_direct", "C38_second_execution_eq_direct", "C38_value_shape_replays_failure_refuted", "C38_replayed_dict_eq_direct",
                "C38_then_never_silent", "C38_forwarded_context_is_callers", "C38_root_key_separates_modes", "C38_unwrapped_root_is_single_job", "C38_extend_jobs_same_execution", "C38_extend_jobs_under_caller",
                "C38_extend_root_is_child_of_caller", "C38_new_execution_jobs_detached", "C38_nonvacuous"]
    allowed_axioms = []
    assumptions = [
        "the inner evaluation is deterministic: a sub-scheduler evaluates an expression to the outcome the caller's scheduler "
        "would (not a theorem; exercised by the end-to-end oracle against a scheduler-free reference and direct evaluation)",
        "backend lookups (CSE query, _get_call_node, get_call_cache, get_eval_cache) are answers of the environment in the "
        "model: the theorems quantify over all of them, i.e. over all backend states",
        "task_options passed to subrun(...) do not themselves override allowed_cache_results (all_options.update(task_options) would let them)",
        "dry runs are outside the oracle (a dry run of the caller does not start the sub-scheduler); the hand-back model covers the 'dryrun' key",
        "local executors (thread; process via fork) and an sqlite file shared by caller and sub-scheduler, as the forwarded configuration gives",
    ]
    rule = ("structured random programs over leaf/raise/ctx/list/seq/catch calls with twins, call options and contexts, "
            "with subrun nodes (new_execution on/off, cache_scope NONE/CSE/BACKEND/absent, check_valid full/shallow/absent, "
            "single call / nested list / scheduler-task call, call-time options with lazy values, thread or process executor, nested subruns, the same subrun twice), each run one to "
            "three times on one backend with cache=True/False; plus the exhaustive grid of check_cache arguments x backend "
            "answers and of _get_cache option combinations. A program is non-trivial if it has >= 3 calls; distinct by repr")

    # ------------------------------------------------------------------ translate
    def translate(self):
        from translate import tr_subrun
        pins = json.loads(PINS_FILE.read_text())
        self.tr_info = None
        try:
            text, info, got = tr_subrun.translate(pins=pins)
        except astutil.TranslateError as e:
            raise TranslateError(str(e))
        self.tr_info = info
        GEN.mkdir(exist_ok=True)
        p = GEN / "C38Gen.v"
        p.write_text(text)
        return [p]

    def requires(self):
        """modules for the correspondence cases: the regenerated configuration if the translator produced one"""
        if getattr(self, "tr_info", None) is not None and (GEN / "C38Gen.vo").exists():
            return ["Model.Subrun", "Gen.C38Gen"], ("gen_check_cache", "gen_getcache", "gen_subrun_opts", "gen_handback", "gen_wiring", "gen_ctx_order")
        return ["Model.Subrun"], ("shipped_check_cache", "shipped_getcache", "shipped_subrun_opts", "shipped_handback", "shipped_wiring", "shipped_ctx_order")

    # ------------------------------------------------------------------ correspond
    def correspond(self):
        self.reqs, names = self.requires()
        self.N = dict(zip(("cc", "gc", "so", "hb", "w", "co"), names))
        self.deferred = []
        self.corr_check_cache()
        self.corr_get_cache()
        self.corr_handback()
        self.e2e()
        self.flush_cases()

    def defer(self, name, terms, descr, nonempty=True):
        self.deferred.append((name, list(terms), list(descr), nonempty))

    def flush_cases(self):
        """all model-side evaluations in one sharded Coq run (loading the development dominates a small file)"""
        terms = [t for _, ts, _, _ in self.deferred for t in ts]
        ok, failing, diags = run_bool_cases("C38", self.reqs, "", terms, chunk=max(150, -(-len(terms) // 6))) if terms else (True, [], [])
        failing = set(failing)
        base = 0
        for name, ts, descr, nonempty in self.deferred:
            bad = [i - base for i in sorted(failing) if base <= i < base + len(ts)]
            self.ob("correspondence", name, ok and not bad and nonempty,
                    "\n".join(diags) + "".join(f"\nmismatch: {descr[i]}" for i in bad[:8]) + ("" if nonempty else "\nno case was produced"))
            base += len(ts)

    # (1) check_cache on crafted backend states
    def corr_check_cache(self):
        import datetime
        from redun.backends.base import CacheResult
        from redun.backends.db import CallNode, CallSubtreeTask, Evaluation, Job, RedunBackendDb
        from redun.scheduler import ErrorValue
        from redun.task import CacheCheckValid, CacheScope
        b = RedunBackendDb(db_uri="sqlite:///:memory:")
        b.load()
        s = b.session
        now = datetime.datetime(2024, 1, 1, tzinfo=datetime.timezone.utc)
        NODE = [None, "uncached", "cached"]
        states = []
        vals = {}

        def value(tag, i):
            """a distinct recorded value; every third one is a recorded error"""
            vid = len(vals) + 1
            v = ErrorValue(ValueError(f"{tag}{i}")) if (i + len(tag)) % 3 == 0 else (tag, i)
            vh = b.record_value(v)
            vals[vh] = (vid, isinstance(v, ErrorValue), v)
            return vh, vid, isinstance(v, ErrorValue)

        for i, (cse, ult, single) in enumerate(itertools.product(NODE, NODE, [None, "cached"])):
            T, A, E, X = f"T{i}", f"A{i}", f"E{i}", f"X{i}"
            st = {"T": T, "A": A, "E": E, "X": X, "cse": None, "ult": None, "single": None}
            if cse:
                vh, vid, err = value("cse", i) if cse == "cached" else (f"missing-cse-{i}", None, False)
                s.add(CallNode(call_hash=f"h1-{i}", task_name="t", task_hash=T, args_hash=A, value_hash=vh, timestamp=now))
                s.add(Job(id=f"j{i}", start_time=now, task_hash=T, execution_id=X, call_hash=f"h1-{i}"))
                st["cse"] = (1000 + i, (vid, err) if vid else None)
            if ult:
                vh, vid, err = value("ult", i) if ult == "cached" else (f"missing-ult-{i}", None, False)
                s.add(CallNode(call_hash=f"h2-{i}", task_name="t", task_hash=T, args_hash=A, value_hash=vh,
                               timestamp=now + datetime.timedelta(seconds=5)))
                s.add(CallSubtreeTask(call_hash=f"h2-{i}", task_hash=T))
                st["ult"] = (2000 + i, (vid, err) if vid else None)
            if single:
                vh, vid, err = value("single", i)
                s.add(Evaluation(eval_hash=E, task_hash=T, args_hash=A, value_hash=vh))
                st["single"] = (vid, err)
            s.commit()
            states.append(st)
        by_value = {}
        for vh, (vid, err, v) in vals.items():
            by_value[repr(v) if not err else "E:" + str(v.error)] = (vid, err)

        def vid_of(result):
            if result is None:
                return None
            k = "E:" + str(result.error) if isinstance(result, ErrorValue) else repr(result)
            return by_value[k]

        def cq_val(x):
            if x is None:
                return "None"
            vid, err = x
            return f"(Some (CErr {vid}))" if err else f"(Some (CVal {vid} true true))"

        def cq_node(n):
            if n is None:
                return "None"
            h, v = n
            return f"(Some ({h}%Z, {cq_val(v)}))"

        # observe the consultations
        trace = []
        og, on, oe = b.get_call_cache, b._get_call_node, b.get_eval_cache

        def get_call_cache(call_hash):
            trace.append("FCall LkCSE" if call_hash.startswith("h1-") else "FCall LkULT")
            return og(call_hash)

        def _get_call_node(*a, **kw):
            trace.append("QNode LkULT")
            return on(*a, **kw)

        def get_eval_cache(eval_hash):
            trace.append("FEval")
            return oe(eval_hash)
        b.get_call_cache, b._get_call_node, b.get_eval_cache = get_call_cache, _get_call_node, get_eval_cache
        members = [CacheResult.CSE, CacheResult.ULTIMATE, CacheResult.SINGLE]
        subsets = [None] + [list(c) for k in range(4) for c in itertools.combinations(members, k)] + [list(CacheResult)]
        if self.tier == "quick":      # None, {}, {SINGLE}, {CSE,ULTIMATE} (what subrun sets), {ULTIMATE,SINGLE}, everything
            subsets = [None, [], [CacheResult.SINGLE], [CacheResult.CSE, CacheResult.ULTIMATE],
                       [CacheResult.ULTIMATE, CacheResult.SINGLE], list(CacheResult)]
        terms, descr = [], []
        for st in states:
            ans = f"(mkAns {cq_node(st['cse'])} {cq_node(st['ult'])} {cq_val(st['single'])})"
            for scope in CacheScope:
                for cv in CacheCheckValid:
                    for al in subsets:
                        del trace[:]
                        try:
                            r, ch, ct = b.check_cache(st["T"], st["A"], st["E"], st["X"], {st["T"]}, scope, cv, None,
                                                      None if al is None else set(al))
                            hid = None if ch is None else (1000 if ch.startswith("h1-") else 2000) + int(ch.split("-")[1])
                            exp = f"(CCOut {cq_val(vid_of(r))} {cq_opt(str(hid) + '%Z') if hid is not None else 'None'} {ct.name})"
                        except Exception as e:  # noqa
                            exp = "CCPyError"
                        terms.append(f"cc_case {self.N['cc']} {SC[scope.name]} {CV[cv.name]} "
                                     f"{cq_allowed_list(None if al is None else [x.name for x in al])} {ans} {exp} "
                                     f"[{'; '.join(trace)}]")
                        descr.append({"state": {k: (st[k] is not None) for k in ("cse", "ult", "single")},
                                      "scope": scope.name, "check_valid": cv.name,
                                      "allowed": None if al is None else [x.name for x in al], "got": exp, "trace": list(trace)})
                        self.stat("check_cache_result", exp.split(" ")[-1].rstrip(")") if exp != "CCPyError" else exp)
                        self.count(("cc", len(terms)))
        self.sample({"check_cache case": descr[len(descr) // 2]}, 2)
        self.defer(f"translated check_cache == RedunBackendDb.check_cache on {len(terms)} cases "
                f"(18 backend states x scope x check_valid x {len(subsets)} allowed sets; result, call_hash, type, consultations)", terms, descr, True)

    # (2) _get_cache with a scripted backend
    def corr_get_cache(self):
        from redun import Scheduler, task
        from redun.backends.base import CacheResult
        from redun.config import Config
        from redun.scheduler import ErrorValue, Execution, Job
        from redun.scripting import script_task
        from redun.task import CacheCheckValid, CacheScope
        from redun.value import Value
        from harness.progs import vm_c38
        s = Scheduler(config=Config({"backend": {"db_uri": "sqlite:///:memory:"}}))
        s.load()
        s.logger.disabled = True
        calls = []
        scripted = [(None, None, CacheResult.MISS)]

        def fake_check_cache(task_hash, args_hash, eval_hash, execution_id, scheduler_task_hashes, cache_scope, check_valid,
                             context_hash=None, allowed_cache_results=None):
            calls.append((cache_scope, check_valid, allowed_cache_results))
            return scripted[0]
        s.backend.check_cache = fake_check_cache
        ex = Execution("X")
        terms, descr = [], []
        kinds = [("plain", vm_c38.node38, False, False), ("async", vm_c38.anode38, False, True), ("script", script_task, True, False)]
        for kind, base, is_script, is_async in kinds:
            for cv in (None, "full", "shallow"):
                for sc in (None, "NONE", "CSE", "BACKEND"):
                    for al in (None, ["CSE", "ULTIMATE"], ["CSE"], ["CSE", "ULTIMATE", "SINGLE", "MISS"], ["SINGLE"]):
                        o = {}
                        if cv:
                            o["check_valid"] = cv
                        if sc:
                            o["cache_scope"] = sc
                        if al is not None:
                            o["allowed_cache_results"] = {CacheResult[x] for x in al}
                        try:
                            t = base.options(**o) if o else base
                        except ValueError:
                            self.stat("get_cache_args", f"{kind}: option combination rejected when the task is derived")
                            continue
                        expr = t("x") if not is_script else t(command="true")
                        job = Job(t, expr, execution=ex)
                        job.args_hash, job.eval_hash = "A", "E"
                        del calls[:]
                        try:
                            s._get_cache(job)
                            scope, valid, allowed = calls[0]
                            got = (SC[scope.name], CV[valid.name],
                                   None if allowed is None else [m in allowed for m in (CacheResult.CSE, CacheResult.ULTIMATE,
                                                                                       CacheResult.SINGLE, CacheResult.MISS)])
                        except Exception as e:  # noqa
                            got = None
                        jopt = job.get_options()            # task-level options included (async tasks must set theirs)
                        jcv = jopt.get("check_valid")
                        jsc = jopt.get("cache_scope")
                        jcv = None if jcv is None else CacheCheckValid(jcv).name
                        jsc = None if jsc is None else CacheScope(jsc).name
                        jo = (f"(mkJO {cq_opt(CV[jcv]) if jcv else 'None'} {cq_opt(SC[jsc]) if jsc else 'None'} "
                              f"{'None' if al is None else '(Some (set_of [' + '; '.join(al) + ']))'} "
                              f"{'true' if is_script else 'false'} {'true' if is_async else 'false'})")
                        if got is None:
                            terms.append("false")
                        else:
                            terms.append(f"args_case {self.N['gc']} {jo} {got[0]} {got[1]} {cq_bools(got[2])}")
                        descr.append({"task": kind, "check_valid": cv, "cache_scope": sc, "allowed": al, "passed": got})
                        self.stat("get_cache_args", kind)
                        self.count(("gc", kind, cv, sc, repr(al)))

        # the final chain, on scripted answers
        class Stale38(Value):
            type_name = "rvvm38.Stale38"

            def is_valid(self):
                return False

            def __getstate__(self):
                return {}

            def __setstate__(self, st):
                pass
        job = Job(vm_c38.node38, vm_c38.node38("x"), execution=ex)
        job.args_hash, job.eval_hash = "A", "E"
        for rk, rv, cq in (("valid", [1, 2], "(Some (CVal 1 true true))"), ("stale", [1, Stale38()], "(Some (CVal 1 false true))"),
                           ("error", ErrorValue(ValueError("e")), "(Some (CErr 1))"), ("none", None, "None")):
            for ct in CacheResult:
                if (rk == "none") != (ct == CacheResult.MISS):
                    continue
                scripted[0] = (rv, "hash" if ct != CacheResult.MISS else None, ct)
                try:
                    r, cached, ch = s._get_cache(job)
                    exp = f"(GHit {cq[6:-1]} {'(Some 5%Z)' if ch else 'None'} {ct.name})" if cached else "GMiss"
                    if cached and r is not rv:
                        exp = "GPyError"
                except Exception:  # noqa
                    exp = "GPyError"
                terms.append(f"gc_result_eqb (run_chain (gc_chain_of {self.N['gc']}) {cq} "
                             f"{'(Some 5%Z)' if ct != CacheResult.MISS else 'None'} {ct.name}) {exp}")
                descr.append({"chain": rk, "type": ct.name, "got": exp})
                self.count(("chain", rk, ct.name))
        self.sample({"_get_cache case": descr[7]}, 3)
        self.defer(f"model of Scheduler._get_cache == the real method on {len(terms)} cases (arguments handed to "
                f"check_cache for every option combination of plain / async / script tasks; the final chain)", terms, descr, True)

    # (4) hand-back on scripted inner outcomes
    def corr_handback(self):
        """the real Scheduler.run / extend_run / _subrun_root_task / then on expressions with a known outcome"""
        from harness.progs import vm_c38
        tmp = scratch_dir("rv_c38h_")
        terms, descr = [], []
        try:
            os.chdir(tmp)
            k = 0
            for ne in (False, True):
                for okind, inner, model_o, want in (("value", ("v", "leaf", 41, (), None), "(OVal 41)", "(RetV 41)"),
                                                    ("error", ("e", "raise", "boom7", (), None), "(OErr 7)", "(Raise 7)")):
                    for replay in (False, True):
                        k += 1
                        spec = ("S", "subrun", (("new_execution", ne), ("executor", "default")), (inner,), None)
                        db = tmp / f"h{k}.db"
                        out, _ = run_expr(db, lambda: vm_c38.call38(spec))
                        if replay:
                            out, _ = run_expr(db, lambda: vm_c38.call38(spec))
                        if "result" in out and out["result"] == 41:
                            got = "(RetV 41)"
                        elif "error" in out and out["error"] == ("ValueError", "boom7"):
                            got = "(Raise 7)"
                        else:
                            got = "PyError"
                        terms.append(f"observed_eqb (subrun_observed {self.N['hb']} {'true' if ne else 'false'} {model_o}) {got}")
                        descr.append({"new_execution": ne, "outcome": okind, "second run on the same backend": replay, "observed": out})
                        self.count(("hb", ne, okind, replay))
            # the context the sub-workflow reads: config-level context, run() context, a caller override
            X = ("x0", "ctx", 0, (), None)
            co = self.N["co"]

            def cq_ctx(d):
                return "[" + "; ".join(f"({ {'k': 0, 'j': 1}[a]}%nat, {b}%Z)" for a, b in sorted(d.items())) + "]"
            for cfgc, runc, ov in (({"k": 7}, {}, {"k": 2, "j": 3}), ({"k": 7}, {"k": 5}, {"j": 3}), ({"k": 7}, {"j": 4}, {}),
                                   ({}, {"k": 5}, {"k": 1})):
                for mode in ("direct", "new", "extend"):
                    k += 1
                    inner = X if mode == "direct" else ("S", "subrun", (("new_execution", mode == "new"), ("executor", "default")), (X,), None)
                    spec = ("r", "list", 0, (inner,), {"context": ov} if ov else None)
                    out, _ = run_expr(tmp / f"h{k}.db", lambda: vm_c38.call38(spec), context=runc or None, cfgctx=cfgc or None)
                    try:
                        _, _, gk, gj = out["result"][1][0]
                    except Exception:  # noqa
                        terms.append("false")
                        descr.append({"config context": cfgc, "run context": runc, "override": ov, "mode": mode, "observed": out})
                        continue
                    base = f"(job_context (run_context {co} (ctx_get {cq_ctx(cfgc)}) (ctx_get {cq_ctx(runc)})) [{cq_ctx(ov)}])"
                    seen = {"direct": base, "new": f"(sub_new_context {co} (ctx_get {cq_ctx(cfgc)}) {base})",
                            "extend": f"(sub_extend_context {base})"}[mode]
                    for key, got in ((0, gk), (1, gj)):
                        terms.append(f"opt_eqb Z.eqb ({seen} {key}%nat) {'None' if got == 'none' else '(Some ' + str(got) + '%Z)'}")
                        descr.append({"config context": cfgc, "run context": runc, "override": ov, "mode": mode,
                                      "key": "kj"[key], "observed": got})
                    self.count(("ctx", repr(cfgc), repr(runc), repr(ov), mode))
        finally:
            os.chdir("/")
            shutil.rmtree(tmp, ignore_errors=True)
        self.defer(f"hand-back model == real subrun on {len(terms)} scripted cases (value / error x new_execution x fresh / replayed; the context keys a directly evaluated / subrun'd leaf reads)", terms, descr, True)

    # (3) + oracle data: generated sub-workflows on real schedulers
    def witness_lock(self, tmp):
        """the two known lock-ups of a shared sqlite file; returns the set of keys that reproduce"""
        from harness.progs import vm_c38
        L = ("l4", "leaf", 3, (), {"prov": False})
        L0 = ("l4", "leaf", 3, (), None)
        ws = {KEY_LOCK_INNER: ("S1", "subrun", (("new_execution", True), ("executor", "default")), (L,), None),
              KEY_LOCK_CALLER: ("S1", "subrun", (("new_execution", False), ("executor", "default")), (L0,), {"prov": False})}
        hit = {}
        for key, spec in ws.items():
            db = tmp / f"w{len(hit)}{abs(hash(key)) % 1000}.db"
            out, _ = run_expr(db, lambda: vm_c38.call38(spec))
            self.evaluations += 1
            if not agrees(out, expected(spec, None)):
                hit[key] = (spec, out)
        return hit

    def history_plan(self):
        T, F, D = True, False, "dry"
        FAIL = ["fail0", "fail1", "ok2"]        # the probe fails twice, then its cause is repaired
        if self.tier == "quick":
            return [("flat", [T, F], ()), ("flat", [T, F, T], ()), ("flat", [T, D], ()), ("nested", [T, T, F], ()),
                    ("flat", [T, T, T], (), FAIL)]
        plan = []
        hists = [list(h) for n in (2, 3) for h in itertools.product([T, F], repeat=n)] + [[T, D], [F, D, T], [T, F, D]]
        for b in HIST_BODIES:
            for h in hists:
                plan.append((b, h, ()))
        for b in HIST_BODIES:
            for h in ([T, T, T], [T, F, T], [F, T, T], [T, T, F]):
                plan.append((b, h, (), FAIL))
        plan.append(("flat", [T, T, T], (("check_valid", "full"),), FAIL))
        plan.append(("flat", [T, T, T], (("cache_scope", "CSE"),), FAIL))
        for so in ((("check_valid", "shallow"),), (("cache_scope", "BACKEND"),), (("check_valid", "full"),), (("cache_scope", "CSE"),),
                   (("cache_scope", "NONE"),)):
            for h in ([T, F], [T, T, F], [F, T]):
                plan.append(("flat", h, so))
        return plan

    def one_history(self, tmp, tag, bname, hist, sub_opts, only=None, states=None):
        """runs the three variants of one history; returns [(variant, problem)] (problem None = agrees)"""
        v = hist_variants(HIST_BODIES[bname], sub_opts)
        for attempt in range(3):
            res = {n: run_history(tmp, f"h{tag}_{attempt}_{n}", sp, hist, states) for n, sp in v.items() if only in (None, n) or n == "direct"}
            infra = [st["out"] for r in res.values() for st in r if is_infra(st["out"])]
            for p in tmp.glob("h*.db"):
                p.unlink()
            if not infra:
                return [(n, compare_history(res["direct"], res[n], n, not sub_opts)) for n in res if n != "direct"], res
            self.infra.append({"spec": f"history {bname} {hist}", "error": infra[0]["error"], "attempt": attempt})
            self.stat("infrastructure failure (program re-run)", infra[0]["error"][0])
        return [], res

    def histories(self, tmp):
        os.environ["RV_C38_PROBE_DIR"] = str(tmp)
        self.hist_problems = []
        self.hist_n = 0
        for i, item in enumerate(self.history_plan()):
            bname, hist, sub_opts = item[:3]
            states = item[3] if len(item) > 3 else None
            results, res = self.one_history(tmp, i, bname, hist, sub_opts, states=states)
            for variant, problem in results:
                self.hist_n += 1
                self.evaluations += len(hist)
                self.count(("history", bname, repr(hist), repr(sub_opts), variant))
                self.stat("histories", f"{variant}: " + " ".join("dry" if h == "dry" else ("cache" if h else "no-cache") for h in hist)
                          + (" [probe: " + " ".join(states) + "]" if states else ""))
                if problem:
                    self.hist_problems.append({"body": bname, "history": hist, "subrun_options": list(sub_opts), "variant": variant,
                                               "states": states, "problem": problem})
            if i == 0:
                self.sample({"history": hist, "sub-workflow": repr(HIST_BODIES[bname]),
                             "per execution (direct)": [(st["out"], st["execs"]) for st in res["direct"]],
                             "per execution (subrun, new execution)": [(st["out"], st["execs"]) for st in res.get("new", [])]}, 8)

    def e2e(self):
        from harness.progs import vm_c38
        n_thread, n_proc, budget = (22, 2, 75.0) if self.tier == "quick" else (500, 40, 1300.0)
        min_thread = 8
        tmp = scratch_dir("rv_c38_")
        self.runs = []
        self.lock_hits = {}
        self.row_terms, self.row_descr = [], []
        self.opt_terms, self.opt_descr = [], []
        self.cache_records = []
        self.infra = []
        t_start = time.time()
        try:
            os.chdir(tmp)
            self.lock_hits = self.witness_lock(tmp)
            self.histories(tmp)
            allow_noprov = not self.lock_hits
            self.stat("generator", "prov=False calls " + ("included" if allow_noprov else "excluded (known sqlite lock-up reproduces)"))
            plan = [False] * n_thread
            for k in range(n_proc):                      # spread the process-executor programs over the run
                plan.insert((k + 1) * len(plan) // (n_proc + 1), True)
            done_thread = 0
            plan = [sc for sc in SCENARIOS] + plan
            for i, proc in enumerate(plan):
                if time.time() - t_start > budget and done_thread >= min_thread:
                    self.stat("generator", "programs not run (time budget)", len(plan) - i)
                    break
                if isinstance(proc, tuple):          # a fixed scenario
                    _, spec, caches = proc[:3]
                    cfgctx = proc[3] if len(proc) > 3 else None
                    proc, ctx = False, None
                    self.stat("programs", "fixed scenario")
                else:
                    g = ProgGen(self.rng, allow_noprov=allow_noprov and not proc, execs=("default", "process") if proc else ("default",))
                    depth = self.rng.choice([1, 1, 2, 2, 3]) if not proc else 1
                    reads_ctx = (i % 3 == 0)
                    spec = g.program(depth, ctx=reads_ctx, fail=(i % 4 != 1), psub=0.3 if not reads_ctx else 0.45)
                    ctx = {"k": 2} if i % 5 == 0 else None
                    # a config-level context for most context-reading programs (and a few others)
                    cfgctx = {"k": 7} if (reads_ctx and i % 2 == 0) or i % 7 == 3 else None
                    caches = [True] + ([self.rng.random() < 0.5, True] if i % 2 == 0 else [])
                self.stat("config-level context", "defines k" if cfgctx else "none")
                exps = [expected(round_spec(spec, k), base_ctx(cfgctx, ctx)) for k in range(len(caches))]
                exp = exps[0]
                rec = {"spec": spec, "context": ctx, "cfgctx": cfgctx, "caches": caches, "proc": proc, "exp": exp, "exps": exps,
                       "outs": [], "rows_bad": [], "direct": None}
                for attempt in range(3):
                    db = tmp / f"p{i}_{attempt}.db"
                    rec["outs"] = []
                    rec.pop("child_failed", None)
                    P = None
                    if proc:
                        try:
                            r = run_in_child({"spec": repr(spec), "caches": caches, "context": ctx, "cfgctx": cfgctx, "db": str(db), "cwd": str(tmp)})
                        except subprocess.TimeoutExpired:
                            r = {"child_failed": "timeout"}
                        if "outs" in r:
                            rec["outs"] = [{k: (tuple(v) if k == "error" else v) for k, v in o.items()} for o in r["outs"]]
                            for o in rec["outs"]:
                                # no probe inside the child interpreter: the pickled face of the race is taken as such
                                if "error" in o and o["error"][0] == "TypeError" and "cannot pickle memoryview" in o["error"][1]:
                                    o["error"] = ("IntegrityError", "UNIQUE constraint failed (presumed; process executor, surfaced as "
                                                  "TypeError cannot pickle memoryview objects)")
                        else:
                            rec["child_failed"] = r.get("child_failed")
                    else:
                        with Probe() as P:
                            for k, cache in enumerate(caches):
                                out, s = run_expr(db, lambda: vm_c38.call38(round_spec(spec, k)), cache=cache, context=ctx, cfgctx=cfgctx)
                                out = P.reclassify(out)
                                rec["outs"].append(out)
                                if is_infra(out):
                                    break
                    infra = [o for o in rec["outs"] if is_infra(o)]
                    if not infra:
                        break
                    # concurrent schedulers on one sqlite file: contention time-outs and insert races are not
                    # deterministic; run the program again on a fresh backend, keep what was seen
                    self.infra.append({"spec": repr(spec), "error": infra[0]["error"], "attempt": attempt})
                    self.stat("infrastructure failure (program re-run)", infra[0]["error"][0])
                rec["attempts"] = attempt + 1
                if P is not None and not any(is_infra(o) for o in rec["outs"]):
                    self.cache_records += [dict(c, spec=spec) for c in P.cache_calls]
                    self.rows_case(P, db, spec)
                    self.opts_cases(P)
                if db.exists() and len(rec["outs"]) == len(caches):
                    rec["rows_bad"] = row_invariants(str(db), spec, len(caches))
                    if P is not None and not has_noprov(spec) and not any(is_infra(o) for o in rec["outs"]):
                        rec["rows_bad"] += extend_invariant(str(db), P.root_jobs)
                        self.stat("extend-mode root jobs checked", "count", sum(1 for _, ne in P.root_jobs if not ne))
                # direct evaluation of the same program without subrun, fresh backend
                if i % 2 == 0 and not proc:
                    er = vm_c38.erase(round_spec(spec, 0))
                    rec["direct"], _ = run_expr(tmp / f"d{i}.db", lambda: vm_c38.calld(er), context=ctx, cfgctx=cfgctx)
                self.runs.append(rec)
                done_thread += 0 if proc else 1
                nodes = subrun_nodes(spec)
                self.count(repr(spec) if spec_size(spec) >= 3 else None, len(caches))
                if not isinstance(plan[i], tuple):
                    self.stat("programs", "process executor" if proc else "thread executor")
                self.stat("expected", "too many to enumerate" if exp is None else
                          ("ambiguous (%d admissible outcomes)" % len(exp) if len(exp) > 1 else next(iter(exp))[0]))
                for nd in nodes:
                    p = dict(nd[2])
                    self.stat("subrun new_execution", p.get("new_execution"))
                    self.stat("subrun cache_scope", p.get("cache_scope", "absent"))
                    self.stat("subrun check_valid", p.get("check_valid", "absent"))
                self.stat("subrun nodes per program", min(len(nodes), 4))
                self.sample({"program": repr(spec)[:600], "context": ctx, "config-level context": cfgctx, "cache flags": caches,
                             "outcomes": [repr(o)[:120] for o in rec["outs"]]}, 6)
                for p in tmp.glob("*.db"):
                    p.unlink()
        finally:
            os.chdir("/")
            shutil.rmtree(tmp, ignore_errors=True)
        self.defer(f"sub_rows == Job rows written by {len(self.row_terms)} real sub-schedulers (parent_id, execution_id per job)", self.row_terms, self.row_descr, bool(self.row_terms))
        self.defer(f"root_task_jobopts + gc_args == what reached check_cache for {len(self.opt_terms)} real _subrun_root_task jobs", self.opt_terms, self.opt_descr, bool(self.opt_terms))

    def rows_case(self, P, db, spec):
        rows, execs = db_rows(str(db))
        by_backend = {}
        for bid, jid, par, ex, task in P.job_starts:
            by_backend.setdefault(bid, []).append((jid, par, ex, task))
        for sr in P.sub_runs:
            jobs = by_backend.get(sr["backend"], [])
            if not jobs:
                continue
            ne = sr["mode"] == "new"
            caller = sr["caller"]
            idx = {j[0]: k for k, j in enumerate(jobs)}
            ops, exp_rows, ok = [], [], True
            for k, (jid, par, ex, task) in enumerate(jobs):
                if par is None or par == caller:
                    ops.append("NewTop")
                elif par in idx and idx[par] < k:
                    ops.append(f"NewChild {idx[par]}")
                else:
                    ok = False
                    break
                dbrow = rows.get(jid)
                if dbrow is None:
                    ok = False
                    break
                dpar, dex = dbrow[0], dbrow[1]
                if dpar is None:
                    cp = "None"
                elif dpar == caller:
                    cp = "(Some JCaller)"
                elif dpar in idx:
                    cp = f"(Some (JInner {idx[dpar]}))"
                else:
                    ok = False
                    break
                caller_ex = rows[caller][1] if caller in rows else None
                ce = "ECaller" if (caller_ex is not None and dex == caller_ex) else "EFresh"
                exp_rows.append(f"(mkRow (JInner {k}) {cp} {ce})")
            d = {"mode": sr["mode"], "jobs": len(jobs), "spec": repr(spec)[:300]}
            if not ok:
                self.row_terms.append("false")
                d["problem"] = "a job's parent is neither the caller nor an earlier job of the same sub-scheduler, or its row is missing"
            else:
                self.row_terms.append(f"list_eqb row_eqb (sub_rows {self.N['w']} {'true' if ne else 'false'} [{'; '.join(ops)}]) "
                                      f"[{'; '.join(exp_rows)}]")
                d["ops"] = ops
            self.row_descr.append(d)
            self.stat("sub-scheduler runs", sr["mode"])
            # extend_run must name its single top-level job
            if sr["mode"] == "extend" and jobs and sr.get("job_id") != jobs[0][0] and ok:
                self.row_terms.append("false")
                self.row_descr.append(dict(d, problem="extend_run's job_id is not the first job the sub-scheduler recorded"))

    def opts_cases(self, P):
        for c in P.cache_calls:
            ps = c.get("parent_spec")
            if not (isinstance(ps, tuple) and len(ps) >= 3 and ps[1] == "subrun") or len(c["checks"]) != 1:
                continue
            p = dict(ps[2])
            chk = c["checks"][0]
            prov = bool(c["options"].get("prov", True))
            call = (f"(mkCall {cq_opt(SC[p['cache_scope']]) if 'cache_scope' in p else 'None'} "
                    f"{cq_opt(CV[p['check_valid']]) if 'check_valid' in p else 'None'} "
                    f"{'true' if c['use_cache'] else 'false'} {'true' if prov else 'false'})")
            al = chk["allowed"]
            bools = None if al is None else [m in al for m in ("CSE", "ULTIMATE", "SINGLE", "MISS")]
            self.opt_terms.append(f"args_case {self.N['gc']} (root_task_jobopts {self.N['so']} {call}) {SC[chk['scope']]} "
                                  f"{CV[chk['valid']]} {cq_bools(bools)}")
            self.opt_descr.append({"subrun options": p, "cache": c["use_cache"], "prov": prov, "reached check_cache": chk})
            self.stat("root task check_cache scope", chk["scope"])
            self.stat("root task check_cache type", chk["type"])

    # ------------------------------------------------------------------ oracle
    def oracle(self):
        nb = 0
        for key, (spec, out) in getattr(self, "lock_hits", {}).items():
            self.findings.append(Finding(key, f"subrun on the forwarded sqlite backend fails with {out.get('error', out)!r:.160}; "
                                              f"direct evaluation gives {show_exp(expected(spec, None))}",
                                         {"kind": "witness", "key": key, "spec": repr(spec)}))
        for rec in getattr(self, "runs", []):
            spec = rec["spec"]
            rp = {"kind": "program", "spec": repr(spec), "caches": rec["caches"], "context": rec["context"],
                  "config_context": rec.get("cfgctx"), "proc": rec["proc"]}
            if rec.get("child_failed") == "timeout":
                # a process-executor program that did not finish in time: inconclusive, never a verdict
                self.stat("oracle", "process-executor programs without an outcome in time (inconclusive)")
                continue
            if rec.get("child_failed"):
                nb += 1
                self.findings.append(Finding(f"no-outcome:{spec!r}"[:200], f"the run did not finish: {rec['child_failed'][-300:]}", rp))
                continue
            for k, out in enumerate(rec["outs"]):
                self.evaluations += 1
                if not agrees(out, rec["exps"][k]):
                    if is_infra(out) and not is_lock(out):
                        # the insert race again, on each of three fresh backends (programs with many concurrent
                        # sub-schedulers recording the same calls hit it almost every time): same defect, same key
                        self.stat("oracle", "programs that lost the insert race three times in a row")
                        break
                    nb += 1
                    # a lock-up here persisted through three attempts on fresh backends
                    pre = "sqlite-lock" if is_lock(out) else "result-differs"
                    self.findings.append(Finding(f"{pre}:{spec!r}"[:200],
                                                 f"run {k + 1} (cache={rec['caches'][k]}): got {out.get('result', out.get('error'))!r:.200}, "
                                                 f"reference {show_exp(rec['exps'][k]):.300}", rp))
                    break
            d = rec.get("direct")
            if d is not None and rec["outs"] and not is_infra(rec["outs"][0]):
                o = rec["outs"][0]
                # equal outcomes, or two of the admissible outcomes of a program whose outcome depends on the schedule
                same = (outcome_of(d) is not None and outcome_of(d) == outcome_of(o)) or \
                       (agrees(d, rec["exp"]) and agrees(o, rec["exp"]))
                self.evaluations += 1
                self.stat("direct evaluation compared", "same" if same else "different")
                if not same:
                    nb += 1
                    self.findings.append(Finding(f"direct-differs:{spec!r}"[:200],
                                                 f"through subrun {o!r:.200}, directly {d!r:.200}", rp))
            for b in rec["rows_bad"][:1]:
                nb += 1
                self.findings.append(Finding(f"job-rows:{spec!r}"[:200], b, rp))
        for hp in getattr(self, "hist_problems", []):
            nb += 1
            hs = " ".join("dry" if h == "dry" else ("cache" if h else "no-cache") for h in hp["history"])
            hs += (" [probe " + " ".join(hp["states"]) + "]") if hp.get("states") else ""
            self.findings.append(Finding(f"history:{hp['variant']}:{hp['body']}:{hs}:{hp['subrun_options']}"[:200],
                                         f"the same sub-workflow run {len(hp['history'])} times on one backend ({hs}), external state changed "
                                         f"before each run: {hp['problem']}",
                                         {"kind": "history", "body": hp["body"], "sub_workflow": repr(HIST_BODIES[hp["body"]]),
                                          "history": hp["history"], "subrun_options": hp["subrun_options"], "variant": hp["variant"],
                                          "states": hp.get("states")}))
        self.stat("oracle", "histories compared (variant x history)", getattr(self, "hist_n", 0))
        # a time-dependent insert race between the schedulers sharing the backend (seen, then passed on a re-run)
        races = [x for x in getattr(self, "infra", []) if x["error"][0] == "IntegrityError"]
        if races:
            self.findings.append(Finding(KEY_RACE, f"a program run through subrun failed with {races[0]['error']!r:.260} "
                                                   f"({len(races)} time(s) in this run, counting the cases where it surfaced one level up as TypeError 'cannot pickle "
                                                   f"memoryview objects' because an extending sub-scheduler handed it back in its result dict; e.g. {races[0]['spec']:.300})",
                                         {"kind": "race", "spec": races[0]["spec"], "error": list(races[0]["error"])}))
        self.stat("oracle", "transient sqlite lock time-outs (program re-run)", sum(1 for x in getattr(self, "infra", []) if x["error"][0] == "OperationalError"))
        # the cache rule for the subrun job, on the real code
        nrec = 0
        for c in getattr(self, "cache_records", []):
            nrec += 1
            why = None
            for chk in c["checks"]:
                if chk["allowed"] is None or "SINGLE" in chk["allowed"]:
                    why = f"check_cache was allowed {chk['allowed']} for the _subrun_root_task job"
                elif chk["type"] == "SINGLE":
                    why = "check_cache answered SINGLE for the _subrun_root_task job"
            if c["eval_cache"]:
                why = "the evaluation (single-reduction) cache was consulted for the _subrun_root_task job"
            if why:
                nb += 1
                self.findings.append(Finding(f"single-reduction:{c['spec']!r}"[:200], why,
                                             {"kind": "program", "spec": repr(c["spec"]), "caches": [True, True], "context": None,
                                              "proc": False, "check": "cache"}))
        self.stat("oracle", "root task cache decisions inspected", nrec)
        # Confirmation: several schedulers share one sqlite file in these programs, and the registered insert race / lock
        # time-outs can surface in shapes the per-attempt classification does not recognise (caught and recovered inside
        # the program, seen in a child interpreter, ...).  A difference is reported only if it REPRODUCES when the
        # program / history is run again on fresh backends (a deterministic defect always does); what does not reproduce
        # is counted in the evidence and added to the time-dependent class instead of being dropped silently.
        import contextlib
        import io
        confirmed, unrepro = [], []
        for f in self.findings:
            kind = (f.replay or {}).get("kind")
            if f.key == KEY_RACE or kind not in ("program", "witness", "history") or len(confirmed) >= 12:
                confirmed.append(f)
                continue
            buf = io.StringIO()
            keep_infra = list(getattr(self, "infra", []))
            try:
                with contextlib.redirect_stdout(buf):
                    rc = self.replay({"replay": f.replay})
                self.infra = keep_infra
            except Exception as e:  # noqa: BLE001
                rc, _ = 1, buf.write(f"replay raised {type(e).__name__}: {e}")
            if rc:
                confirmed.append(f)
            else:
                unrepro.append((f, buf.getvalue().strip().splitlines()[-1:] or [""]))
        self.stat("oracle", "differences that did not reproduce on a re-run (time-dependent)", len(unrepro))
        self.findings = confirmed
        if unrepro and not any(f.key == KEY_RACE for f in self.findings):
            f0, tail = unrepro[0]
            self.findings.append(Finding(KEY_RACE, f"a difference was observed once and did not reproduce on fresh backends ({f0.key:.120}: "
                                                   f"{f0.what:.200}; re-run: {tail[0]:.120}) -- the time-dependent class of the shared sqlite backend",
                                         {"kind": "race", "spec": (f0.replay or {}).get("spec"), "unreproduced": f0.key}))
        nb = len([f for f in self.findings if f.key != KEY_RACE])
        self.stat("oracle", "violations", nb)
        self.ob("oracle", f"implementation oracle ran ({len(getattr(self, 'runs', []))} programs, {nrec} cache decisions for _subrun_root_task jobs)",
                bool(getattr(self, "runs", [])) and nrec > 0, "no program was run")

    # ------------------------------------------------------------------ replay
    def replay(self, doc):
        from harness.progs import vm_c38
        r = doc.get("replay", {})
        if r.get("kind") in ("program", "witness"):
            spec = eval(r["spec"])
            caches = r.get("caches") or [True]
            ctx = r.get("context")
            cfgctx = r.get("config_context")
            exps = [expected(round_spec(spec, k), base_ctx(cfgctx, ctx)) for k in range(len(caches))]
            tmp = scratch_dir("rv_c38r_")
            try:
                os.chdir(tmp)
                clean = False
                for attempt in range(3):
                    db = tmp / f"r{attempt}.db"
                    with Probe() as P:
                        outs = []
                        for k, cache in enumerate(caches):
                            if r.get("proc"):
                                res = run_in_child({"spec": repr(spec), "caches": [cache], "first_round": k, "context": ctx, "cfgctx": cfgctx, "db": str(db), "cwd": str(tmp)})
                                out = res["outs"][0] if "outs" in res else {"error": ("NoOutcome", str(res)[:200])}
                                if "error" in out:
                                    out["error"] = tuple(out["error"])
                            else:
                                out, _ = run_expr(db, lambda: vm_c38.call38(round_spec(spec, k)), cache=cache, context=ctx, cfgctx=cfgctx)
                                out = P.reclassify(out)
                            outs.append(out)
                    infra = [o for o in outs if is_infra(o)]
                    if infra:
                        # the shared sqlite file under concurrent schedulers (registered, time-dependent): try again
                        print(f"replay: attempt {attempt + 1} hit {infra[0]['error'][0]} on the shared backend; running again")
                        if is_lock(infra[0]) and attempt == 2:
                            print("replay: the backend stayed locked on three fresh databases")
                            return 1
                        continue
                    clean = True
                    for k, out in enumerate(outs):
                        if not agrees(out, exps[k]):
                            print(f"replay: run {k + 1} (cache={caches[k]}) gives {out!r:.300}; the reference (direct evaluation) gives {show_exp(exps[k]):.300}")
                            return 1
                    bad = row_invariants(str(db), spec, len(caches)) if db.exists() else []
                    if db.exists() and not r.get("proc") and not has_noprov(spec) and not any(is_infra(o) for o in outs):
                        bad += extend_invariant(str(db), P.root_jobs)
                    if bad:
                        print("replay: Job rows:", bad[0])
                        return 1
                    for c in P.cache_calls:
                        if c["eval_cache"] or any(chk["type"] == "SINGLE" or chk["allowed"] is None or "SINGLE" in chk["allowed"] for chk in c["checks"]):
                            print("replay: the _subrun_root_task job consulted / was allowed the single-reduction cache:", c["checks"])
                            return 1
                print("replay: agrees with the reference now" if clean else
                      "replay: every attempt lost the insert race between the schedulers sharing the backend (the registered "
                      "time-dependent finding); nothing else was observed")
                return 0
            finally:
                os.chdir("/")
                shutil.rmtree(tmp, ignore_errors=True)
        if r.get("kind") == "history":
            tmp = scratch_dir("rv_c38r_")
            self.infra = []
            try:
                os.chdir(tmp)
                os.environ["RV_C38_PROBE_DIR"] = str(tmp)
                so = tuple(tuple(x) for x in r.get("subrun_options") or ())
                results, res = self.one_history(tmp, 0, r["body"], r["history"], so, only=r["variant"], states=r.get("states"))
                for st_d, st_o in zip(res["direct"], res.get(r["variant"], [])):
                    print("replay:   directly", st_d["out"], f"(inner task ran {st_d['execs']}x)  |  subrun {r['variant']}:", st_o["out"],
                          f"(ran {st_o['execs']}x, {st_o['new_execs']} execution(s) recorded)")
                for variant, problem in results:
                    if problem:
                        print("replay:", problem)
                        return 1
                print("replay: subrun and direct evaluation agree on every execution of this history now")
                return 0
            finally:
                os.chdir("/")
                shutil.rmtree(tmp, ignore_errors=True)
        if r.get("kind") == "race":
            print("replay: the failure was time-dependent (", r.get("error"), "); re-running the program 5 times")
            rc = 0
            for k in range(5):
                rc |= self.replay({"replay": {"kind": "program", "spec": r["spec"], "caches": [True]}})
            return rc
        print("replay: nothing to replay (no failing input was found); broken obligations:",
              json.dumps(doc.get("broken_obligations", []))[:3000])
        return 1


if __name__ == "__main__":
    if "--child" in sys.argv:
        child_main()
