"""C32 — The remote job protocol reproduces local execution.

translate : translate/tr_scratch.py -> coq/Gen/C32Gen.v (tie lemma gen = shipped) + shape pins
correspond: the Coq model (Model/Scratch.v, instantiated in Model/ScratchCases.v) against the real
            get_batch_job_name / get_hash_from_job_name / is_array_job_name / get_job_array_index /
            get_job_scratch_file / get_array_scratch_file / str.splitlines (pure cases) and against
            the real get_oneshot_command, write_array_job_scratch_files, RedunClient.oneshot_command,
            parse_job_result, parse_job_error, AWSBatchExecutor.gather_inflight_jobs on generated
            scratch directories (including stale / corrupt / missing files and odd environments)
oracle    : decides the property on the real code alone (remote == local for single jobs and for
            every element of generated arrays in shuffled order, in-process and through the real
            CLI in subprocesses; every element writes only its own files; job-name round trip;
            reuniting only maps a hash to a remote job created for it)
"""
from __future__ import annotations

import contextlib
import hashlib
import io
import itertools
import json
import logging
import os
import pickle
import posixpath
import shutil
import subprocess
import sys
import uuid
from concurrent.futures import ThreadPoolExecutor
from pathlib import Path
from types import SimpleNamespace
from unittest import mock

from harness.lib import (CORPUS, GEN, REPO, Finding, PropertyCheck, TranslateError, cq_list, run_bool_cases,
                         scratch_dir)
from translate import astutil, tr_scratch

PINS = json.loads((Path(__file__).resolve().parents[2] / "translate" / "pins_C32.json").read_text())["pins"]
ENV_VARS = ["AWS_BATCH_JOB_ARRAY_INDEX", "JOB_COMPLETION_INDEX", "BATCH_TASK_INDEX", "MY_RANK", "OTHER_RANK"]

WORKFLOW = '''
from redun import task, File
redun_namespace = "c32"


class MyErr(Exception):
    pass


@task()
def f(a=0, b=2, *rest, **kw):
    if a == "boom":
        raise ValueError("bad", b, list(rest))
    if a == "my":
        raise MyErr(b, rest, sorted(kw.items()))
    if a == "div":
        return b // 0
    if a == "none":
        return None
    if a == "dict":
        return {"b": b, "rest": list(rest), "kw": kw}
    if a == "big":
        return [b] * 300
    return [a, b, list(rest), sorted(kw.items())]


# same short name in different namespaces (the arrayer must keep them apart)
@task(namespace="alpha", name="transform")
def alpha_transform(x=0, scale=1):
    return ("alpha", x * scale + 1)


@task(namespace="beta", name="transform")
def beta_transform(x=0, scale=1):
    if x < 0:
        raise ValueError("beta.transform: negative input", x)
    return ("beta", x * scale * 100)


@task(name="transform")
def plain_transform(x=0, scale=1):
    return ("c32", [x, scale])


@task(namespace="alpha", name="other")
def alpha_other(x=0, scale=1):
    return ("alpha-other", x - scale)


# config_args are not part of the evaluation hash: attempts that differ only in them share a scratch dir
@task(config_args=["workers"])
def shrink(x, workers=1):
    if workers < 1:
        raise ValueError("workers must be >= 1", workers)
    return x * 2


# outcome decided by a control file at call time: the same call (same evaluation hash) can return
# different values or raise different errors in successive runs
@task()
def stateful(ctrl, tag=0):
    kind, _, rest = open(ctrl).read().partition(":")
    if kind == "raise":
        raise RuntimeError(rest)
    if kind == "raise2":
        raise LookupError(rest, tag)
    return [kind, rest, tag]


@task()
def produce(ctrl, out):
    """returns a File: the stored result stops being valid when `out` is removed or rewritten"""
    kind, _, rest = open(ctrl).read().partition(":")
    if kind.startswith("raise"):
        raise RuntimeError(rest)
    with open(out, "w") as fh:
        fh.write(rest)
    return [File(out), rest]


@task(config_args=["tmp_dir", "verbose"])
def render(x, tmp_dir="/tmp", verbose=False):
    if not tmp_dir:
        raise OSError("no tmp_dir")
    return ("rendered", x)
'''
TASK_ATTRS = ["alpha_transform", "beta_transform", "plain_transform", "alpha_other", "f"]


class FakeJob:
    """what the arrayer / executor read from a scheduler Job"""

    def __init__(self, task, args, kwargs, options, eval_hash):
        self.task, self.args, self.eval_hash, self._options = task, (args, kwargs), eval_hash, dict(options)
        self.id = "j" + eval_hash[:8]
        self.execution = None

    def get_options(self):
        return dict(self._options)

    def get_option(self, key, default=None):
        return self._options.get(key, default)


# ---------------------------------------------------------------------------------------------
# Coq literals
# ---------------------------------------------------------------------------------------------
def cs(x: str) -> str:
    if not x:
        return "(@nil Ascii.ascii)"
    assert all(ord(c) < 256 for c in x), x
    if all(32 <= ord(c) < 127 and c != '"' for c in x):
        return f'(lit "{x}")'            # much faster for coqc to parse than a list of numbers
    return "(bs [" + ";".join(str(ord(c)) for c in x) + "]%N)"


def co(x, f=cs):
    return "None" if x is None else f"(Some {f(x)})"


def cb(b: bool) -> str:
    return "true" if b else "false"


class Obj:
    """model objects: ('L', id) | ('S', [..]) | ('E', kind)"""

    @staticmethod
    def coq(o) -> str:
        if o[0] == "L":
            return f"(Leaf ({o[1]})%Z)"
        if o[0] == "S":
            return "(Seq " + cq_list([Obj.coq(x) for x in o[1]]) + ")"
        return f"(PErr {o[1]})"


class Intern:
    def __init__(self):
        self.ids = {}
        self.bad = set()

    def canon(self, v):
        from redun import File
        if isinstance(v, BaseException):
            return ("exc", type(v).__module__, type(v).__qualname__, repr(v.args))
        if isinstance(v, File):
            return ("File", v.path, v.hash)
        return ("v", type(v).__name__, repr(v))

    def id(self, v) -> int:
        k = self.canon(v)
        if k not in self.ids:
            self.ids[k] = len(self.ids) + 1      # 0 is the traceback
        return self.ids[k]

    def leaf(self, v):
        return ("L", self.id(v))


def exc_obj(e: BaseException, it: Intern):
    """real exception -> model object (protocol exceptions are PErr kinds, task exceptions leaves)"""
    from redun.cli import RedunClientError
    from redun.executors.scratch import ExceptionNotFoundError, ScratchError
    if isinstance(e, ExceptionNotFoundError):
        return ("E", "ENotFound")
    if isinstance(e, ScratchError):
        return ("E", "EScratch")
    if isinstance(e, IndexError):
        return ("E", "EIndex")
    if isinstance(e, RedunClientError):
        return ("E", "ENoIndexVar")
    if isinstance(e, KeyError):
        return ("E", "EKeyEnv")
    if isinstance(e, FileNotFoundError):
        return ("E", "EMissing")
    if isinstance(e, (pickle.UnpicklingError, EOFError, json.JSONDecodeError, UnicodeDecodeError)):
        return ("E", "ELoad")
    if isinstance(e, ValueError) and str(e).startswith(("not enough values to unpack", "too many values to unpack")):
        return ("E", "EUnpack")
    return it.leaf(e)


# ---------------------------------------------------------------------------------------------
# The real side
# ---------------------------------------------------------------------------------------------
class Real:
    """A temp working directory with the workflow module; runs the real protocol functions."""

    def __init__(self):
        self.dir = scratch_dir("rv_c32_")
        (self.dir / "wf_c32.py").write_text(WORKFLOW)
        self.old_cwd = os.getcwd()
        os.chdir(self.dir)
        sys.path.insert(0, str(self.dir))
        logging.getLogger("redun").setLevel(logging.ERROR)
        import importlib
        self.wf = importlib.import_module("wf_c32")
        self.task = self.wf.f
        from redun.cli import RedunClient
        self.client = RedunClient()
        self.client.stdout = io.StringIO()
        self.sys_path = list(sys.path)

    def reset_import_paths(self):
        """oneshot adds its --import-path arguments and the cwd to a process-global list (harmless in
        the fresh interpreter of a real remote job); undo it so that in-process runs stay independent"""
        from redun.utils import clear_import_paths
        clear_import_paths()
        sys.path[:] = self.sys_path

    def close(self):
        self.reset_import_paths()
        os.chdir(self.old_cwd)
        if str(self.dir) in sys.path:
            sys.path.remove(str(self.dir))
        sys.modules.pop("wf_c32", None)
        shutil.rmtree(self.dir, ignore_errors=True)

    def job(self, h, args, kwargs):
        return SimpleNamespace(eval_hash=h, args=(args, kwargs), task=SimpleNamespace(script=None), id="j" + h)

    def local(self, args, kwargs):
        try:
            return ("ret", self.task.func(*args, **kwargs))
        except Exception as e:  # noqa
            return ("exc", e)

    def local_task(self, task, args, kwargs):
        try:
            return ("ret", task.func(*args, **kwargs))
        except Exception as e:  # noqa
            return ("exc", e)

    def command_single(self, prefix, job, no_cache):
        from redun.executors.command import get_oneshot_command
        from redun.scheduler import CacheScope  # noqa
        opts = {"cache_scope": "NONE"} if no_cache else {}
        return get_oneshot_command(prefix, job, self.task, job.args[0], job.args[1], job_options=opts)

    def command_array(self, prefix, jobs, aid, no_cache):
        from redun.executors.command import get_oneshot_command
        opts = {"cache_scope": "NONE"} if no_cache else {}
        return get_oneshot_command(prefix, jobs[0], self.task, job_options=opts, array_uuid=aid)

    def write_array(self, prefix, jobs, aid, include=True):
        from redun.executors.scratch import write_array_job_scratch_files
        return write_array_job_scratch_files(jobs, prefix, aid, include_eval_hash=include)

    def oneshot(self, command, env):
        """in-process; returns ('ret', value) | ('exc', exception)"""
        saved = {k: os.environ.get(k) for k in ENV_VARS}
        for k in ENV_VARS:
            os.environ.pop(k, None)
        os.environ.update(env)
        logging.disable(logging.CRITICAL)
        try:
            with contextlib.redirect_stdout(io.StringIO()):
                return ("ret", self.client.execute(list(command)))
        except Exception as e:  # noqa
            return ("exc", e)
        finally:
            logging.disable(logging.NOTSET)
            self.reset_import_paths()
            for k, v in saved.items():
                if v is None:
                    os.environ.pop(k, None)
                else:
                    os.environ[k] = v

    def oneshot_subprocess(self, command, env):
        """the real CLI entry point (redun.cli.main) in a fresh interpreter; returns exit code"""
        e = {k: v for k, v in os.environ.items() if k not in ENV_VARS}
        e.update(env)
        e["PYTHONPATH"] = f"{REPO}:{self.dir}"
        code = "import sys; from redun.cli import main; sys.argv[0] = 'redun'; sys.exit(main())"
        p = subprocess.run([sys.executable, "-c", code, *command[1:]], cwd=self.dir, env=e, capture_output=True,
                           text=True, timeout=120)
        return p.returncode

    def collect(self, prefix, job, status_ok: bool):
        """what _process_job_status hands to the scheduler: ('ret', v) | ('exc', e)"""
        from redun.executors.scratch import SCRATCH_OUTPUT, get_job_scratch_file, parse_job_error, parse_job_result
        if status_ok:
            result, exists = parse_job_result(prefix, job)
            if exists:
                return ("ret", result)
            return ("exc", FileNotFoundError(get_job_scratch_file(prefix, job, SCRATCH_OUTPUT)))
        error, _tb = parse_job_error(prefix, job)
        return ("exc", error)

    # ---- snapshots -----------------------------------------------------------------------
    def files(self, prefix):
        out = {}
        base = self.dir / prefix
        if base.exists():
            for p in sorted(base.rglob("*")):
                if p.is_file():
                    out[str(p.relative_to(self.dir))] = p.read_bytes()
        return out

    def decode(self, rel: str, data: bytes, it: Intern):
        """file -> model blob ('P', obj|None) | ('J', [str]) | ('T', str); None if not representable"""
        parts = rel.split("/")
        kind, name = parts[-3], parts[-1]
        if kind == "array_jobs" and name in ("output", "error"):
            try:
                l = json.loads(data.decode())
                if isinstance(l, list) and all(isinstance(x, str) for x in l):
                    return ("J", l)
            except Exception:  # noqa
                pass
            return ("P", None)
        if kind == "array_jobs" and name == "eval_hashes":
            t = data.decode("latin-1")
            return ("T", t)
        try:
            v = pickle.loads(data)
        except Exception:  # noqa
            return ("P", None)
        if name == "input":
            if isinstance(v, (list, tuple)):
                if kind == "array_jobs":
                    return ("P", ("S", [("S", [it.leaf(y) for y in x]) if isinstance(x, (list, tuple)) else it.leaf(x)
                                        for x in v]))
                return ("P", ("S", [it.leaf(x) for x in v]))
            return ("P", it.leaf(v))
        if name == "error":
            if isinstance(v, tuple) and len(v) == 2 and isinstance(v[0], BaseException):
                return ("P", ("S", [exc_obj(v[0], it), ("L", 0)]))
            if isinstance(v, (list, tuple)):
                return ("P", ("S", [it.leaf(x) for x in v]))
            return ("P", it.leaf(v))
        return ("P", it.leaf(v))

    def snapshot(self, prefix, it: Intern):
        return {rel: self.decode(rel, data, it) for rel, data in self.files(prefix).items()}


def cq_blob(b) -> str:
    if b[0] == "P":
        return "(BPickle pb " + ("None" if b[1] is None else f"(Some {Obj.coq(b[1])})") + ")"
    if b[0] == "J":
        return "(BJson pb " + cq_list([cs(x) for x in b[1]]) + ")"
    return f"(BText pb {cs(b[1])})"


def cq_fs(snap: dict) -> str:
    return cq_list([f"({cs(p)}, {cq_blob(b)})" for p, b in snap.items()])


def _norm(v):
    from redun import File
    if isinstance(v, File):
        return ("File", v.path)
    if isinstance(v, (list, tuple)):
        return type(v)(_norm(x) for x in v)
    return v


def same_outcome(a, b) -> bool:
    """equality of ('ret', v) / ('exc', e): values by == (a File by its path), exceptions by type and args"""
    if a[0] != b[0]:
        return False
    if a[0] == "ret":
        return type(a[1]) is type(b[1]) and _norm(a[1]) == _norm(b[1])
    return type(a[1]) is type(b[1]) and a[1].args == b[1].args


def show(o):
    return f"{o[0]}:{o[1]!r}"[:300]


# ---------------------------------------------------------------------------------------------
# Generators
# ---------------------------------------------------------------------------------------------
class Gen:
    def __init__(self, rng):
        self.rng = rng

    def atom(self):
        r = self.rng
        return r.choice([0, 1, -3, 2 ** 70, "x", "", "é", None, True, 1.5, b"\x00\xff", (1, 2), [3, [4]], {"k": [1]},
                         r.randint(-1000, 1000), "".join(r.choice("abc -\n") for _ in range(r.randint(0, 6)))])

    def argset(self):
        """(args, kwargs) for wf_c32.f; most succeed, some raise (in the task or at call time)"""
        r = self.rng
        k = r.random()
        if k < 0.12:
            first = "boom"
        elif k < 0.2:
            first = "my"
        elif k < 0.25:
            first = "div"
        elif k < 0.3:
            first = "none"
        elif k < 0.36:
            first = "dict"
        elif k < 0.39:
            first = "big"
        else:
            first = self.atom()
        n = r.choice([0, 1, 1, 2, 2, 3, 5])
        args = tuple([first] + [self.atom() for _ in range(n)])[: r.choice([1, 2, 3, 6])] if r.random() < 0.9 else ()
        kwargs = {}
        for key in r.sample(["x", "y", "zz"], r.choice([0, 0, 1, 2])):
            kwargs[key] = self.atom()
        if r.random() < 0.06 and len(args) >= 1:
            kwargs["a"] = 1          # TypeError: multiple values for argument 'a' (raised by the call)
        if r.random() < 0.05 and len(args) < 2:
            kwargs["b"] = self.atom()
        return args, kwargs

    def hash_of(self, args, kwargs, long=False):
        h = hashlib.sha1(repr((args, kwargs)).encode()).hexdigest()
        return h if long else h[:8]

    def prefix_name(self):
        r = self.rng
        k = r.random()
        if k < 0.3:
            return r.choice(["batch-job", "redun-job", "a", "", "-", "my_jobs-2", "x-array", "array", "p--q"])
        return "".join(r.choice("ab-_09Z") for _ in range(r.randint(0, 9)))

    def evalhash(self):
        """what a redun evaluation hash looks like: 40 lowercase hex characters"""
        return "".join(self.rng.choice("0123456789abcdef") for _ in range(40))

    def hexhash(self):
        r = self.rng
        k = r.random()
        if k < 0.4:
            return "".join(r.choice("0123456789abcdef") for _ in range(40))
        if k < 0.6:
            return uuid.UUID(int=r.getrandbits(128)).hex
        return "".join(r.choice("0123456789abcdef") for _ in range(r.randint(1, 6)))


# ---------------------------------------------------------------------------------------------
class Check(PropertyCheck):
    id = "C32"
    module = "Props.C32"
    cfgname = "shipped"
    theorems = ["C32_single_eq_local", "C32_single_eq_local_fresh", "C32_array_elem_eq_local",
                "C32_array_elem_eq_local_batch", "C32_own_paths", "C32_array_index_env", "C32_jobname_roundtrip",
                "C32_jobname_roundtrip_hex", "C32_eval_hashes_file", "C32_reunite_only_same_hash", "C32_nonvacuous",
                "C32_array_group_own_task", "C32_array_group_elem_eq_local", "C32_grouping_by_name_refuted",
                "C32_attempts_eq_local", "C32_attempts_after_failures", "C32_stage_if_absent_refuted",
                "C32_output_iff_success_fixed", "C32_output_iff_success_fixed_no_cache",
                "C32_output_iff_success_shipped_partial", "C32_array_output_iff_success_fixed",
                "C32_array_output_iff_success_shipped_partial", "C32_stale_output_no_cache_refuted",
                "C32_never_clear_refuted", "C32_history_fixed_agrees",
                "C32_array_group_same_options", "C32_grouping_names_only_refuted"]
    extra_modules = ["Base.Lit", "Model.ScratchCases", "Proofs.ScratchClear"]
    allowed_axioms = []
    section_premises = [
        "pickle round trip: load (dump o) = Some o for every object the protocol writes (arguments, results, "
        "(exception, traceback) pairs); re-tested by every correspondence and oracle case through the real pickle",
    ]
    assumptions = [
        "evaluation hashes and array uuids are non-empty lowercase hex strings (sha hexdigest / uuid4().hex); an "
        "evaluation hash determines the job's arguments",
        "a pre-existing output file in the scratch directory is either absent or holds what the task returns for "
        "these arguments (the scratch path is keyed by the evaluation hash); corrupt or foreign files there are "
        "outside the statement (the model still follows the code on them, see the correspondence cases)",
        "json.dump/json.load round-trip a list of str, a text file round-trips ASCII text, os.path.join is "
        "posixpath.join (modelled; compared on generated components)",
        "exceptions raised by tasks are picklable (the generic-Exception fallback of oneshot_command for "
        "unpicklable errors is not modelled); script tasks and the command-line argument path of oneshot "
        "(no --input) are not modelled",
        "the batch service starts element i of an array with the index variable set to the decimal i "
        "(i < MAX_ARRAY_SIZE = 10000), sequentially consistent file system; element runs are interleaved at "
        "process granularity",
    ]
    rule = ("generated task argument sets (atoms incl. None/bytes/nested containers/unicode, raising and "
            "call-time-TypeError sets), array sizes 1..24 (one larger), every element index in shuffled order, "
            "all three index variables and --array-rank-env, stale/corrupt/missing scratch files, generated job-name "
            "prefixes over [ab-_09Z] and hex hashes (40-hex, uuid hex, short); a case is non-trivial unless the "
            "argument set is empty; distinct by repr")

    # ------------------------------------------------------------------ translate
    def translate(self):
        try:
            text, _pins, cfg = tr_scratch.translate(pins=PINS)
        except astutil.TranslateError as e:
            raise TranslateError(str(e))
        self.cfg = cfg
        # the model variant the current source is in (the tie lemma of C32Gen.v states the same)
        self.cfgname = {"ClearCached": "shipped", "ClearAlways": "fixed", "ClearNever": "never"}[cfg["clear_output"]]
        GEN.mkdir(exist_ok=True)
        p = GEN / "C32Gen.v"
        p.write_text(text)
        return [p]

    # ------------------------------------------------------------------ correspondence
    def correspond(self):
        real = Real()
        import time
        try:
            for name, fn in (("pure", self._pure_cases), ("protocol", lambda: self._protocol_cases(real)),
                             ("reunite", lambda: self._reunite_cases(real)),
                             ("grouping", lambda: self._group_cases(real))):
                t0 = time.time()
                fn()
                self.stat("timing_s", "correspond_generate_" + name, round(time.time() - t0, 1))
        finally:
            real.close()
        t0 = time.time()
        self._flush_terms()
        self.stat("timing_s", "correspond_coq", round(time.time() - t0, 1))

    def _run_terms(self, tag, terms, descr, what, chunk=250):
        """queue a group of Coq cases; they are compiled together (in parallel) by _flush_terms"""
        self._pending = getattr(self, "_pending", []) + [(tag, terms, descr, what, chunk)]

    def _flush_terms(self):
        pending, self._pending = getattr(self, "_pending", []), []

        def go(p):
            tag, terms, descr, what, chunk = p
            return run_bool_cases(tag, ["Base.Decimal", "Base.Lit", "Model.Scratch", "Model.ScratchCases", "Proofs.ScratchClear"],
                                  "From Coq Require Import ZArith NArith String.\n", terms, chunk=chunk)
        with ThreadPoolExecutor(max_workers=3) as ex:
            results = list(ex.map(go, pending))
        for (tag, terms, descr, what, chunk), (ok, failing, diags) in zip(pending, results):
            self.ob("correspondence", f"{what} ({len(terms)} cases)", ok and not failing,
                    "\n".join(diags) + "".join(f"\nmismatch: {descr[i]}" for i in failing[:8]))
            self.mismatches = getattr(self, "mismatches", []) + [descr[i] for i in failing]

    def _pure_cases(self):
        from redun.executors.aws_batch import get_batch_job_name, get_hash_from_job_name, is_array_job_name
        from redun.executors.scratch import get_array_scratch_file, get_job_scratch_file
        from redun.job_array import get_job_array_index
        r = self.rng
        g = Gen(r)
        n = 200 if self.tier == "quick" else 1500
        terms, descr = [], []

        def add(t, d):
            terms.append(t)
            descr.append(d)

        for i in range(n):
            # job names: arbitrary strings around the separators, and protocol-made names
            if i % 2:
                name = "".join(r.choice("-a\nry-ar0f") for _ in range(r.randint(0, 14))) + r.choice(["", "", "-array", "array"])
            else:
                name = get_batch_job_name(g.prefix_name(), g.hexhash() if r.random() < 0.7 else
                                          "".join(r.choice("0af-\n") for _ in range(r.randint(0, 5))), r.random() < 0.5)
            add(f"opt_eq bytes_eq (hash_of_job_name shipped {cs(name)}) {co(get_hash_from_job_name(name))}", ("hash_of", name))
            add(f"Bool.eqb (is_array_job_name shipped {cs(name)}) {cb(is_array_job_name(name))}", ("is_array", name))
            p, h, a = g.prefix_name(), "".join(r.choice("0af-") for _ in range(r.randint(0, 5))), r.random() < 0.5
            add(f"bytes_eq (batch_job_name shipped {cs(p)} {cs(h)} {cb(a)}) {cs(get_batch_job_name(p, h, a))}", ("name", p, h, a))
            self.stat("pure", "job-name")
            # splitlines
            t = "".join(r.choice("ab\n\r\x0b\x0c\x1c\x1d\x1e\x1f 0") for _ in range(r.randint(0, 12)))
            add(f"list_eq bytes_eq (splitlines {cs(t)}) {cq_list([cs(x) for x in t.splitlines()])}", ("splitlines", t))
            hs = [g.hexhash()[:r.randint(1, 8)] for _ in range(r.randint(0, 5))]
            add(f"bytes_eq (join_nl {cq_list([cs(x) for x in hs])}) {cs(chr(10).join(hs))}", ("join", hs))
            # paths
            sp = r.choice(["s", "s/", "/tmp/x", "", "/", "a//b", "s3://bucket/pre"]) if r.random() < 0.7 else \
                "".join(r.choice("a/b") for _ in range(r.randint(0, 5)))
            hh = g.hexhash()[:r.randint(1, 6)] if r.random() < 0.8 else "".join(r.choice("a/") for _ in range(r.randint(0, 3)))
            fn = r.choice(["input", "output", "error", "eval_hashes", "status", "", "/abs"])
            if hh:
                jobx = SimpleNamespace(eval_hash=hh)
                add(f"bytes_eq (job_file shipped {cs(sp)} {cs(hh)} {cs(fn)}) {cs(get_job_scratch_file(sp, jobx, fn))}", ("job_file", sp, hh, fn))
            add(f"bytes_eq (array_file shipped {cs(sp)} {cs(hh)} {cs(fn)}) {cs(get_array_scratch_file(sp, hh, fn))}", ("array_file", sp, hh, fn))
            # index
            env = {}
            for v in r.sample(ENV_VARS, r.choice([0, 1, 1, 2, 3])):
                env[v] = r.choice(["0", "7", "12", "007", "9999", "123456789012", "", " 3", "-1", "1_0", "x", "+4"])
            ev = r.choice([None, None, "", "MY_RANK", "OTHER_RANK", "AWS_BATCH_JOB_ARRAY_INDEX"])
            try:
                got = get_job_array_index(env=env, env_var=ev)
                exp = "IdxNone" if got is None else f"(IdxOk {got}%N)"
                if got is not None and got < 0:
                    exp = "IdxUnmodelled"
            except KeyError:
                exp = "IdxKeyError"
            except ValueError:
                exp = "IdxUnmodelled"
            used = None
            if ev:
                used = env.get(ev)
            else:
                for v in ENV_VARS[:3]:
                    if v in env:
                        used = env[v]
                        break
            if used is not None and not (used.isascii() and used.isdigit()):
                exp = "IdxUnmodelled"       # int() accepts more than the model covers; the model must say so
            envq = cq_list([f"({cs(k)}, {cs(v)})" for k, v in env.items()])
            add(f"idx_res_eqb (get_index shipped {envq} {co(ev)}) {exp}", ("index", env, ev))
            self.stat("pure_index", exp.split()[0].strip("("))
            self.count(("pure", name, t, sp, hh, fn, repr(env), ev))
        self._run_terms("C32p", terms, descr, "model == job-name / regex / splitlines / path / array-index functions")

    # ------------------------------------------------------------------
    def _stale(self, real, prefix, job, kind, it):
        """put a stale file into the job's scratch dir before the run"""
        from redun import File
        from redun.scheduler import Traceback
        from redun.utils import pickle_dump
        d = real.dir / prefix / "jobs" / job.eval_hash
        d.mkdir(parents=True, exist_ok=True)
        if kind == "error":
            e = ValueError("stale", 1)
            with open(d / "error", "wb") as fh:
                pickle_dump((e, Traceback.from_error(e)), fh)
        elif kind == "out_same":
            loc = real.local(*job.args)
            v = loc[1] if loc[0] == "ret" else ["unrelated"]
            with open(d / "output", "wb") as fh:
                pickle_dump(v, fh)
        elif kind == "out_other":
            with open(d / "output", "wb") as fh:
                pickle_dump({"stale": job.eval_hash}, fh)
        elif kind == "out_invalid":
            data = real.dir / f"data_{prefix}_{job.eval_hash}.txt"
            data.write_text("v1")
            fobj = File(str(data.relative_to(real.dir)))
            with open(d / "output", "wb") as fh:
                pickle_dump(fobj, fh)
            data.write_text("version 2")
        elif kind == "out_corrupt":
            (d / "output").write_bytes(b"garbage")
        elif kind == "input_other":          # what an earlier attempt with other (config) arguments staged
            with open(d / "input", "wb") as fh:
                pickle_dump([("boom", "earlier attempt"), {}], fh)

    def _mark_invalid(self, real, prefix, it):
        """ids of pickled values in the scratch dir that the type registry rejects now"""
        from redun.value import get_type_registry
        reg = get_type_registry()
        for rel, data in real.files(prefix).items():
            if rel.endswith("/output") and "/jobs/" in rel:
                try:
                    v = pickle.loads(data)
                    if not reg.is_valid_nested(v):
                        it.bad.add(it.id(v))
                except Exception:  # noqa
                    pass

    def _protocol_cases(self, real):
        from redun.utils import pickle_dump
        from redun.value import get_type_registry
        from redun.executors.scratch import parse_job_error, parse_job_result
        r = self.rng
        g = Gen(r)
        n = 150 if self.tier == "quick" else 1000
        terms, descr = [], []
        for k in range(n):
            it = Intern()
            prefix = f"s{k}"
            array = r.random() < 0.6
            no_cache = r.random() < 0.3
            njobs = r.choice([1, 2, 3, 3, 4, 6, 9]) if array else 1
            jobs = []
            for _ in range(njobs):
                a, kw = g.argset()
                jobs.append(real.job(g.hash_of(a, kw), a, kw))
            # stale files before the executor writes
            stale = []
            for j in jobs:
                if r.random() < 0.35:
                    kind = r.choice(["error", "out_same", "out_other", "out_invalid", "out_corrupt", "out_same", "error", "input_other", "input_other"])
                    self._stale(real, prefix, j, kind, it)
                    stale.append(kind)
            pre = real.snapshot(prefix, it)
            aid = uuid.UUID(int=r.getrandbits(128)).hex[:10]
            if array:
                include = r.random() < 0.8
                real.write_array(prefix, jobs, aid, include)
                command = real.command_array(prefix, jobs, aid, no_cache)
            else:
                command = real.command_single(prefix, jobs[0], no_cache)
            post = real.snapshot(prefix, it)
            # --- model writers and the command they build
            jl = cq_list([f"(mkjob {cs(j.eval_hash)} ({it.id(j.args[0])})%Z ({it.id(j.args[1])})%Z)" for j in jobs])
            if array:
                terms.append(f"fs_agree (write_array Z pb dumpZ shipped {cs(prefix)} {cs(aid)} {jl} {cb(include)} {cq_fs(pre)}) {cq_fs(post)}")
            else:
                terms.append(f"fs_agree (write_single Z pb dumpZ shipped {cs(prefix)} (mkjob {cs(jobs[0].eval_hash)} "
                             f"({it.id(jobs[0].args[0])})%Z ({it.id(jobs[0].args[1])})%Z) {cq_fs(pre)}) {cq_fs(post)}")
            descr.append(("write", prefix, array, [j.args for j in jobs]))
            parsed = self._parse_command(command)
            mk = f"(args_array shipped {cs(prefix)} {cs(aid)} {cb(no_cache)})" if array else \
                f"(args_single shipped {cs(prefix)} {cs(jobs[0].eval_hash)} {cb(no_cache)})"
            terms.append(f"oargs_eqb {mk} {self._cq_oargs(parsed)}")
            descr.append(("command", command))
            # --- mutations after the write
            mut = "none"
            m = r.random()
            base = real.dir / prefix / ("array_jobs/" + aid if array else "jobs/" + jobs[0].eval_hash)
            if m < 0.05:
                (base / "input").unlink()
                mut = "input-missing"
            elif m < 0.09:
                (base / "input").write_bytes(b"garbage")
                mut = "input-corrupt"
            elif m < 0.13:
                with open(base / "input", "wb") as fh:
                    if array:
                        pickle_dump([[j.args[0] for j in jobs], [j.args[1] for j in jobs][:-1]], fh)
                    else:
                        pickle_dump([jobs[0].args[0], jobs[0].args[1], 3], fh)
                mut = "input-shape"
            elif m < 0.17 and array:
                which = r.choice(["output", "error"])
                how = r.choice(["missing", "corrupt", "short"])
                if how == "missing":
                    (base / which).unlink()
                elif how == "corrupt":
                    (base / which).write_bytes(b"garbage")
                else:
                    (base / which).write_text(json.dumps(json.loads((base / which).read_text())[:-1]))
                mut = f"spec-{which}-{how}"
            elif m < 0.21:
                drop = r.choice(["--output", "--error"])
                i = command.index(drop)
                command = command[:i] + command[i + 2:]
                mut = "no" + drop
            parsed = self._parse_command(command)
            # --- environment
            env = {}
            idx = 0
            if array:
                e = r.random()
                idx = r.randrange(njobs) if r.random() < 0.9 else njobs + r.randint(0, 2)
                val = str(idx) if r.random() < 0.9 else "0" * r.randint(1, 2) + str(idx)
                if e < 0.7:
                    env[r.choice(ENV_VARS[:3])] = val
                elif e < 0.8:
                    vs = r.sample(ENV_VARS[:3], 2)
                    first = min(vs, key=ENV_VARS.index)
                    env[first] = val
                    env[[v for v in vs if v != first][0]] = str((idx + 1) % njobs)
                elif e < 0.9:
                    i = command.index("--array-job")
                    rank = r.choice(["MY_RANK", "OTHER_RANK"])
                    command = command[:i + 1] + ["--array-rank-env", rank] + command[i + 1:]
                    parsed = self._parse_command(command)
                    if r.random() < 0.8:
                        env[rank] = val
                    env[ENV_VARS[0]] = str((idx + 1) % njobs)
                elif e < 0.95:
                    pass                                    # no index variable at all
                else:
                    env[ENV_VARS[0]] = r.choice([" 1", "-1", "x"])
            self._mark_invalid(real, prefix, it)
            before = real.snapshot(prefix, it)
            out = real.oneshot(command, env)
            after = real.snapshot(prefix, it)
            self._mark_invalid(real, prefix, it)
            tgt = jobs[idx] if idx < njobs else jobs[0]
            # readers on the real side
            try:
                res, exists = parse_job_result(prefix, tgt)
                exp_res = f"(PRes Z {Obj.coq(it.leaf(res))})" if exists else "(PAbsent Z)"
            except Exception:  # noqa
                exp_res = "(PLoadRaises Z)"
            try:
                res, exists = parse_job_result(prefix, tgt, get_type_registry().is_valid_nested)
                exp_resv = f"(PRes Z {Obj.coq(it.leaf(res))})" if exists else "(PAbsent Z)"
            except Exception:  # noqa
                exp_resv = "(PLoadRaises Z)"
            self._mark_invalid(real, prefix, it)
            err, _tb = parse_job_error(prefix, tgt)
            exp_err = Obj.coq(exc_obj(err, it))
            # the task table
            table = []
            for j in jobs:
                loc = real.local(*j.args)
                o = f"(Ret Z {Obj.coq(it.leaf(loc[1]))})" if loc[0] == "ret" else f"(Exc Z {Obj.coq(exc_obj(loc[1], it))})"
                table.append(f"(({it.id(j.args[0])})%Z, ({it.id(j.args[1])})%Z, {o})")
            exp_run = f"(Returned Z {Obj.coq(it.leaf(out[1]))})" if out[0] == "ret" else f"(Raised Z {Obj.coq(exc_obj(out[1], it))})"
            envq = cq_list([f"({cs(a)}, {cs(b)})" for a, b in env.items()])
            bad = cq_list([f"({i})%Z" for i in sorted(it.bad)])
            unmodelled = any(not v.isdigit() for v in env.values())
            if unmodelled:
                terms.append(f"run_eqb (snd (oneshotZ {self.cfgname} {cq_list(table)} {bad} {envq} {self._cq_oargs(parsed)} {cq_fs(before)})) (Unmodelled Z)")
            else:
                terms.append(f"oneshot_case {self.cfgname} {cq_list(table)} {bad} {envq} {self._cq_oargs(parsed)} {cq_fs(before)} "
                             f"{exp_run} {cq_fs(after)} {cs(prefix)} {cs(tgt.eval_hash)} {exp_res} {exp_resv} {exp_err}")
            descr.append(("oneshot", prefix, "array" if array else "single", mut, stale, env, command, show(out)))
            # what a file-judging executor (docker.iter_job_status) makes of the scratch dir afterwards
            try:
                ok_d = self._judge(real, prefix, "docker", tgt, None)
                if ok_d:
                    res_d, _ex = parse_job_result(prefix, tgt)
                    exp_d = f"(CDone Z {Obj.coq(it.leaf(res_d))})"
                else:
                    exp_d = f"(CReject Z {Obj.coq(exc_obj(parse_job_error(prefix, tgt)[0], it))})"
            except Exception:  # noqa
                exp_d = "(CRaises Z)"
            terms.append(f"collected_eqb (collect_by_output Z pb loadZ {self.cfgname} {cs(prefix)} {cs(tgt.eval_hash)} {cq_fs(after)}) {exp_d}")
            descr.append(("docker-judgement", prefix, stale, mut, show(out), exp_d))
            self.stat("protocol_kind", "array" if array else "single")
            self.stat("protocol_mutation", mut)
            self.stat("protocol_outcome", "unmodelled" if unmodelled else (out[0] if out[0] == "ret" else type(out[1]).__name__))
            for s_ in stale:
                self.stat("protocol_stale", s_)
            self.count(("proto", repr([j.args for j in jobs]), mut, repr(env), tuple(stale)) if any(j.args[0] or j.args[1] for j in jobs) else None)
            self.sample({"op": "oneshot", "kind": "array" if array else "single", "n": njobs, "index_env": env,
                         "mutation": mut, "stale": stale, "args": repr(tgt.args)[:160], "outcome": show(out)[:160]}, 5)
            shutil.rmtree(real.dir / prefix, ignore_errors=True)
        self._run_terms("C32o", terms, descr,
                        "model == get_oneshot_command / write_array_job_scratch_files / oneshot_command / "
                        "parse_job_result / parse_job_error on generated scratch directories", chunk=60)

    @staticmethod
    def _parse_command(command):
        a = {"array": "--array-job" in command, "no_cache": "--no-cache" in command, "rank": None, "input": None,
             "output": None, "error": None}
        for flag, key in (("--array-rank-env", "rank"), ("--input", "input"), ("--output", "output"), ("--error", "error")):
            if flag in command:
                a[key] = command[command.index(flag) + 1]
        return a

    @staticmethod
    def _cq_oargs(a):
        return (f"{{| a_array := {cb(a['array'])}; a_rank_env := {co(a['rank'])}; a_input := {co(a['input'])}; "
                f"a_output := {co(a['output'])}; a_error := {co(a['error'])}; a_no_cache := {cb(a['no_cache'])} |}}")

    # ------------------------------------------------------------------ reunite
    def _executor(self, prefix, name_prefix, listing):
        """a real AWSBatchExecutor whose AWS client is a fake serving `listing` (jobs with status)"""
        from configparser import ConfigParser
        from redun.executors.aws_batch import AWSBatchExecutor
        cp = ConfigParser()
        cp.read_dict({"b": {"image": "img", "queue": "q", "s3_scratch": prefix, "job_name_prefix": name_prefix,
                            "aws_region": "us-west-2"}})
        ex = AWSBatchExecutor("b", config=cp["b"])

        class Pager:
            def paginate(self, jobQueue=None, jobStatus=None, arrayJobId=None):
                if arrayJobId is not None:
                    rows = [c for j in listing if j["jobId"] == arrayJobId for c in j.get("children", []) if c["status"] == jobStatus]
                else:
                    rows = [{k: v for k, v in j.items() if k != "children"} for j in listing if j["status"] == jobStatus]
                half = len(rows) // 2
                return [{"jobSummaryList": rows[:half]}, {"jobSummaryList": rows[half:]}]

        class Client:
            def get_paginator(self, name):
                assert name == "list_jobs"
                return Pager()
        return ex, Client()

    def _gather_real(self, real, prefix, name_prefix, listing):
        from redun.executors import aws_batch
        from redun.executors.aws_batch import BATCH_JOB_STATUSES
        ex, client = self._executor(prefix, name_prefix, listing)
        with mock.patch.object(aws_batch.aws_utils, "get_aws_client", lambda *a, **k: client):
            seen = list(ex.get_jobs(BATCH_JOB_STATUSES.inflight))
            inflight = []
            for j in seen:
                ch = [(c["jobId"], c["arrayProperties"]["index"]) for c in ex.get_array_child_jobs(j["jobId"], BATCH_JOB_STATUSES.inflight)]
                inflight.append((j["jobName"], j["jobId"], ch))
            try:
                ex.gather_inflight_jobs()
                return inflight, ("ok", dict(ex.preexisting_batch_jobs))
            except IndexError as e:
                return inflight, ("IndexError", None)

    def _world(self, real, prefix, g, faithful: bool):
        """a scratch dir with array eval files + a batch listing. faithful: only what the protocol and
        unrelated well-behaved jobs produce; otherwise also odd names / indices / files."""
        r = self.rng
        name_prefix = r.choice(["batch-job", "redun-job", "a", "p-q", "x_1"])
        statuses = ["SUBMITTED", "PENDING", "RUNNABLE", "STARTING", "RUNNING", "SUCCEEDED", "FAILED"]
        listing, created = [], {}
        nid = itertools.count(1)
        for _ in range(r.randint(0, 6)):
            kind = r.random()
            jid = f"id{next(nid)}"
            st = r.choice(statuses[:5] * 3 + statuses[5:])
            if kind < 0.4:                                        # single job
                h = g.hexhash() if not faithful else g.evalhash()
                if r.random() < 0.15 and created:
                    h = r.choice(list(created.values()))          # same evaluation hash submitted twice
                from redun.executors.aws_batch import get_batch_job_name
                pfx = name_prefix + r.choice(["", "", "-2", "-sub-x"])
                listing.append({"jobName": get_batch_job_name(pfx, h), "jobId": jid, "status": st})
                created[jid] = h
            elif kind < 0.8:                                      # array job
                from redun.executors.aws_batch import get_batch_job_name
                aid = uuid.UUID(int=r.getrandbits(128)).hex
                n = r.randint(1, 5)
                hs = [g.hexhash() if not faithful else g.evalhash() for _ in range(n)]
                jobs = [real.job(h, (), {}) for h in hs]
                wrote = r.random() < 0.85
                if wrote:
                    real.write_array(prefix, jobs, aid, True)
                children = []
                for i in r.sample(range(n), r.randint(0, n)):
                    cid = f"{jid}:{i}"
                    children.append({"jobId": cid, "status": r.choice(statuses[:5] * 3 + statuses[5:]),
                                     "arrayProperties": {"index": i}})
                    created[cid] = hs[i]
                if not faithful and wrote and r.random() < 0.3:
                    p = real.dir / prefix / "array_jobs" / aid / "eval_hashes"
                    how = r.choice(["short", "odd", "empty"])
                    if how == "short":
                        p.write_text("\n".join(hs[:-1]))
                    elif how == "odd":
                        p.write_text("\n".join(["", "x-y", hs[0] + "\x0b" + "q"] + hs[1:]))
                    else:
                        p.write_text("")
                listing.append({"jobName": get_batch_job_name(name_prefix, aid, array=True), "jobId": jid, "status": st,
                                "children": children})
            else:                                                 # unrelated job
                nm = name_prefix + r.choice(["-headnode", "-head-node-1", "", "-x-array", "-zz-array", "_other", "-Deploy"])
                if not faithful and r.random() < 0.5:
                    nm = name_prefix + "".join(r.choice("-a\nf0") for _ in range(r.randint(0, 6))) + r.choice(["", "-array"])
                listing.append({"jobName": nm, "jobId": jid, "status": st,
                                "children": [{"jobId": f"{jid}:0", "status": "RUNNING", "arrayProperties": {"index": 0}}]})
        if r.random() < 0.2:
            listing.append({"jobName": "zz-unrelated-" + g.hexhash(), "jobId": f"id{next(nid)}", "status": "RUNNING"})
        return name_prefix, listing, created

    def _reunite_cases(self, real):
        r = self.rng
        g = Gen(r)
        n = 110 if self.tier == "quick" else 600
        terms, descr = [], []
        for k in range(n):
            it = Intern()
            prefix = f"r{k}"
            name_prefix, listing, _created = self._world(real, prefix, g, faithful=(k % 3 == 0))
            inflight, got = self._gather_real(real, prefix, name_prefix, listing)
            snap = real.snapshot(prefix, it)
            fsq = cq_list([f"({cs(p)}, {cq_blob(b)})" for p, b in snap.items() if p.endswith("/eval_hashes")])
            lq = cq_list([f"{{| in_name := {cs(nm)}; in_id := {cs(jid)}; in_children := "
                          + cq_list([f"({cs(c)}, {i}%N)" for c, i in ch]) + " |}" for nm, jid, ch in inflight])
            if got[0] == "ok":
                exp = "(GOk " + cq_list([f"({cs(h)}, {cs(j)})" for h, j in got[1].items()]) + ")"
            else:
                exp = "(GRaise EIndex)"
            terms.append(f"gres_eqb (gather_inflight pb shipped {cs(prefix)} {fsq} {lq} []) {exp}")
            descr.append(("gather", name_prefix, listing, got))
            self.stat("reunite_result", got[0])
            self.stat("reunite_listing_size", len(listing))
            self.count(("reunite", repr(listing)) if listing else None)
            self.sample({"op": "gather_inflight_jobs", "listing": [(j["jobName"], j["status"]) for j in listing][:4],
                         "result": repr(got)[:200]}, 6)
            shutil.rmtree(real.dir / prefix, ignore_errors=True)
        self._run_terms("C32r", terms, descr, "model == AWSBatchExecutor.gather_inflight_jobs on generated batch listings", chunk=60)


    # ------------------------------------------------------------------ array path (arrayer + submission)
    def _job_mix(self, real, g):
        """jobs of several tasks, incl. the same short name in different namespaces, equal / different options"""
        r = self.rng
        n = r.choice([2, 3, 4, 4, 5, 6, 8])
        attrs = r.choice([["alpha_transform", "beta_transform"], ["alpha_transform", "beta_transform", "plain_transform"],
                          TASK_ATTRS, ["alpha_transform", "alpha_other"], ["beta_transform"], TASK_ATTRS[:4]])
        optsets = r.choice([[{}], [{}], [{"memory": 1}], [{}, {"memory": 2}], [{"memory": 1, "vcpus": 2}, {"vcpus": 2, "memory": 1}],
                            [{"batch_tags": {"a": "b c"}}, {}],
                            # same option names, different VALUES (definition vs call-time value, another export ...)
                            [{"memory": 4}, {"memory": 64}], [{"vcpus": 1}, {"vcpus": 8}, {"vcpus": 1}],
                            [{"queue": "small"}, {"queue": "large"}], [{"memory": 4, "vcpus": 2}, {"memory": 4, "vcpus": 16}],
                            [{"retries": 1}, {"retries": 5}], [{"image": "img:a"}, {"image": "img:b"}]])
        spec = []
        for i in range(n):
            attr = r.choice(attrs)
            if attr == "f":
                a, kw = g.argset()
            else:
                a = (r.choice([i, i + 10, -7, 3]),) if r.random() < 0.9 else ()
                kw = {"scale": r.choice([2, 3])} if r.random() < 0.4 else {}
            spec.append((attr, a, kw, r.choice(optsets)))
        return spec

    def _mk_jobs(self, real, spec):
        g = Gen(self.rng)
        jobs = []
        for attr, a, kw, opts in spec:
            task = getattr(real.wf, attr)
            h = hashlib.sha1(repr((task.fullname, a, kw)).encode()).hexdigest()
            jobs.append(FakeJob(task, a, kw, opts, h))
        return jobs

    def _array_executor(self, prefix):
        from configparser import ConfigParser
        from redun.executors.aws_batch import AWSBatchExecutor
        cp = ConfigParser()
        cp.read_dict({"b": {"image": "img", "queue": "q", "s3_scratch": prefix, "aws_region": "us-west-2",
                            "code_package": "False", "min_array_size": "2", "job_stale_time": "100000",
                            "job_monitor_interval": "100000"}})
        ex = AWSBatchExecutor("b", config=cp["b"])
        ex._scheduler = SimpleNamespace(add_job_tags=lambda *a, **k: None, log=lambda *a, **k: None)
        ex.log = lambda *a, **k: None
        return ex

    def _run_array_path(self, real, prefix, spec, order_seed=0):
        """real JobArrayer grouping + real _submit_array_job/_submit_single_job/submit_task (AWS submit call faked),
        then every submitted command is executed (real oneshot) as the batch service would; returns problems"""
        import random as _random
        from redun.executors import aws_batch
        jobs = self._mk_jobs(real, spec)
        ex = self._array_executor(prefix)
        subs = []
        counter = itertools.count(1)

        def fake_submit(batch_job_args, queue, image=None, job_name="", array_size=0, **kw):
            jid = f"fb{next(counter)}"
            subs.append((jid, list(batch_job_args["containerOverrides"]["command"]), array_size))
            return {"jobId": jid, "jobName": job_name}
        with mock.patch.object(aws_batch, "batch_submit", fake_submit):
            try:
                for j in jobs:
                    ex.arrayer.add_job(j)
                groups = {d.key: [j.eval_hash for j in js] for d, js in ex.arrayer.pending.items()}
                for d in list(ex.arrayer.pending):
                    ex.arrayer.submit_pending_jobs(d)
            finally:
                ex.arrayer.stop()
        problems = []
        rnd = _random.Random(order_seed)
        for jid, command, size in subs:
            elems = list(range(size)) if size else [None]
            rnd.shuffle(elems)
            for i in elems:
                key = jid if i is None else f"{jid}:{i}"
                job = ex.pending_batch_jobs[key]
                out = real.oneshot(command, {} if i is None else {ENV_VARS[0]: str(i)})
                rem = real.collect(prefix, job, out[0] == "ret")
                loc = real.local_task(job.task, *job.args)
                if not same_outcome(rem, loc):
                    problems.append(f"{job.task.fullname}{job.args!r} submitted in "
                                    f"{'an array of ' + str(size) if size else 'a single job'} whose command names "
                                    f"{command[-1]}: remote {show(rem)} differs from local {show(loc)}")
        return problems, groups, jobs, subs

    def _group_cases(self, real):
        from redun.job_array import JobDescription
        g = Gen(self.rng)
        n = 60 if self.tier == "quick" else 600
        terms, descr = [], []
        for k in range(n):
            spec = self._job_mix(real, g)
            jobs = self._mk_jobs(real, spec)
            infos = []
            for j in jobs:
                ns = j.task.namespace or ""
                opts = str(sorted(j.get_options().items()))
                info = (f"{{| t_ns := {cs(ns)}; t_name := {cs(j.task.name)}; t_opts := {cs(opts)}; "
                        f"t_optnames := {cs(str(sorted(j.get_options())))} |}}")
                infos.append(info)
                terms.append(f"bytes_eq (descr_key shipped {info}) {cs(JobDescription(j).key)} && "
                             f"bytes_eq (fullname {info}) {cs(j.task.fullname)}")
                descr.append(("descr_key", j.task.fullname, j.get_options()))
            # grouping by the real arrayer (no submission)
            ex = self._array_executor(f"g{k}")
            try:
                for j in jobs:
                    ex.arrayer.add_job(j)
                groups = {d.key: [j.eval_hash[:6] for j in js] for d, js in ex.arrayer.pending.items()}
            finally:
                ex.arrayer.stop()
            pend = cq_list([f"({cs(j.eval_hash[:6])}, {i})" for j, i in zip(jobs, infos)])
            for key, hs in groups.items():
                terms.append(f"list_eq bytes_eq (map fst (group_of shipped snd {pend} {cs(key)})) {cq_list([cs(h) for h in hs])}")
                descr.append(("group", key, hs, [(a, o) for a, _, _, o in spec]))
            self.stat("grouping", f"{len(groups)} group(s) of {len(jobs)} jobs")
            self.count(("group", repr(spec)))
        self._run_terms("C32g", terms, descr, "model == JobDescription.key / Task.fullname / JobArrayer grouping", chunk=250)

    def _oracle_array_path(self, real):
        g = Gen(self.rng)
        n = 40 if self.tier == "quick" else 800
        fixed = [[("alpha_transform", (1,), {}, {}), ("beta_transform", (2,), {}, {}),
                  ("alpha_transform", (3,), {"scale": 2}, {}), ("beta_transform", (4,), {"scale": 3}, {})],
                 [("alpha_transform", (5,), {}, {}), ("beta_transform", (-7,), {}, {})]]
        for k in range(n):
            spec = fixed[k] if k < len(fixed) else self._job_mix(real, g)
            prefix = f"ap{k}"
            problems, groups, jobs, subs = self._run_array_path(real, prefix, spec, order_seed=k)
            self.stat("oracle_array_path", f"{len(subs)} submission(s) for {len(jobs)} jobs")
            self.count(("arraypath", repr(spec)), len(jobs))
            if problems and len(self.findings) < 40:
                names = sorted({getattr(real.wf, a).fullname for a, _, _, _ in spec})
                self.findings.append(Finding(f"arraypath:{'+'.join(names)}"[:200], problems[0],
                                             {"kind": "arraypath", "spec": repr(spec), "order_seed": k}))
            shutil.rmtree(real.dir / prefix, ignore_errors=True)


    # ------------------------------------------------------------------ attempts of one evaluation hash
    def _run_attempts(self, real, prefix, attr, history):
        """history: [(args, kwargs, no_cache)]; every attempt goes through the real get_oneshot_command (which
        stages the input), oneshot and the readers on ONE scratch prefix. Returns problems."""
        from redun.executors.command import get_oneshot_command
        from redun.executors.scratch import SCRATCH_OUTPUT, get_job_scratch_file
        from redun.task import hash_args_eval
        from redun.value import get_type_registry
        task = getattr(real.wf, attr)
        problems = []
        for n, (a, kw, no_cache) in enumerate(history):
            h = hash_args_eval(get_type_registry(), task, a, kw)[0]
            job = real.job(h, a, kw)
            loc = real.local_task(task, a, kw)
            cached = os.path.exists(get_job_scratch_file(prefix, job, SCRATCH_OUTPUT)) and not no_cache
            command = get_oneshot_command(prefix, job, task, a, kw, job_options={"cache_scope": "NONE"} if no_cache else {})
            out = real.oneshot(command, {})
            rem = real.collect(prefix, job, out[0] == "ret")
            if cached and loc[0] != "ret":
                self.stat("oracle_attempts", "not compared: cached output of the same evaluation hash, local call raises")
                continue        # outside the statement: the scratch output answers for the evaluation hash
            self.stat("oracle_attempts", "compared")
            if not same_outcome(rem, loc):
                problems.append(f"attempt {n + 1} of {task.fullname} (evaluation hash {h[:8]}): {a!r} {kw!r} after "
                                f"{[(x, y) for x, y, _ in history[:n]]!r} on the same scratch dir: remote {show(rem)} "
                                f"differs from local {show(loc)}")
        return problems

    def _oracle_attempts(self, real):
        r = self.rng
        n = 60 if self.tier == "quick" else 1500
        fixed = [("shrink", [((7,), {"workers": 0}, False), ((7,), {"workers": 3}, False)]),
                 ("render", [((1,), {"tmp_dir": ""}, True), ((1,), {"tmp_dir": "/scratch", "verbose": True}, True)])]
        for k in range(n):
            if k < len(fixed):
                attr, history = fixed[k]
            else:
                attr = r.choice(["shrink", "render"])
                xs = [r.randint(0, 3) for _ in range(r.choice([1, 1, 2]))]
                history = []
                for _ in range(r.choice([2, 3, 4])):
                    x = r.choice(xs)
                    if attr == "shrink":
                        kw = {"workers": r.choice([0, 0, 1, 3, 8])} if r.random() < 0.85 else {}
                        a = (x,)
                        if r.random() < 0.2 and kw:
                            a, kw = (x, kw["workers"]), {}
                    else:
                        kw = {}
                        if r.random() < 0.8:
                            kw["tmp_dir"] = r.choice(["", "", "/tmp", "/scratch"])
                        if r.random() < 0.4:
                            kw["verbose"] = r.random() < 0.5
                        a = (x,)
                    history.append((a, kw, r.random() < 0.3))
            prefix = f"t{k}"
            problems = self._run_attempts(real, prefix, attr, history)
            self.count(("attempts", attr, repr(history)), len(history))
            if problems and len(self.findings) < 40:
                self.findings.append(Finding(f"attempts:{attr}:{history!r}"[:200], problems[0],
                                             {"kind": "attempts", "task": attr, "history": repr(history)}))
            shutil.rmtree(real.dir / prefix, ignore_errors=True)


    # ------------------------------------------------------------------ run histories on one scratch dir
    def _judge(self, real, prefix, path, job, exit_ok, ex=None):
        """job status as the executor path decides it -> True (SUCCEEDED) / False (FAILED)"""
        if path == "exit":
            return exit_ok
        if path == "docker":
            from redun.executors import docker
            with mock.patch.object(docker.subprocess, "check_output", lambda *a, **k: b""):
                [st] = list(docker.iter_job_status(prefix, {"container-1": job}))
            return st["status"] == "SUCCEEDED"
        if path == "aws_override":       # the container exited, but docker inspect failed on the batch host
            if exit_ok:
                return True
            from redun.executors.aws_batch import DOCKER_INSPECT_ERROR
            ex.pending_batch_jobs["fb1"] = job
            can, _reason = ex._can_override_failed({"jobId": "fb1", "attempts": [{"container": {"reason": DOCKER_INSPECT_ERROR + ": x"}}]})
            return can
        raise ValueError(path)

    def _run_history(self, real, prefix, attr, path, steps, n_array=0):
        """steps: [(ctrl contents per job, no_cache, invalidate)]; the same call(s) run once per step against
        ONE scratch prefix. Returns [(known_class, text)] problems."""
        from redun.executors.command import get_oneshot_command
        from redun.executors.scratch import SCRATCH_ERROR, SCRATCH_OUTPUT, get_job_scratch_file
        from redun.task import hash_args_eval
        from redun.value import get_type_registry
        reg = get_type_registry()
        task = getattr(real.wf, attr)
        njobs = max(1, n_array)
        calls = []
        for i in range(njobs):
            ctrl = f"{prefix}_ctrl{i}"
            a = (ctrl, f"{prefix}_out{i}") if attr == "produce" else (ctrl, i)
            calls.append((a, {}))
        jobs = [real.job(hash_args_eval(reg, task, a, kw)[0], a, kw) for a, kw in calls]
        ex = self._array_executor(prefix) if path == "aws_override" else None
        problems = []
        aid = None
        for n, (ctrls, no_cache, invalidate) in enumerate(steps):
            opts = {"cache_scope": "NONE"} if no_cache else {}
            for i, (a, kw) in enumerate(calls):
                (real.dir / a[0]).write_text(ctrls[i % len(ctrls)])
                if invalidate and attr == "produce" and (real.dir / a[1]).exists():
                    (real.dir / a[1]).unlink()
            if n_array:
                if aid is None or self.rng.random() < 0.5:          # a re-submission gets a new array id
                    aid = uuid.UUID(int=self.rng.getrandbits(128)).hex
                    real.write_array(prefix, jobs, aid)
                command = get_oneshot_command(prefix, jobs[0], task, job_options=opts, array_uuid=aid)
            order = list(range(njobs))
            self.rng.shuffle(order)
            for i in order:
                job = jobs[i]
                outf = get_job_scratch_file(prefix, job, SCRATCH_OUTPUT)
                errf = get_job_scratch_file(prefix, job, SCRATCH_ERROR)
                had_output = os.path.exists(outf)
                cached_valid = False
                if had_output and not no_cache:
                    try:
                        with open(outf, "rb") as fh:
                            cached_valid = bool(reg.is_valid_nested(pickle.load(fh)))
                    except Exception:  # noqa
                        pass
                if not n_array:
                    command = get_oneshot_command(prefix, job, task, job.args[0], job.args[1], job_options=opts)
                out = real.oneshot(command, {ENV_VARS[0]: str(i)} if n_array else {})
                ok = self._judge(real, prefix, path, job, out[0] == "ret", ex)
                rem = real.collect(prefix, job, ok)
                loc = real.local_task(task, *job.args)
                if cached_valid:
                    self.stat("oracle_histories", "not compared: valid cached output of the same evaluation hash")
                    continue
                self.stat("oracle_histories", f"compared:{path}")
                known = no_cache and had_output and loc[0] == "exc"     # class of the known defect
                where = f"run {n + 1} of {task.fullname}{job.args[0]!r} ({path} status, {'--no-cache' if no_cache else 'cache consulted'}" \
                        f"{', array element ' + str(i) if n_array else ''}) after {n} earlier run(s) on the same scratch dir"
                if not same_outcome(rem, loc):
                    problems.append((known, f"{where}: remote {show(rem)} differs from local {show(loc)}"))
                elif os.path.exists(outf) and os.path.exists(errf):
                    problems.append((known, f"{where}: both the output and the error file exist afterwards "
                                            f"(local {show(loc)})"))
        return problems

    K_STALE = "stale-output:no-cache:rerun-raises"

    def _oracle_histories(self, real):
        r = self.rng
        n = 60 if self.tier == "quick" else 1500
        fixed = [("stateful", "docker", [(["ok:1"], True, False), (["raise:later"], True, False)], 0),
                 ("produce", "docker", [(["ok:v1"], False, False), (["raise:gone"], False, True)], 0),
                 ("produce", "aws_override", [(["ok:v1"], False, False), (["raise:gone"], False, True)], 2),
                 ("stateful", "exit", [(["ok:1"], False, False), (["raise:a"], False, False), (["raise2:b"], True, False),
                                       (["ok:2"], True, False)], 0)]
        for k in range(n):
            if k < len(fixed):
                attr, path, steps, n_array = fixed[k]
            else:
                attr = r.choice(["stateful", "produce", "produce"])
                n_array = r.choice([0, 0, 2, 3])
                path = r.choice(["exit", "aws_override"] if n_array else ["exit", "docker", "docker", "aws_override"])
                steps = []
                for _ in range(r.choice([2, 3, 4])):
                    ctrls = [r.choice(["ok:1", "ok:2", "ok:v3", "raise:a", "raise:b", "raise2:c"]) for _ in range(max(1, n_array))]
                    steps.append((ctrls, r.random() < 0.35, r.random() < 0.6))
            prefix = f"h{k}"
            problems = self._run_history(real, prefix, attr, path, steps, n_array)
            self.count(("history", attr, path, repr(steps), n_array), len(steps) * max(1, n_array))
            for known, text in problems[:1]:
                key = self.K_STALE if known else f"history:{path}:{attr}:{[(c, nc) for c, nc, _ in steps]!r}"[:200]
                if len(self.findings) < 60:
                    self.findings.append(Finding(key, text, {"kind": "history", "task": attr, "path": path,
                                                             "steps": repr(steps), "array": n_array}))
            shutil.rmtree(real.dir / prefix, ignore_errors=True)


    # ------------------------------------------------------------------ submitted options (aws_batch / k8s / gcp_batch)
    VARIED = ["memory", "vcpus", "queue", "retries", "image"]

    @contextlib.contextmanager
    def _offline_executor(self, kind, prefix):
        """a real executor of the given kind whose cloud submit call is replaced by a recorder; yields
        (executor, captured submit keyword dicts)"""
        from configparser import ConfigParser
        base = {"image": "img", "min_array_size": "2", "job_stale_time": "100000", "job_monitor_interval": "100000",
                "code_package": "False"}
        cap = []
        sched = SimpleNamespace(add_job_tags=lambda *a, **k: None, log=lambda *a, **k: None)
        cp = ConfigParser()
        with contextlib.ExitStack() as st:
            if kind == "aws_batch":
                from redun.executors import aws_batch
                cp.read_dict({"e": dict(base, queue="q", s3_scratch=prefix, aws_region="us-west-2")})

                def fake(batch_job_args, queue, image=None, job_name="", array_size=0, **kw):
                    cap.append(dict(kw, queue=queue, image=image))
                    return {"jobId": f"fb{len(cap)}", "jobName": job_name}
                st.enter_context(mock.patch.object(aws_batch, "batch_submit", fake))
                ex = aws_batch.AWSBatchExecutor("e", config=cp["e"])
            elif kind == "k8s":
                from redun.executors import k8s
                cp.read_dict({"e": dict(base, type="k8s", scratch=prefix)})
                client = mock.MagicMock()
                client.version.return_value = ("1", "27")

                def fake(k8s_client, command, **kw):
                    cap.append(dict(kw))
                    return SimpleNamespace(metadata=SimpleNamespace(name=f"kj{len(cap)}", uid=f"u{len(cap)}"))
                st.enter_context(mock.patch.object(k8s.k8s_utils, "K8SClient", lambda *a, **k: client))
                st.enter_context(mock.patch.object(k8s, "k8s_submit", fake))
                ex = k8s.K8SExecutor("e", config=cp["e"])
            else:
                from redun.executors import gcp_batch
                cp.read_dict({"e": dict(base, type="gcp_batch", gcs_scratch=prefix, project="p", region="r")})

                def fake(**kw):
                    cap.append(dict(kw))
                    return SimpleNamespace(task_groups=[SimpleNamespace(task_count=kw.get("task_count", 1), name=f"tg{len(cap)}")],
                                           uid=f"u{len(cap)}", name=f"n{len(cap)}")
                st.enter_context(mock.patch.object(gcp_batch.gcp_utils, "get_gcp_batch_client", lambda *a, **k: mock.MagicMock()))
                st.enter_context(mock.patch.object(gcp_batch.gcp_utils, "get_gcp_compute_client", lambda *a, **k: mock.MagicMock()))
                st.enter_context(mock.patch.object(gcp_batch.gcp_utils, "get_compute_machine_type",
                                                   lambda *a, **k: SimpleNamespace(memory_mb=1024 * 1024, guest_cpus=256)))
                st.enter_context(mock.patch.object(gcp_batch.gcp_utils, "batch_submit", fake))
                ex = gcp_batch.GCPBatchExecutor("e", config=cp["e"])
            ex._scheduler = sched
            ex.log = lambda *a, **k: None
            try:
                yield ex, cap
            finally:
                ex.arrayer.stop()

    def _run_array_options(self, real, kind, prefix, spec):
        """every job must be submitted (alone or in an array) with its own resolved options"""
        jobs = self._mk_jobs(real, spec)
        problems = []
        with self._offline_executor(kind, prefix) as (ex, cap):
            subs = []
            orig_arr, orig_single = ex._submit_array_job, ex._submit_single_job

            def arr(js):
                n0 = len(cap)
                r_ = orig_arr(js)
                subs.append((list(js), cap[n0:]))
                return r_

            def single(j):
                n0 = len(cap)
                r_ = orig_single(j)
                subs.append(([j], cap[n0:]))
                return r_
            ex._submit_array_job, ex._submit_single_job = arr, single
            for j in jobs:
                ex.arrayer.add_job(j)
            for d in list(ex.arrayer.pending):
                ex.arrayer.submit_pending_jobs(d)
            submitted = [j for js, _ in subs for j in js]
            if sorted(j.eval_hash for j in submitted) != sorted(j.eval_hash for j in jobs):
                problems.append(f"{kind}: not every job was submitted exactly once")
            for js, calls in subs:
                if len(calls) != 1:
                    problems.append(f"{kind}: {len(calls)} submit calls for one submission")
                    continue
                for j in js:
                    for name, want in j.get_options().items():
                        if name in self.VARIED and name in calls[0] and calls[0][name] != want:
                            problems.append(f"{kind}: {j.task.fullname}{j.args[0]!r} with {name}={want!r} was submitted in "
                                            f"{'an array of ' + str(len(js)) if len(js) > 1 else 'a single job'} with "
                                            f"{name}={calls[0][name]!r} (options of the array's first job {js[0].get_options()!r})")
        shutil.rmtree(real.dir / prefix, ignore_errors=True)
        return problems

    def _oracle_array_options(self, real):
        g = Gen(self.rng)
        n = 45 if self.tier == "quick" else 900
        fixed = [("alpha_transform", (1,), {}, {"memory": 4}), ("alpha_transform", (2,), {}, {"memory": 64}),
                 ("alpha_transform", (3,), {}, {"memory": 4}), ("alpha_transform", (4,), {}, {"memory": 64})]
        for k in range(n):
            kind = ["aws_batch", "k8s", "gcp_batch"][k % 3]
            spec = fixed if k < 3 else self._job_mix(real, g)
            if k >= 3 and self.rng.random() < 0.5:
                self.rng.shuffle(spec)
            problems = self._run_array_options(real, kind, f"ao{k}", spec)
            self.stat("oracle_array_options", kind)
            self.count(("array-options", kind, repr(spec)), len(spec))
            if problems and len(self.findings) < 60:
                self.findings.append(Finding(f"array-options:{kind}:{sorted({a for a, _, _, _ in spec})}"[:200], problems[0],
                                             {"kind": "array-options", "executor": kind, "spec": repr(spec)}))

    # ------------------------------------------------------------------ oracle
    def oracle(self):
        real = Real()
        try:
            n0 = len(self.findings)
            corpus = CORPUS / "C32.jsonl"
            if corpus.exists():
                for line in corpus.read_text().splitlines():
                    if line.strip():
                        self._replay_one(real, json.loads(line), record=True)
            import time
            for name, fn in (("jobnames", self._oracle_jobnames), ("single", lambda: self._oracle_single(real)),
                             ("arrays", lambda: self._oracle_arrays(real)),
                             ("array_path", lambda: self._oracle_array_path(real)),
                             ("array_options", lambda: self._oracle_array_options(real)),
                             ("attempts", lambda: self._oracle_attempts(real)),
                             ("histories", lambda: self._oracle_histories(real)),
                             ("subprocess", lambda: self._oracle_subprocess(real)),
                             ("reunite", lambda: self._oracle_reunite(real))):
                t0 = time.time()
                fn()
                self.stat("timing_s", "oracle_" + name, round(time.time() - t0, 1))
            self.ob("oracle", "implementation oracle: remote == local (single, array elements in any order, CLI "
                    "subprocess), own files only, job-name round trip, reunite only same hash, attempt and run "
                    "histories on one scratch dir under exit-status / docker / aws-override judgement "
                    f"(apart from the known finding {self.K_STALE})",
                    not [f for f in self.findings[n0:] if f.key != self.K_STALE],
                    "; ".join(f.what for f in self.findings[n0:] if f.key != self.K_STALE)[:1500])
        finally:
            real.close()

    def _oracle_jobnames(self):
        from redun.executors.aws_batch import get_batch_job_name, get_hash_from_job_name, is_array_job_name
        g = Gen(self.rng)
        n = 0

        def visit(p, h, a):
            nonlocal n
            n += 1
            name = get_batch_job_name(p, h, a)
            got = get_hash_from_job_name(name)
            if (got != h or is_array_job_name(name) != a) and len(self.findings) < 40:
                self.findings.append(Finding(f"jobname:{p!r}:{h!r}:{a}"[:200],
                                             f"job name {name!r} does not give back hash {h!r} / array={a} (got {got!r})",
                                             {"kind": "jobname", "prefix": p, "hash": h, "array": a}))
        # small scope: every prefix over {a,-,_} up to length 4, every hex-ish hash over {0,a,f,d} up to length 3
        for lp in range(5):
            for p in itertools.product("a-_", repeat=lp):
                for lh in range(1, 4):
                    for h in itertools.product("0afd", repeat=lh):
                        for a in (False, True):
                            visit("".join(p), "".join(h), a)
        for _ in range(3000 if self.tier == "quick" else 100000):
            visit(g.prefix_name(), g.hexhash(), self.rng.random() < 0.5)
        self.stat("oracle", "job names", n)
        self.evaluations += n

    def _remote_single(self, real, prefix, job, no_cache):
        command = real.command_single(prefix, job, no_cache)
        out = real.oneshot(command, {})
        return real.collect(prefix, job, out[0] == "ret")

    def _oracle_single(self, real):
        g = Gen(self.rng)
        n = 300 if self.tier == "quick" else 4000
        for k in range(n):
            a, kw = g.argset()
            job = real.job(g.hash_of(a, kw, long=True), a, kw)
            prefix = f"o{k}"
            no_cache = self.rng.random() < 0.3
            loc = real.local(a, kw)
            prior = self.rng.random() < 0.2 and loc[0] == "ret"
            if prior:          # consistent pre-existing output (what an earlier run of this hash left)
                self._stale(real, prefix, job, "out_same", None)
            if self.rng.random() < 0.2:
                self._stale(real, prefix, job, "error", None)
            rem = self._remote_single(real, prefix, job, no_cache)
            self.stat("oracle_single", loc[0] if loc[0] == "ret" else type(loc[1]).__name__)
            self.count(("single", repr((a, kw)), no_cache, prior) if (a or kw) else None)
            if not same_outcome(rem, loc):
                self.findings.append(Finding(f"single:{a!r}:{kw!r}"[:200],
                                             f"single job: remote {show(rem)} differs from local {show(loc)}",
                                             {"kind": "single", "args": repr(a), "kwargs": repr(kw), "no_cache": no_cache,
                                              "prior_output": prior}))
            shutil.rmtree(real.dir / prefix, ignore_errors=True)

    def _array_run(self, real, prefix, argsets, order, var, no_cache, long_hash=True, via=None):
        """run a whole array in the given element order; returns list of problems"""
        g = Gen(self.rng)
        jobs = [real.job(g.hash_of(a, kw, long=long_hash), a, kw) for a, kw in argsets]
        aid = uuid.UUID(int=self.rng.getrandbits(128)).hex
        real.write_array(prefix, jobs, aid)
        command = real.command_array(prefix, jobs, aid, no_cache)
        problems = []
        status = {}
        for i in order:
            before = real.files(prefix)
            if via is None:
                out = real.oneshot(command, {var: str(i)})
                status[i] = out[0] == "ret"
            else:
                status[i] = via(command, {var: str(i)}) == 0
            after = real.files(prefix)
            own = {posixpath.join(prefix, "jobs", jobs[i].eval_hash, "output"),
                   posixpath.join(prefix, "jobs", jobs[i].eval_hash, "error")}
            changed = {p for p in set(before) | set(after) if before.get(p) != after.get(p)}
            if not changed <= own:
                problems.append((i, f"element {i} changed files that are not its own: {sorted(changed - own)}"))
            rem = real.collect(prefix, jobs[i], status[i])
            loc = real.local(*jobs[i].args)
            if not same_outcome(rem, loc):
                problems.append((i, f"element {i}: remote {show(rem)} differs from local {show(loc)}"))
        # at the end every element's files still say the same
        for i in set(order):
            rem = real.collect(prefix, jobs[i], status[i])
            loc = real.local(*jobs[i].args)
            if not same_outcome(rem, loc):
                problems.append((i, f"element {i} after the whole array ran: remote {show(rem)} differs from local {show(loc)}"))
        # eval-hash file pairs index and hash
        eh = (real.dir / prefix / "array_jobs" / aid / "eval_hashes").read_text().splitlines()
        if eh != [j.eval_hash for j in jobs]:
            problems.append((0, "eval_hashes file does not list the jobs' hashes in order"))
        return problems

    def _oracle_arrays(self, real):
        g = Gen(self.rng)
        n = 50 if self.tier == "quick" else 800
        sizes = [1, 2, 3, 4, 5, 7, 8, 12, 16, 24]
        for k in range(n):
            size = sizes[k % len(sizes)] if k < n - 1 else (130 if self.tier == "quick" else 400)   # small first
            argsets, seen = [], set()
            while len(argsets) < size:
                a, kw = g.argset()
                if len(argsets) >= 1 and self.rng.random() < 0.5:
                    a = a + (len(argsets),)                     # make them distinct
                if repr((a, kw)) in seen and size > 3:
                    continue
                seen.add(repr((a, kw)))
                argsets.append((a, kw))
            order = list(range(size))
            self.rng.shuffle(order)
            if self.rng.random() < 0.5:
                order += self.rng.sample(order, min(2, size))   # retries
            var = ENV_VARS[k % 3]
            no_cache = self.rng.random() < 0.3
            prefix = f"a{k}"
            probs = self._array_run(real, prefix, argsets, order, var, no_cache)
            self.stat("oracle_array_size", size)
            self.stat("oracle_array_var", var)
            self.count(("array", repr(argsets), tuple(order), var, no_cache), len(order))
            for i, why in probs[:1]:
                self.findings.append(Finding(f"array:size{size}:elem{i}:{var}"[:200], why,
                                             {"kind": "array", "argsets": repr(argsets), "order": order, "var": var,
                                              "no_cache": no_cache}))
            shutil.rmtree(real.dir / prefix, ignore_errors=True)

    def _oracle_subprocess(self, real):
        """the same through the real CLI entry point in fresh interpreters (exit status = job status)"""
        g = Gen(self.rng)
        n = 3 if self.tier == "quick" else 12
        work = []
        for k in range(n):
            argsets = [g.argset() for _ in range(3)]
            argsets[0] = (("boom", k), {})
            argsets = [(a + (i,), kw) if a else (a, kw) for i, (a, kw) in enumerate(argsets)]
            work.append((f"p{k}", argsets, [2, 0, 1], ENV_VARS[k % 3], k % 2 == 1))
        # single jobs through the CLI (prepared here, run in the same pool as the arrays)
        singles = []
        for k in range(n):
            a, kw = g.argset()
            singles.append((f"q{k}", real.job(g.hash_of(a, kw, long=True), a, kw)))

        def run_single(x):
            prefix, job = x
            command = real.command_single(prefix, job, False)
            rc = real.oneshot_subprocess(command, {})
            return real.collect(prefix, job, rc == 0)
        with ThreadPoolExecutor(max_workers=12) as ex:
            fut_arr = [ex.submit(self._array_run, real, w[0], w[1], w[2], w[3], w[4], True, real.oneshot_subprocess) for w in work]
            fut_single = [ex.submit(run_single, x) for x in singles]
            results = [f_.result() for f_ in fut_arr]
            rems = [f_.result() for f_ in fut_single]
        for w, probs in zip(work, results):
            self.count(("subprocess", repr(w[1])), 3)
            self.stat("oracle", "array elements through CLI subprocess", 3)
            for i, why in probs[:1]:
                self.findings.append(Finding(f"cli-array:elem{i}:{w[3]}", "through the redun CLI: " + why,
                                             {"kind": "array", "argsets": repr(w[1]), "order": w[2], "var": w[3],
                                              "no_cache": w[4], "subprocess": True}))
        for (prefix, job), rem in zip(singles, rems):
            loc = real.local(*job.args)
            self.count(("subprocess-single", repr(job.args)))
            if not same_outcome(rem, loc):
                self.findings.append(Finding(f"cli-single:{job.args!r}"[:200],
                                             f"through the redun CLI: remote {show(rem)} differs from local {show(loc)}",
                                             {"kind": "single", "args": repr(job.args[0]), "kwargs": repr(job.args[1]),
                                              "no_cache": False, "prior_output": False, "subprocess": True}))

    def _oracle_reunite(self, real):
        g = Gen(self.rng)
        n = 300 if self.tier == "quick" else 3000
        hexd = set("0123456789abcdef")
        for k in range(n):
            prefix = f"w{k}"
            name_prefix, listing, created = self._world(real, prefix, g, faithful=True)
            _inflight, got = self._gather_real(real, prefix, name_prefix, listing)
            self.count(("reunite-oracle", repr(listing)) if listing else None)
            if got[0] != "ok":
                self.findings.append(Finding("reunite:raises", "gather_inflight_jobs raised on a protocol-made listing",
                                             {"kind": "reunite", "name_prefix": name_prefix, "listing": listing}))
            else:
                for h, jid in got[1].items():
                    # only keys that can be a job's evaluation hash (40 hex) can ever be looked up
                    if len(h) == 40 and set(h) <= hexd and created.get(jid) != h:
                        self.findings.append(Finding(f"reunite:{jid}", f"evaluation hash {h} would be reunited with remote job "
                                                     f"{jid}, which was created for {created.get(jid)!r}",
                                                     {"kind": "reunite", "name_prefix": name_prefix, "listing": listing,
                                                      "created": created}))
                        break
            shutil.rmtree(real.dir / prefix, ignore_errors=True)
        self.stat("oracle", "reunite worlds", n)

    # ------------------------------------------------------------------ replay
    def _replay_one(self, real, r, record=False):
        bad = None
        if r.get("kind") == "jobname":
            from redun.executors.aws_batch import get_batch_job_name, get_hash_from_job_name, is_array_job_name
            name = get_batch_job_name(r["prefix"], r["hash"], r["array"])
            if get_hash_from_job_name(name) != r["hash"] or is_array_job_name(name) != r["array"]:
                bad = f"job name {name!r} -> {get_hash_from_job_name(name)!r}"
        elif r.get("kind") == "single":
            a, kw = eval(r["args"]), eval(r["kwargs"])
            job = real.job(Gen(self.rng).hash_of(a, kw, long=True), a, kw)
            if r.get("prior_output"):
                self._stale(real, "rp", job, "out_same", None)
            if r.get("subprocess"):
                rc = real.oneshot_subprocess(real.command_single("rp", job, r["no_cache"]), {})
                rem = real.collect("rp", job, rc == 0)
            else:
                rem = self._remote_single(real, "rp", job, r["no_cache"])
            loc = real.local(a, kw)
            if not same_outcome(rem, loc):
                bad = f"remote {show(rem)} differs from local {show(loc)}"
            shutil.rmtree(real.dir / "rp", ignore_errors=True)
        elif r.get("kind") == "array":
            probs = self._array_run(real, "rp", eval(r["argsets"]), r["order"], r["var"], r["no_cache"],
                                    via=real.oneshot_subprocess if r.get("subprocess") else None)
            if probs:
                bad = probs[0][1]
            shutil.rmtree(real.dir / "rp", ignore_errors=True)
        elif r.get("kind") == "array-options":
            probs = self._run_array_options(real, r["executor"], "rp", eval(r["spec"]))
            if probs:
                bad = probs[0]
        elif r.get("kind") == "history":
            probs = self._run_history(real, "rp", r["task"], r["path"], eval(r["steps"]), r.get("array", 0))
            if probs:
                bad = probs[0][1]
            shutil.rmtree(real.dir / "rp", ignore_errors=True)
        elif r.get("kind") == "attempts":
            probs = self._run_attempts(real, "rp", r["task"], eval(r["history"]))
            if probs:
                bad = probs[0]
            shutil.rmtree(real.dir / "rp", ignore_errors=True)
        elif r.get("kind") == "arraypath":
            probs, _g, _j, _s = self._run_array_path(real, "rp", eval(r["spec"]), order_seed=r.get("order_seed", 0))
            if probs:
                bad = probs[0]
            shutil.rmtree(real.dir / "rp", ignore_errors=True)
        elif r.get("kind") == "reunite":
            _inf, got = self._gather_real(real, "rp", r["name_prefix"], r["listing"])
            bad = "gather result: " + repr(got)[:300]     # informational; the world's files are not part of the replay
        if bad and record:
            self.findings.append(Finding("corpus:" + json.dumps(r)[:150], bad, r))
        return bad

    def replay(self, doc):
        r = doc.get("replay") or {}
        if not r:
            print("replay: nothing to replay (no failing input was found); broken obligations:",
                  json.dumps(doc.get("broken_obligations", []))[:3000])
            return 1
        real = Real()
        try:
            bad = self._replay_one(real, r)
        finally:
            real.close()
        print("replay:", bad or "property holds on this input now")
        return 1 if bad else 0
