"""C01 — Scheduler evaluation agrees with the graph-reduction semantics."""
from __future__ import annotations

import json
import random
import re

from harness import jobcheck, jobgen, sched
from harness.lib import GEN, VERIF, Finding, PropertyCheck, TranslateError, run_bool_cases
from harness.progs import ref, vm
from translate import astutil

PINS = VERIF / "translate" / "pins_C01.json"
PINNED = [("redun/scheduler.py", "Scheduler", "evaluate"), ("redun/scheduler.py", "Scheduler", "_evaluate_apply"),
          ("redun/scheduler.py", None, "catch"), ("redun/scheduler.py", None, "catch_all"), ("redun/functools.py", None, "seq"),
          ("redun/promise.py", "Promise", "all"), ("redun/scheduler.py", "Scheduler", "_done_job_main_thread"),
          ("redun/scheduler.py", "Scheduler", "_resolve_job_main_thread")]


def current_pins():
    out = {}
    for rel, cls, name in PINNED:
        mod = astutil.load(rel)
        out[f"{rel}:{cls + '.' if cls else ''}{name}"] = astutil.pin(astutil.find_func(mod, name, cls))
    return out


# ------------------------------------------------------------------ spec / values -> Coq
def errnum(msg):
    m = re.search(r"(\d+)$", str(msg))
    return int(m.group(1)) if m else 999


def cq_spec(spec):
    name, kind, payload, children = spec[:4]
    if kind == "leaf":
        return f"(SLeaf ({int(payload)})%Z)"
    if kind == "raise":
        return f"(SRaise ({errnum(payload)})%Z)"
    kids = "[" + "; ".join(cq_spec(c) for c in children) + "]"
    if kind == "list":
        return f"(SList ({int(payload)})%Z {kids})"
    if kind == "seq":
        return f"(SSeq {kids})"
    if kind == "catch":
        return f"(SCatch {cq_spec(children[0])})"
    if kind == "all" and payload in (0, 2):
        return f"(SAll {kids})"          # no recover task, or one whose error class matches nothing: first error by position
    if kind == "all" and payload == 1:
        return f"(SAllRec {kids})"       # recover_all over every term's value or error
    raise ValueError(kind)


def cq_val(v):
    if isinstance(v, bool):
        raise ValueError(v)
    if isinstance(v, int):
        return f"(VInt ({v})%Z)"
    if isinstance(v, tuple) and len(v) == 2 and v[0] == "recovered":
        return f"(VRec ({errnum(v[1])})%Z)"
    if isinstance(v, (list, tuple)) and len(v) == 2 and v[0] == "recovered_all":
        # rec_value: [-1; [[0; v] | [1; e] ...]]
        encs = []
        for t, x in v[1]:
            encs.append(f"(VList [VInt 0%Z; {cq_val(x)}])" if t == "val" else f"(VList [VInt 1%Z; VInt ({errnum(x)})%Z])")
        return "(VList [VInt (-1)%Z; VList [" + "; ".join(encs) + "]])"
    if isinstance(v, (list, tuple)):
        return "(VList [" + "; ".join(cq_val(x) for x in v) + "])"
    raise ValueError(v)


def cq_outcome(out):
    if "result" in out:
        return f"(Ok {cq_val(out['result'])})"
    if "error" in out and out["error"][0] == "ValueError":
        return f"(Ko ({errnum(out['error'][1])})%Z)"
    return None


def paths(spec, p=()):
    yield spec[:4], p
    for i, c in enumerate(spec[3]):
        yield from paths(c, p + (i,))


def cq_path(p):
    return "[" + "; ".join(f"{i}%nat" for i in p) + "]"


def ops_of_trace(out, spec):
    """Order of starts (job handed to the executor) and finishes (its completion processed)."""
    tr = out["tracer"]
    pmap = {}
    for s4, p in paths(spec):
        pmap.setdefault(s4, p)
    ops, finished = [], set()
    for op, _ in out["trace"]:
        if op[0] != "OPop":
            continue
        job = tr.jobobj[op[2]]
        if job.task.name != "node":
            continue
        fa = tr.first_args.get(op[2])
        key = fa[0][0] if fa and fa[0] else None
        if key is None or key not in pmap:
            continue
        p = pmap[key]
        if op[1] == 0:
            ops.append(f"OStart {cq_path(p)}")
        elif op[1] in (1, 2) and op[2] not in finished:
            finished.add(op[2])
            ops.append(f"OFinish {cq_path(p)}")
    return ops


def norm(v):
    if isinstance(v, (list, tuple)):
        return [norm(x) for x in v]
    return v


KF_REUSE = "scheduler-reuse:run-after-aborted-execution-processes-stale-job-reports"


class Check(PropertyCheck):
    id = "C01"
    module = "Props.C01"
    extra_modules = ["Model.EvalTreeCases"]
    theorems = ["C01_sched_refines_spec_partial", "C01_result_stable", "C01_value_xor_error", "C01_reference_decides",
                "C01_catch_all_positional", "C01_catch_all_recover", "C01_catch_all_nonvacuous", "C01_one_outcome", "C01_schedule_independent",
                "C01_two_failures_two_outcomes", "C01_nonvacuous"]
    assumptions = [
        "task functions are deterministic and terminate (premise of the property)",
        "Coq model covers task calls, failing tasks, parallel containers of calls, seq and catch; lazy operators, partial tasks, expression defaults, cond, catch_all, map_, flat_map, apply_func, fork_thread/join_thread, apply_tags and the thread/process/async executor modes are reached only by the reference-evaluator oracle on the real scheduler",
        "catch's recover call is modelled as instantaneous",
    ]
    rule = ("random programs of the spec language (containers, seq, catch, failing leaves; with and without twins, limits, "
            "context) run on the real Scheduler under seeded completion schedules; the machine is driven by the real order "
            "of starts and finishes; every job outcome is checked against the executable reference semantics proved "
            "equivalent to adm; non-trivial = >= 3 jobs")

    def translate(self):
        want = json.loads(PINS.read_text())
        got = current_pins()
        bad = [k for k in want if got.get(k) != want[k]]
        if bad:
            raise TranslateError(f"shape changed: {bad} (hand-written evaluation model may no longer match); got {got}")
        return []

    def correspond(self):
        n = 90 if self.tier == "quick" else 1500
        terms, descr = [], []
        self.runs = []
        for i in range(n):
            spec = jobgen.gen_spec(self.rng, [], depth=self.rng.randint(1, 4), allow_nocse=False, twins=False,
                                   allow_fail=(i % 3 != 0), allow_all=(i % 2 == 0), all_modes=(0, 1, 2))
            if i % 6 == 5:
                # catch_all over terms that fail at different depths (position order != completion order)
                kids = []
                for j in range(self.rng.randint(2, 4)):
                    k = (f"cf{i}_{j}", "raise", f"boom{j}", (), None) if self.rng.random() < 0.6 else (f"cl{i}_{j}", "leaf", j, (), None)
                    for d in range(self.rng.randint(0, 2)):
                        k = (f"cw{i}_{j}_{d}", "list", 0, (k,), None)
                    kids.append(k)
                spec = (f"ca{i}", "all", self.rng.choice([0, 1, 2]), tuple(kids), None)
            out = sched.run_program(lambda: vm.call(spec), {}, self.rng, complete_prob=self.rng.choice([0.1, 0.4, 0.8]))
            out["spec"] = spec
            self.runs.append(out)
            oc = cq_outcome(out)
            self.stat("outcome", "value" if "result" in out else "error" if "error" in out else "other")
            self.count(repr(spec) if len(out["tracer"].jobobj) >= 3 else None)
            self.sample({"spec": repr(spec)[:200]}, 3)
            if oc is None:
                terms.append("false")
                descr.append(("unexpected outcome", repr(spec), str({k: v for k, v in out.items() if k in ("error", "deadlock")})))
                continue
            ops = "[" + "; ".join(ops_of_trace(out, spec)) + "]"
            terms.append(f"check_run {cq_spec(spec)} {ops} {oc}")
            descr.append(("run", repr(spec), oc))
        ok, failing, diags = run_bool_cases("C01", ["Model.EvalTree", "Model.EvalTreeCases"], "", terms, chunk=30)
        self.ob("correspondence", f"tree machine driven by the real start/finish order ends with the real result, and the "
                f"real result is admissible (admb), on {len(terms)} programs", ok and not failing,
                "\n".join(diags) + "".join(f"\nmismatch: {descr[i]}" for i in failing[:5]))

    def oracle(self):
        """Reference evaluator vs real scheduler on the full spec language (twins, limits, context, scopes)."""
        nb = 0
        n = 80 if self.tier == "quick" else 1500
        runs = [(o["spec"], o, None) for o in getattr(self, "runs", [])]
        for i in range(n):
            limits = {r: self.rng.choice([1, 2, 3]) for r in jobcheck.RES}
            spec = jobgen.gen_spec(self.rng, jobcheck.RES, depth=self.rng.randint(1, 3), limits=limits,
                                   allow_ctx=(i % 2 == 0), allow_all=(i % 3 != 0))
            rc = {"k": 1} if i % 5 == 0 else None
            out = sched.run_program(lambda: vm.call(spec), limits, self.rng, context=rc,
                                    cache=(i % 7 != 0))
            runs.append((spec, out, rc))
        # catch_all is positional: several failing terms with distinct errors, failing at different depths (so the
        # completion order differs from the position order) -- seeded change C01a
        for i in range(30 if self.tier == "quick" else 500):
            kids = []
            for j in range(self.rng.randint(2, 4)):
                if self.rng.random() < 0.6:
                    s = (f"tf{i}_{j}", "raise", f"boom{j}", (), None)
                else:
                    s = (f"tl{i}_{j}", "leaf", j, (), None)
                for d in range(self.rng.randint(0, 2)):
                    s = (f"tw{i}_{j}_{d}", "list", 0, (s,), None)
                kids.append(s)
            spec = (f"ta{i}", "all", self.rng.choice([0, 1, 2]), tuple(kids), None)
            if self.rng.random() < 0.3:
                spec = (f"tc{i}", "catch", 0, (spec,), None)
            out = sched.run_program(lambda: vm.call(spec), {}, self.rng, complete_prob=self.rng.choice([0.1, 0.5, 0.9]))
            runs.append((spec, out, None))
        # one expression demanded twice by the same job, the second demand after the first settled (seeded change C01b)
        for i in range(20 if self.tier == "quick" else 300):
            inner = jobgen.gen_spec(self.rng, [], depth=self.rng.randint(0, 2), allow_nocse=False, twins=False, allow_fail=True)
            spec = (f"ct{i}", "catchthen", 0, (inner,), None)
            for d in range(self.rng.randint(0, 2)):
                spec = (f"cu{i}_{d}", self.rng.choice(["list", "catch"]), 0, (spec,), None)
            out = sched.run_program(lambda: vm.call(spec), {}, self.rng, complete_prob=self.rng.choice([0.1, 0.5, 0.9]))
            runs.append((spec, out, None))
        # seq items that are containers of lazy calls (seeded change C01d: only top-level Expression items evaluated)
        for i in range(12 if self.tier == "quick" else 150):
            kids = tuple(jobgen.gen_spec(self.rng, [], depth=self.rng.randint(0, 1), allow_nocse=False, twins=False,
                                         allow_fail=self.rng.random() < 0.3) for _ in range(self.rng.randint(2, 4)))
            spec = (f"sn{i}", "seqnest", 0, kids, None)
            for d in range(self.rng.randint(0, 2)):
                spec = (f"so{i}_{d}", self.rng.choice(["list", "catch", "seq"]), 0, (spec,), None)
            out = sched.run_program(lambda: vm.call(spec), {}, self.rng, complete_prob=self.rng.choice([0.1, 0.5, 0.9]))
            runs.append((spec, out, None))
        # the real executors (threads and processes, no controlled schedule): same reference result
        runs += self.real_executor_runs()
        nb += self.thread_sessions()
        nb += self.reuse_sessions()
        for spec, out, rc in runs:
            self.evaluations += 1
            try:
                exp = ("val", ref.ref_eval(spec, rc))
            except ref.Raised as r:
                exp = ("err", r.msgs)
            except ref.Ambiguous:
                self.stat("oracle", "ambiguous (several admissible outcomes; decided by admb in the correspondence)")
                continue
            if "result" in out:
                good = exp[0] == "val" and norm(exp[1]) == norm(out["result"])
            elif "error" in out:
                good = exp[0] == "err" and out["error"][0] == "ValueError" and (
                    out["error"][1] in exp[1] or "<one of several>" in exp[1])
            else:
                good = False
            if not good:
                nb += 1
                self.findings.append(Finding(f"result-differs:{spec!r}"[:200],
                                             f"scheduler gave {out.get('result', out.get('error', out.get('deadlock')))!r}, "
                                             f"reference {exp[1]!r}", {"spec": repr(spec), "run_context": rc}))
        self.stat("oracle", "programs", len(runs))
        self.stat("oracle", "violations", nb)
        self.ob("oracle", "implementation oracle ran (Scheduler.run result/error == reference evaluator)", True)

    def thread_sessions(self):
        """fork_thread/join_thread in several scheduler sessions on one database: every join returns its own thread's value"""
        import logging
        import shutil
        from redun import Scheduler
        from redun.config import Config
        from harness.lib import scratch_dir
        from harness.progs import c01_threads as T
        logging.getLogger("redun").setLevel(logging.ERROR)
        tmp = scratch_dir("rv_c01t_")
        nb = 0
        try:
            for h in range(4 if self.tier == "quick" else 60):
                db = tmp / f"t{h}.db"
                plans = [[10], [7, 10]] if h == 0 else [
                    [self.rng.randint(1, 6) for _ in range(self.rng.randint(1, 3))] for _ in range(self.rng.randint(2, 3))]
                for si, xs in enumerate(plans):
                    s = Scheduler(config=Config({"backend": {"db_uri": f"sqlite:///{db}"}}))
                    s.load()
                    s.logger.disabled = True
                    try:
                        got = s.run(T.session(xs))
                    except Exception as e:  # noqa: BLE001
                        got = ("error", type(e).__name__, str(e)[:200])
                    self.evaluations += 1
                    want = [2 * x for x in xs]
                    if got != want:
                        nb += 1
                        self.findings.append(Finding(f"threads:{plans[:si + 1]!r}"[:200],
                                                     f"session {si + 1} of {plans!r} on one database returned {got!r}, "
                                                     f"join_thread(fork_thread(e)) = e gives {want!r}",
                                                     {"thread_sessions": plans[:si + 1]}))
                        break
        finally:
            shutil.rmtree(tmp, ignore_errors=True)
        return nb

    def reuse_sessions(self):
        """One Scheduler object used for several runs: the value of each run is the reduction of ITS expression, also
        after an earlier run on the same object was aborted by a failure while a job was still with its executor."""
        import logging
        import time
        from redun import Scheduler
        from redun.config import Config
        from harness.progs import c01_threads as T
        logging.getLogger("redun").setLevel(logging.ERROR)
        nb = 0
        for delay, pause in ((0.3, 0.6), (0.3, 0.0)) if self.tier == "quick" else ((0.3, 0.6), (0.3, 0.0), (0.1, 0.3), (0.5, 0.2)):
            s = Scheduler(config=Config({"backend": {"db_uri": "sqlite:///:memory:"}}))
            s.load()
            s.logger.disabled = True
            history = []
            try:
                s.run(T.aborted(f"boom{delay}", delay))
                history.append("run 1 returned")
            except Exception as e:  # noqa: BLE001
                history.append(f"run 1 raised {type(e).__name__}")
            time.sleep(pause)
            try:
                got = s.run(T.double(21))
            except Exception as e:  # noqa: BLE001
                got = ("error", type(e).__name__, str(e)[:120])
            self.evaluations += 1
            time.sleep(max(0.0, delay - pause) + 0.1)
            if got != 42:
                nb += 1
                self.findings.append(Finding(KF_REUSE, f"second run on the same Scheduler after an aborted one ({history[0]}; the "
                                             f"sibling job finished {'before' if pause > delay else 'during'} the second run) gave "
                                             f"{got!r} instead of 42", {"reuse": [delay, pause]}))
        return nb

    def real_executor_runs(self):
        import logging
        from redun import Scheduler
        from redun.config import Config
        logging.getLogger("redun").setLevel(logging.ERROR)
        out_runs = []
        for i in range(4 if self.tier == "quick" else 60):
            mode = ("thread", "process")[i % 2]
            limits = {"r0": self.rng.choice([1, 2])}
            spec = jobgen.gen_spec(self.rng, ["r0"], depth=self.rng.randint(1, 3), limits=limits, allow_all=True,
                                   allow_nocse=(i % 4 == 0))
            cfg = {"backend": {"db_uri": "sqlite:///:memory:"}, "limits": {k: str(v) for k, v in limits.items()},
                   "executors.default": {"type": "local", "mode": mode, "max_workers": "3"}}
            s = Scheduler(config=Config(cfg))
            s.load()
            s.logger.disabled = True
            out = {}
            try:
                out["result"] = s.run(vm.call(spec))
            except Exception as e:  # noqa: BLE001
                out["error"] = (type(e).__name__, str(e))
            finally:
                for ex in s.executors.values():
                    try:
                        ex.stop()
                    except Exception:  # noqa: BLE001
                        pass
            self.stat("real_executor", mode)
            out_runs.append((spec, out, None))
        return out_runs

    def replay(self, doc):
        r = doc.get("replay", {})
        if "spec" in r:
            spec = eval(r["spec"])
            for sd in range(10):
                out = sched.run_program(lambda: vm.call(spec), {"r0": 3, "r1": 3}, random.Random(sd), context=r.get("run_context"))
                try:
                    exp = ("val", ref.ref_eval(spec, r.get("run_context")))
                except ref.Raised as e:
                    exp = ("err", e.msgs)
                good = ("result" in out and exp[0] == "val" and norm(exp[1]) == norm(out["result"])) or (
                    "error" in out and exp[0] == "err" and out["error"][1] in exp[1])
                if not good:
                    print("replay: still differs (seed", sd, ")")
                    return 1
            print("replay: agrees with the reference")
            return 0
        print("replay: nothing to replay:", doc.get("broken_obligations"))
        return 1
