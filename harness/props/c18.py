"""C18 — Expression identity matches the call it denotes (redun/expression.py hashes and pickling)."""
from __future__ import annotations

import copy
import importlib
import json
import os
import pickle
import shutil

from harness.lib import (CORPUS, GEN, Finding, PropertyCheck, TranslateError, cq_bytes, run_bool_cases, scratch_dir)
from harness.props.c17 import cq_optsval, cq_ostr, cq_str, vid
from translate import astutil, tr_hash_expr

PINS = json.loads(tr_hash_expr.PINS_FILE.read_text())

K_SCHED_OPTS = "SchedulerExpression._calc_hash:options-not-hashed"
K_SCHED_EXPORT = "SchedulerExpression._calc_hash:export_options-not-hashed"
K_MERGE = "Scheduler._pending_expr:scheduler-expressions-with-different-options-merged"
KNOWN_KEYS = {K_SCHED_OPTS, K_SCHED_EXPORT, K_MERGE}

KINDS = {"task": "KTask", "scheduler": "KScheduler", "simple": "KSimple", "value": "KValue"}
ATOMS = [0, 1, 2, -7, "a", "b", "", "é", None, True, 1.5, [1, 2], {"k": 1}, ("t", 1), 10 ** 20]
OPT_KEYS = ["memory", "vcpus", "executor", "cache_scope", "check_valid", "limits", "x"]
EXPORT_KEYS = ["prov", "cache_scope", "executor", "memory", "é"]
NAMES = ["ns.f", "f", "redun.cond", "a.b.c", "add", "getitem", "redun.seq"]
# every lazy operator of redun.expression (checked against the live registry by the oracle)
OPS = ["add", "radd", "sub", "rsub", "mul", "rmul", "div", "rdiv", "and", "rand", "or", "ror", "eq", "ne", "lt", "le", "gt",
       "ge", "getitem", "getattr", "call"]


# ------------------------------------------------------------------ specs <-> real expressions
def build(spec):
    """spec: {"kind", "name", "args": [...], "kwargs": {...}, "options": {...}|None, "export": [...]|None, "length",
    "value"}; an argument {"__expr__": spec} is a nested expression."""
    from redun.expression import SchedulerExpression, SimpleExpression, TaskExpression, ValueExpression

    def val(v):
        if isinstance(v, dict) and "__expr__" in v:
            return build(v["__expr__"])
        if isinstance(v, dict) and "__tuple__" in v:
            return tuple(val(x) for x in v["__tuple__"])
        return copy.deepcopy(v)
    k = spec["kind"]
    if k == "value":
        return ValueExpression(val(spec["value"]))
    args = tuple(val(a) for a in spec["args"])
    kwargs = {kk: val(v) for kk, v in spec["kwargs"].items()}
    if k == "simple":
        return SimpleExpression(spec["name"], args, kwargs)
    cls = TaskExpression if k == "task" else SchedulerExpression
    return cls(spec["name"], args, kwargs, task_options=copy.deepcopy(spec.get("options")),
               export_options=None if spec.get("export") is None else set(spec["export"]), length=spec.get("length"))


class Gen:
    def __init__(self, rng):
        self.rng = rng

    def atom(self):
        v = self.rng.choice(ATOMS)
        return {"__tuple__": list(v)} if isinstance(v, tuple) else copy.deepcopy(v)

    def arg(self, depth):
        if depth > 0 and self.rng.random() < 0.25:
            return {"__expr__": self.spec(depth - 1)}
        return self.atom()

    def options(self):
        r = self.rng
        d = {}
        for _ in range(r.choice([0, 0, 1, 1, 2, 3])):
            d[r.choice(OPT_KEYS)] = r.choice([1, 2, "NONE", "CSE", "4Gi", [1], {"r": 1}, None])
        return d

    def spec(self, depth=1, kind=None):
        r = self.rng
        k = kind or r.choice(["task", "task", "scheduler", "scheduler", "simple", "value"])
        if k == "value":
            return {"kind": k, "value": self.atom()}
        s = {"kind": k, "name": r.choice(OPS) if k == "simple" and r.random() < 0.8 else r.choice(NAMES), "args": [self.arg(depth) for _ in range(r.randint(0, 3))],
             "kwargs": {kk: self.arg(depth) for kk in r.sample(["p", "q", "a", "é"], r.randint(0, 2))}}
        if k != "simple":
            s["options"] = r.choice([None, {}, self.options(), self.options()])
            s["export"] = r.choice([None, [], r.sample(EXPORT_KEYS, r.randint(1, 3))])
            s["length"] = r.choice([None, None, 0, 2])
        return s


def mutations(spec, rng):
    """single-component changes that make the expression denote a different call -> (kind, mutated spec)"""
    out = []

    def mut(kind, fn):
        s = copy.deepcopy(spec)
        if fn(s) is not False:
            out.append((kind, s))
    if spec["kind"] == "value":
        mut("value", lambda s: s.__setitem__("value", "other-value" if s["value"] != "other-value" else "x"))
        return out
    mut("name", lambda s: s.__setitem__("name", s["name"] + "2"))

    def m_kind(s):
        order = ["task", "scheduler", "simple"]
        s["kind"] = order[(order.index(s["kind"]) + 1) % 3]
        if s["kind"] == "simple":
            for k in ("options", "export", "length"):
                s.pop(k, None)
        else:
            s.setdefault("options", None)
            s.setdefault("export", None)
            s.setdefault("length", None)
    mut("kind", m_kind)
    mut("arg-added", lambda s: s["args"].append("extra-arg"))

    def m_arg(s):
        if not s["args"]:
            return False
        s["args"][0] = "changed-arg" if s["args"][0] != "changed-arg" else "changed-arg2"
    mut("arg-changed", m_arg)
    mut("kwarg-added", lambda s: s["kwargs"].__setitem__("zz", 1))

    def m_kw(s):
        if not s["kwargs"]:
            return False
        k = sorted(s["kwargs"])[0]
        s["kwargs"][k] = "changed-kw" if s["kwargs"][k] != "changed-kw" else "changed-kw2"
    mut("kwarg-changed", m_kw)
    if spec["kind"] != "simple":
        def m_opt_add(s):
            s["options"] = dict(s["options"] or {})
            s["options"]["zz_opt"] = 7
        def m_opt_change(s):
            if not s["options"]:
                return False
            k = sorted(s["options"])[0]
            s["options"][k] = "changed-opt" if s["options"][k] != "changed-opt" else "changed-opt2"
        def m_exp_add(s):
            s["export"] = sorted(set(s["export"] or []) | {"zz_export"})
        def m_exp_drop(s):
            if not s["export"]:
                return False
            s["export"] = s["export"][1:]
        mut("options-added", m_opt_add)
        mut("options-changed", m_opt_change)
        mut("export-added", m_exp_add)
        mut("export-dropped", m_exp_drop)
    return out


# ------------------------------------------------------------------ Coq literals
class HashRecorder:
    def __init__(self):
        self.h = {}
        self.hashing = importlib.import_module("redun.hashing")
        self.orig = self.hashing.Hash
        rec = self

        class RecHash(self.orig):
            def __init__(self, *a, **k):
                super().__init__(*a, **k)
                self._buf = b""

            def update(self, data):
                self._buf += bytes(data)
                super().update(data)

            def hexdigest(self):
                d = super().hexdigest()
                rec.h[self._buf] = d
                return d
        self.RecHash = RecHash

    def __enter__(self):
        self.hashing.Hash = self.RecHash
        return self

    def __exit__(self, *a):
        self.hashing.Hash = self.orig


def xid(v) -> bytes:
    """opaque identifier of an argument (value := bytes in the Coq cases)"""
    from redun.expression import Expression
    if isinstance(v, Expression):
        return (type(v).__name__ + ":" + v.get_hash()).encode()
    return vid(v)


def classify_ups(e):
    u = e.__dict__.get("_upstreams")
    if "args" in e.__dict__ and isinstance(u, list) and len(u) == 2 and u[0] is e.args and u[1] is e.kwargs:
        return "UArgs"
    if u == []:
        return "UEmpty"
    return "(UOther 9)"


def cq_expr(e, values, hash_field="real"):
    """Coq literal of a real expression object (value := bytes = repr of the Python value)."""
    from redun.expression import SchedulerExpression, SimpleExpression, TaskExpression, ValueExpression
    from redun.value import get_type_registry
    reg = get_type_registry()

    def use(v):
        values[xid(v)] = reg.get_hash(v)
        return cq_bytes(xid(v))
    if isinstance(e, ValueExpression):
        kind, name, args, kwargs, opts, export, value, length = "KValue", "", (), {}, {}, set(), f"(Some {use(e.value)})", None
        call_hash = None
    else:
        kind = ("KScheduler" if isinstance(e, SchedulerExpression) else "KTask" if isinstance(e, TaskExpression)
                else "KSimple")
        name = e.func_name if isinstance(e, SimpleExpression) else e.task_name
        args, kwargs, value = e.args, e.kwargs, "None"
        opts = e.__dict__.get("_options", {})
        export = e.__dict__.get("_export_options", set())
        length = e.__dict__.get("_length")
        call_hash = e.__dict__.get("call_hash")
    a = "[" + "; ".join(use(v) for v in args) + "]" if args else "(@nil bytes)"
    kw = "[" + "; ".join(f"({cq_str(k)}, {use(v)})" for k, v in kwargs.items()) + "]" if kwargs else "(@nil (bytes * bytes))"
    ex = "[" + "; ".join(cq_str(x) for x in export) + "]" if export else "(@nil bytes)"
    ln = "None" if length is None else f"(Some {int(length)}%nat)"
    h = e.__dict__.get("_hash")
    return (f"(@Build_expr bytes {kind} {cq_str(name)} {a} {kw} {cq_optsval(opts)} {ex} {value} {ln} "
            f"{cq_ostr(h)} {cq_ostr(call_hash)} {classify_ups(e)})")


def tables(rec_h, values, dicts):
    from redun.utils import pickle_dumps
    ht = [(k, v) for k, v in rec_h.items() if not k.startswith((b"l5:Valuee", b"l9:Value.sete"))]
    return ("let Ht := tbl_fun [" + "; ".join(f"({cq_bytes(k)}, {cq_str(v)})" for k, v in ht) + "] in "
            "let vh := tbl_fun " + ("[" + "; ".join(f"({cq_bytes(k)}, {cq_str(v)})" for k, v in values.items()) + "]"
                                     if values else "(@nil (bytes * bytes))") + " in "
            "let pk := tbl_ohash [" + "; ".join(f"({cq_optsval(d)}, {cq_bytes(pickle_dumps(d))})" for d in dicts) + "] in ")


# ------------------------------------------------------------------ workflows under the real Scheduler
_WF = {}


def wf_tasks():
    """A fixed family of tasks interpreting a JSON workflow spec (defined once per process)."""
    if "leaf" in _WF:
        return _WF
    from redun import task
    from redun.scheduler import cond

    def make(k):
        t = _WF[k["task"]]
        if k.get("export"):
            t = t.export_options(**k["export"])
        if k.get("options"):
            t = t.options(**k["options"])
        e = t(k if k["task"].startswith("node") else k.get("x", 1))
        if k.get("cond"):
            c = cond.options(**k["cond"]) if isinstance(k["cond"], dict) and k["cond"] else cond
            e = c(True, e, 0)
        return e

    @task(namespace="c18_wf", cache=False)
    def leaf(x):
        return x

    @task(namespace="c18_wf", cache=False, export_options={"memory": 4})
    def leaf_exp(x):
        return x

    @task(namespace="c18_wf", cache=False)
    def node(spec):
        return [make(k) for k in spec["kids"]]

    @task(namespace="c18_wf", cache=False, export_options={"vcpus": 2})
    def node_exp(spec):
        return [make(k) for k in spec["kids"]]
    _WF.update(leaf=leaf, leaf_exp=leaf_exp, node=node, node_exp=node_exp, make=make)
    return _WF


class ExprRecorder:
    """Observes (never alters) every TaskExpression / SchedulerExpression at construction: the object and
    copies of its option dict and export set as constructed."""

    def __init__(self):
        self.mod = importlib.import_module("redun.expression")
        self.orig = self.mod.TaskExpression.__init__
        self.seen = []
        rec = self

        def init(self_, *a, **k):
            rec.orig(self_, *a, **k)
            rec.seen.append((self_, copy.deepcopy(self_.__dict__.get("_options")),
                             set(self_.__dict__.get("_export_options", ()))))
        self.init = init

    def __enter__(self):
        self.mod.TaskExpression.__init__ = self.init
        return self

    def __exit__(self, *a):
        self.mod.TaskExpression.__init__ = self.orig


def gen_workflow(rng, depth=2):
    def kid(d):
        kind = rng.choice(["leaf", "leaf", "leaf_exp", "node", "node_exp"]) if d > 0 else rng.choice(["leaf", "leaf_exp"])
        k = {"task": kind, "x": rng.randint(0, 3)}
        if rng.random() < 0.5:
            k["export"] = {kk: rng.randint(1, 3) for kk in rng.sample(["memory", "vcpus", "x_a", "x_b"], rng.randint(1, 2))}
        if rng.random() < 0.3:
            k["options"] = {rng.choice(["x_c", "memory", "x_a"]): rng.randint(1, 3)}
        if rng.random() < 0.2:
            k["cond"] = rng.choice([True, {"x_d": 1}])
        if kind.startswith("node"):
            k["kids"] = [kid(d - 1) for _ in range(rng.randint(1, 3))]
        return k
    return {"task": "node", "kids": [kid(depth) for _ in range(rng.randint(1, 3))]}


def run_workflow(spec):
    """Run the workflow under a real Scheduler; -> list of violations (strings)."""
    from redun import Scheduler
    from redun.config import Config
    from redun.utils import pickle_dumps
    wf = wf_tasks()
    task_sets = {n: set(t._export_options) for n, t in wf.items() if n != "make"}
    d = scratch_dir("rv_c18_")
    cwd = os.getcwd()
    try:
        os.chdir(d)
        with ExprRecorder() as rec:
            sched = Scheduler(config=Config({"backend": {"db_uri": "sqlite:///:memory:"}}))
            sched.load()
            sched.run(wf["make"](spec))
    finally:
        os.chdir(cwd)
        shutil.rmtree(d, ignore_errors=True)
    bad = []
    for e, opts0, exp0 in rec.seen:
        name = f"{type(e).__name__} {e.task_name}"
        opts, exp = e.__dict__.get("_options"), e.__dict__.get("_export_options")
        if exp != exp0:
            bad.append(f"{name}: _export_options was {sorted(exp0)} when constructed and is {sorted(exp)} after the run")
        if opts != opts0:
            bad.append(f"{name}: _options was {opts0} when constructed and is {opts} after the run")
        cached = e.__dict__.get("_hash")
        if cached is not None:
            fresh = type(e)(e.task_name, e.args, e.kwargs, task_options=copy.deepcopy(opts), export_options=set(exp),
                            length=e.__dict__.get("_length")).get_hash()
            if fresh != cached:
                bad.append(f"{name}: cached hash {cached[:8]} is not the hash {fresh[:8]} of an equal, freshly built "
                           f"expression")
            try:
                rt = pickle.loads(pickle_dumps(e)).get_hash()
            except Exception as ex:  # noqa: a returned value the registry cannot serialise is not this property
                rt = cached
            if rt != cached:
                bad.append(f"{name}: hash {cached[:8]} becomes {rt[:8]} after a pickle round trip")
    for n, s0 in task_sets.items():
        if wf[n]._export_options != s0:
            bad.append(f"Task c18_wf.{n}: _export_options was {sorted(s0)} before the run and is "
                       f"{sorted(wf[n]._export_options)} after it")
            wf[n]._export_options.clear()
            wf[n]._export_options.update(s0)      # keep the harness's own task objects usable for the next case
    return bad, len(rec.seen)


# ------------------------------------------------------------------ lazy operators
OPERAND_X = [{"kind": "task", "name": "c18_wf.src", "args": ["b"], "kwargs": {}, "options": None, "export": None, "length": None},
             {"kind": "value", "value": 3},
             {"kind": "simple", "name": "getitem", "args": [{"__expr__": {"kind": "value", "value": [[1], 2]}}, 0], "kwargs": {}}]
OPERAND_V = ["a", [2], 5, 0, True, "", {"__tuple__": [1]}]
SYNTAX = {"add": lambda x, v: x + v, "radd": lambda x, v: v + x, "sub": lambda x, v: x - v, "rsub": lambda x, v: v - x,
          "mul": lambda x, v: x * v, "rmul": lambda x, v: v * x, "div": lambda x, v: x / v, "rdiv": lambda x, v: v / x,
          "and": lambda x, v: x & v, "rand": lambda x, v: v & x, "or": lambda x, v: x | v, "ror": lambda x, v: v | x,
          "eq": lambda x, v: x == v, "ne": lambda x, v: x != v, "lt": lambda x, v: x < v, "le": lambda x, v: x <= v,
          "gt": lambda x, v: x > v, "ge": lambda x, v: x >= v, "getitem": lambda x, v: x[v]}


def call_key(e):
    """the call an expression denotes, computed from the Python object alone (the model's same_call):
    class, task/operator name, argument hashes, keyword argument hashes, options, exported options"""
    from redun.expression import ValueExpression
    from redun.value import get_type_registry
    reg = get_type_registry()
    if isinstance(e, ValueExpression):
        return (type(e).__name__, reg.get_hash(e.value))
    d = e.__dict__
    return (type(e).__name__, d.get("func_name", d.get("task_name")), tuple(reg.get_hash(a) for a in e.args),
            tuple(sorted((k, reg.get_hash(v)) for k, v in e.kwargs.items())),
            repr(sorted((d.get("_options") or {}).items(), key=repr)), tuple(sorted(d.get("_export_options") or ())))


# operands on which the operator families are not commutative, and names evaluated together under one job
MERGE_CASES = [("b", "a", ["add", "radd"]), ("b", "a", ["radd", "add"]), ([1], [2], ["add", "radd"]),
               (3, 5, ["or", "ror"]), (3, 5, ["ror", "or"]), (3, 5, ["and", "rand"]), (0, 5, ["rand", "and"]),
               (8, 2, ["sub", "rsub"]), (8, 2, ["rdiv", "div"]), (8, 2, ["lt", "gt", "le", "ge", "eq", "ne"]),
               ("ab", 2, ["mul", "rmul", "add"] if False else ["mul", "rmul"]), ([1, 2], 1, ["getitem", "eq"]),
               (3, 5, ["add", "radd", "mul", "rmul", "and", "rand", "or", "ror", "sub", "rsub"])]


def run_operator_merge(xv, v, names):
    """One job returns [op(src(xv), v) for op in names] built on ONE shared operand tuple; every element must be
    what the operator's own registered function gives. -> (result, expected)"""
    from redun import Scheduler, task
    from redun.config import Config
    from redun.expression import SimpleExpression, get_lazy_operation
    if "opsrc" not in _WF:
        @task(namespace="c18_wf", name="opsrc", cache=False)
        def opsrc(v):
            return v

        @task(namespace="c18_wf", name="opmain", cache=False)
        def opmain(xv, v, names):
            x = opsrc(xv)
            return [SimpleExpression(n, (x, v)) for n in names]
        _WF.update(opsrc=opsrc, opmain=opmain)
    expected = [get_lazy_operation(n)(xv, v) for n in names]
    d = scratch_dir("rv_c18_")
    cwd = os.getcwd()
    try:
        os.chdir(d)
        sched = Scheduler(config=Config({"backend": {"db_uri": "sqlite:///:memory:"}}))
        sched.load()
        res = sched.run(_WF["opmain"](xv, v, names))
    finally:
        os.chdir(cwd)
        shutil.rmtree(d, ignore_errors=True)
    return res, expected


class Check(PropertyCheck):
    id = "C18"
    module = "Props.C18"
    extra_modules = ["Base.Lit"]
    theorems = ["C18_same_hash_same_call_fixed", "C18_same_hash_same_call_shipped_partial", "C18_same_positional_arguments",
                "C18_merge_only_same_call_fixed", "C18_scheduler_options_invisible_shipped", "C18_pickle_roundtrip",
                "C18_scheduler_options_refuted", "C18_simple_name_map_collides", "C18_simple_name_map_refuted",
                "C18_nonvacuous"]
    allowed_axioms = []
    section_premises = [
        "H_inj: the truncated SHA-512 behind redun.hashing.Hash.hexdigest has no collision on the pre-images that occur",
        "pickle_inj: pickle_dumps(options dict) determines the dict",
        "vhash (TypeRegistry.get_hash of an argument / value) is an arbitrary function; 'same arguments' is on argument "
        "hashes, and on the arguments when vhash is injective (explicit premise of C18_same_positional_arguments)",
        "args_rt/kwargs_rt/value_rt: registry.deserialize(registry.serialize(x)) = x (pickling theorem only)",
    ]
    assumptions = [
        "bencode is injective (C14); sorted() on str is byte order on UTF-8",
        "an expression's fields are not mutated after its hash has been cached in _hash (cache_ok)",
    ]
    rule = ("generated TaskExpression / SchedulerExpression / SimpleExpression / ValueExpression objects (direct "
            "constructors, nested expression arguments, option dicts, export sets, lengths) and their pickle round "
            "trips with bookkeeping set; a case is non-trivial unless it is a bare value expression; distinct by spec")

    def translate(self):
        try:
            text, _, self.ve, self.nm = tr_hash_expr.translate(pins=PINS)
        except astutil.TranslateError as e:
            self.ve = self.nm = None
            raise TranslateError(str(e))
        GEN.mkdir(exist_ok=True)
        p = GEN / "C18Gen.v"
        p.write_text(text)
        return [p]

    # ------------------------------------------------------------------
    def correspond(self):
        from redun.utils import pickle_dumps
        ve = getattr(self, "ve", None)
        if ve is None:
            # the translator failed closed: compare with the variant the code behaves like
            from redun.scheduler import cond
            ve = "AsShipped" if cond.options(cache_scope="NONE")(True, 1, 2).get_hash() == cond(True, 1, 2).get_hash() \
                else "Fixed"
        nm = getattr(self, "nm", None) or []
        nm_coq = "[" + "; ".join(f"({cq_str(a)}, {cq_str(c)})" for a, c in nm) + "]" if nm else "(@nil (bytes * bytes))"
        if getattr(self, "nm", None) is not None:
            self.ob("tie", "SimpleExpression._calc_hash hashes the operator name verbatim (the theorems are about the empty "
                    f"name map; extracted map: {nm})", not nm,
                    "a replaced operator name collides with the name it is mapped to: C18_simple_name_map_collides")
        g = Gen(self.rng)
        n = 360 if self.tier == "quick" else 8000
        terms, descr = [], []
        for i in range(n):
            s = g.spec()
            try:
                e = build(s)
                values = {}
                with HashRecorder() as rec:
                    h = e._calc_hash()
                lit0 = cq_expr(e, values)
                checks = [f"bytes_eq (@expr_calc Ht bytes vh pk VE NM {lit0}) {cq_str(h)}"]
                dicts = [e.__dict__.get("_options", {})]
                if i % 2 == 0:
                    # pickle round trip with per-run bookkeeping set
                    e.get_hash()
                    if "call_hash" in e.__dict__:
                        e.call_hash = "call-hash-of-a-previous-run"
                    e._upstreams = [e]
                    before = cq_expr(e, values)
                    e2 = pickle.loads(pickle_dumps(e))
                    after = cq_expr(e2, values)
                    with HashRecorder() as rec2:
                        h2 = e2.get_hash()
                    rec.h.update(rec2.h)
                    dicts.append(e2.__dict__.get("_options", {}))
                    checks.append(f"opt_expr_eqb (rt_bytes (fun _ => []) {before}) {after}")
                    checks.append(f"bytes_eq {cq_str(h2)} {cq_str(h)}")
                    self.stat("roundtrip", type(e).__name__)
            except Exception as ex:  # noqa
                self.stat("correspondence_skipped", type(ex).__name__)
                continue
            terms.append("(" + tables(rec.h, values, dicts) + " && ".join(checks) + ")")
            descr.append(json.dumps(s, sort_keys=True))
            self.stat("kind", s["kind"])
            self.count(descr[-1] if s["kind"] != "value" else None)
            self.sample({"spec": s, "hash": h}, 3)
        ok, failing, diags = run_bool_cases("C18", ["Base.Decimal", "Base.Lit", "Model.Bencode", "Model.TaskHash",
                                                    "Model.ExprHash"], f"Definition VE := {ve}.\nDefinition NM : list (bytes * bytes) := {nm_coq}.\n", terms, chunk=60)
        self.ob("correspondence", f"model (SchedulerExpression layout {ve}) == redun expression hashes and pickle round "
                f"trips on {len(terms)} generated expressions", ok and not failing and len(terms) > n // 2,
                "\n".join(diags) + "".join(f"\nmismatch: {descr[i]}" for i in failing[:6]))

    # ------------------------------------------------------------------
    def add(self, key, what, replay):
        self.findings.append(Finding(key[:300], what, replay))

    def check_pair(self, kind, a, b):
        """two specs that denote different calls must hash differently -> None | (key, what)"""
        try:
            ha, hb = build(a).get_hash(), build(b).get_hash()
        except Exception as ex:  # noqa
            self.stat("oracle_skipped", type(ex).__name__)
            return None
        if ha != hb:
            return None
        if a["kind"] == "scheduler" and b["kind"] == "scheduler" and kind.startswith("options"):
            key = K_SCHED_OPTS
        elif a["kind"] == "scheduler" and b["kind"] == "scheduler" and kind.startswith("export"):
            key = K_SCHED_EXPORT
        else:
            key = f"same-hash:{kind}:" + json.dumps(a, sort_keys=True)
        return key, f"two {a['kind']} expressions that differ in `{kind}` have the same hash {ha[:8]}"

    def check_roundtrip(self, s):
        from redun.hashing import hash_arguments
        from redun.utils import pickle_dumps
        from redun.value import get_type_registry
        reg = get_type_registry()
        try:
            e = build(s)
            h = e.get_hash()
            if "call_hash" in e.__dict__:
                e.call_hash = "x"
            e._upstreams = [e]
            e2 = pickle.loads(pickle_dumps(e))
        except Exception as ex:  # noqa
            self.stat("oracle_skipped", type(ex).__name__)
            return None
        why = []
        if e2.__dict__.get("_hash") is not None:
            why.append("_hash not cleared")
        if e2.__dict__.get("call_hash") is not None:
            why.append("call_hash not cleared")
        if classify_ups(e2) not in ("UArgs", "UEmpty"):
            why.append("_upstreams not reset")
        if type(e2) is not type(e):
            why.append("class changed")
        if e2.get_hash() != h:
            why.append("hash changed")
        if s["kind"] != "value":
            if hash_arguments(reg, e2.args, e2.kwargs) != hash_arguments(reg, e.args, e.kwargs) \
                    or len(e2.args) != len(e.args) or list(e2.kwargs) != list(e.kwargs):
                why.append("arguments changed")
            if s["kind"] != "simple" and (e2._options != e._options or e2._export_options != e._export_options):
                why.append("options changed")
        elif reg.get_hash(e2.value) != reg.get_hash(e.value):
            why.append("value changed")
        return "; ".join(why) or None

    def merge_witness(self):
        """Two scheduler expressions of one job that differ only in their options: does the second one get its own
        evaluation? (real Scheduler, temp dir)"""
        from redun import Scheduler, task
        from redun.config import Config
        from redun.promise import Promise
        from redun.task import scheduler_task
        seen = []

        @scheduler_task(namespace="c18_probe")
        def probe(scheduler, parent_job, sexpr, x):
            seen.append(sexpr._options.get("tag"))
            return Promise(lambda resolve, reject: resolve(sexpr._options.get("tag")))

        @task(namespace="c18_probe", cache=False)
        def main():
            return [probe.options(tag="a")(1), probe.options(tag="b")(1)]
        d = scratch_dir("rv_c18_")
        cwd = os.getcwd()
        try:
            os.chdir(d)
            sched = Scheduler(config=Config({"backend": {"db_uri": "sqlite:///:memory:"}}))
            sched.load()
            res = sched.run(main())
        finally:
            os.chdir(cwd)
            shutil.rmtree(d, ignore_errors=True)
        return res, seen

    def oracle(self):
        g = Gen(self.rng)
        before = len(self.findings)
        n = 0
        corpus = CORPUS / "C18.jsonl"
        if corpus.exists():
            for line in corpus.read_text().splitlines():
                if line.strip():
                    d = json.loads(line)
                    n += 1
                    r = self.check_pair(d["mutation"], d["a"], d["b"])
                    if r:
                        self.add(r[0], r[1], {"kind": "pair", "mutation": d["mutation"], "a": d["a"], "b": d["b"]})
        # 1. the witness of C18_scheduler_options_refuted on the real code
        from redun.scheduler import cond
        e1 = cond.options(cache_scope="NONE")(True, 1, 2)
        e2 = cond(True, 1, 2)
        rep = e1.get_hash() == e2.get_hash() and e1._options != e2._options
        ve = getattr(self, "ve", None)
        if ve is not None:
            self.ob("oracle", f"witness of C18_scheduler_options_refuted {'reproduces' if rep else 'does not reproduce'} on "
                    f"the code; translator says SchedulerExpression._calc_hash is {ve}", rep == (ve == "AsShipped"))
        n += 1
        try:
            res, seen = self.merge_witness()
            self.stat("merge_witness", json.dumps(res))
            if res != ["a", "b"]:
                self.add(K_MERGE, f"[probe.options(tag='a')(1), probe.options(tag='b')(1)] from one job evaluates to {res} "
                         f"(the scheduler task ran for tags {seen}): the second expression was merged with the first",
                         {"kind": "merge"})
        except Exception as ex:  # noqa
            self.ob("oracle", "merge witness ran under the real Scheduler", False, repr(ex))
        # 2. small scope: every kind x every mutation over fixed shapes
        cases = []
        shapes = [{"args": [], "kwargs": {}}, {"args": [1], "kwargs": {}}, {"args": [1, "a"], "kwargs": {"p": 2}},
                  {"args": [{"__expr__": {"kind": "task", "name": "g", "args": [1], "kwargs": {}, "options": None,
                                          "export": None, "length": None}}], "kwargs": {"q": None}}]
        optss = [None, {}, {"memory": 1}, {"cache_scope": "NONE", "x": [1]}]
        exps = [None, [], ["prov"], ["cache_scope", "prov"]]
        for k in ("task", "scheduler", "simple"):
            for sh in shapes:
                for o in (optss if k != "simple" else [None]):
                    for x in (exps if k != "simple" else [None]):
                        s = {"kind": k, "name": "ns.f", **copy.deepcopy(sh)}
                        if k != "simple":
                            s.update(options=copy.deepcopy(o), export=copy.deepcopy(x), length=None)
                        for kind, m in mutations(s, self.rng):
                            cases.append((kind, s, m))
        for v in ATOMS[:6]:
            s = {"kind": "value", "value": v}
            for kind, m in mutations(s, self.rng):
                cases.append((kind, s, m))
        ss = len(cases)
        specs = []
        for _ in range(400 if self.tier == "quick" else 8000):
            s = g.spec()
            specs.append(s)
            for kind, m in mutations(s, self.rng):
                cases.append((kind, s, m))
        for kind, a, bb in cases:
            n += 1
            self.stat("oracle_mutation", kind)
            r = self.check_pair(kind, a, bb)
            if r:
                self.add(r[0], r[1], {"kind": "pair", "mutation": kind, "a": a, "b": bb})
        # 3. pickle round trips
        for s in specs:
            n += 1
            why = self.check_roundtrip(s)
            if why:
                self.add("roundtrip:" + json.dumps(s, sort_keys=True), "pickle round trip: " + why, {"kind": "roundtrip", "spec": s})
        # 3b. every lazy operator (incl. all reflected ones, comparisons, getitem/getattr/call) over SHARED operand
        #     tuples, so that only the operator name differs: equal hash => same call (computed from the objects)
        from redun.expression import _lazy_operation_registry
        live = sorted(_lazy_operation_registry)
        self.ob("oracle", f"the operator list of the generator is the live registry of redun.expression ({len(live)} operators)",
                live == sorted(OPS), f"registry: {live}")
        for xs in OPERAND_X:
            for v in OPERAND_V:
                by_hash = {}
                for name in sorted(set(live) | set(OPS)):
                    s = {"kind": "simple", "name": name, "args": [{"__expr__": xs}, v], "kwargs": {}}
                    n += 1
                    try:
                        e = build(s)
                        if name in SYNTAX:      # the operator syntax really produces this operand tuple and name
                            try:
                                ee = SYNTAX[name](build(xs), build({"kind": "value", "value": v}).value)
                                self.stat("operator_syntax", "same-call" if call_key(ee) == call_key(e) else "DIFFERENT:" + name)
                            except Exception:  # noqa
                                self.stat("operator_syntax", "unsupported:" + name)
                        h, key = e.get_hash(), call_key(e)
                        h2 = pickle.loads(__import__("redun.utils", fromlist=["pickle_dumps"]).pickle_dumps(e)).get_hash()
                    except Exception as ex:  # noqa
                        self.stat("oracle_skipped", "operator:" + type(ex).__name__)
                        continue
                    for hh in {h, h2}:
                        for (s0, key0) in by_hash.get(hh, []):
                            if key0 != key:
                                self.add(f"same-hash:operator:{s0['name']}/{name}:" + json.dumps([xs, v], sort_keys=True),
                                         f"SimpleExpression {s0['name']}(x, {v!r}) and {name}(x, {v!r}) over the same operands "
                                         f"have the same hash {hh[:8]}" + (" after a pickle round trip" if hh != h else ""),
                                         {"kind": "pair", "mutation": "operator", "a": s0, "b": s})
                    by_hash.setdefault(h, []).append((s, key))
        # 3c. ... and reached from one job they are evaluated independently (non-commutative operands)
        for xv, v, names in MERGE_CASES:
            n += 1
            try:
                res, exp = run_operator_merge(xv, v, names)
            except Exception as ex:  # noqa
                self.stat("oracle_skipped", "opmerge:" + type(ex).__name__)
                continue
            self.stat("operator_merge", "independent" if res == exp else "MERGED")
            if res != exp:
                self.add(f"merged:operators:{'/'.join(names)}:" + json.dumps([xv, v]),
                         f"one job returning [{', '.join(f'{nm_}(x, {v!r})' for nm_ in names)}] with x = {xv!r} evaluates to {res}; "
                         f"evaluated independently the operators give {exp}", {"kind": "opmerge", "x": xv, "v": v, "names": names})
        # 4. expressions evaluated by the real Scheduler (exporting parents, nesting): nothing may change an
        #    expression's options / exported options after construction, so that the cached hash stays the hash of
        #    the call; smallest workflows first
        flows = [{"task": "node", "kids": [{"task": "node", "export": {"x_a": 1}, "kids": [{"task": "leaf", "x": 1}]}]},
                 {"task": "node", "kids": [{"task": "node", "export": {"x_a": 1},
                                            "kids": [{"task": "leaf", "x": 1}, {"task": "leaf_exp", "x": 1}]}]},
                 {"task": "node", "kids": [{"task": "node_exp", "kids": [{"task": "leaf", "x": 2, "cond": {"x_d": 1}},
                                                                          {"task": "node", "export": {"vcpus": 3},
                                                                           "kids": [{"task": "leaf_exp", "x": 0}]}]}]}]
        flows += [gen_workflow(self.rng) for _ in range(20 if self.tier == "quick" else 300)]
        nexpr = 0
        for spec in flows:
            n += 1
            try:
                bad, k = run_workflow(spec)
            except Exception as ex:  # noqa
                self.stat("oracle_skipped", "workflow:" + type(ex).__name__)
                continue
            nexpr += k
            if bad:
                self.add("workflow:expression-changed-by-run:" + json.dumps(spec, sort_keys=True),
                         "after a run under the real Scheduler: " + "; ".join(bad[:4]), {"kind": "workflow", "spec": spec})
        self.stat("oracle", "workflows", len(flows))
        self.stat("oracle", "workflow_expressions_checked", nexpr)
        self.stat("oracle", "cases", n)
        self.stat("oracle", "small_scope_pairs", ss)
        self.evaluations += n
        for f in self.findings[before:]:
            self.stat("oracle_finding", f.key if f.key in KNOWN_KEYS else "unregistered")
        self.findings.sort(key=lambda f: len(json.dumps(f.replay, default=str)))
        new = [f for f in self.findings[before:] if f.key not in KNOWN_KEYS]
        self.ob("oracle", f"implementation oracle: {n} cases (expressions differing in one component hash differently; "
                f"pickle round trips keep hash/arguments/options and clear bookkeeping): nothing outside the "
                f"registered defect; expressions run under the real Scheduler keep their options, exports and hash", not new, "; ".join(sorted({f.key[:160] for f in new})[:6]))

    def replay(self, doc):
        r = doc.get("replay", {})
        if r.get("kind") == "pair":
            res = self.check_pair(r["mutation"], r["a"], r["b"])
            print("replay:", res[1] + " -- still fails" if res else "the two expressions hash differently now")
            return 1 if res else 0
        if r.get("kind") == "roundtrip":
            why = self.check_roundtrip(r["spec"])
            print("replay:", why or "round trip holds now")
            return 1 if why else 0
        if r.get("kind") == "opmerge":
            res, exp = run_operator_merge(r["x"], r["v"], r["names"])
            print(f"replay: one job returns {res}; independently evaluated: {exp}:", "still merged" if res != exp else "holds now")
            return 1 if res != exp else 0
        if r.get("kind") == "workflow":
            bad, k = run_workflow(r["spec"])
            print(f"replay: {k} expressions constructed;", "; ".join(bad) if bad else "no expression was changed by the run")
            return 1 if bad else 0
        if r.get("kind") == "merge":
            res, seen = self.merge_witness()
            print("replay: result", res, "ran for", seen)
            return 0 if res == ["a", "b"] else 1
        print("replay: nothing to replay (no failing input was found); broken obligations:",
              json.dumps(doc.get("broken_obligations", []))[:2000])
        return 1
