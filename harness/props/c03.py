"""C03 — Shallow (ultimate-reduction) cache hits respect code changes in the subtree."""
from __future__ import annotations

import os
import shutil

from harness.lib import Finding, scratch_dir
from harness.props import recording_lib as rl
from harness.props.recording_check import RecordingCheck
from harness.props.recording_lib import FCRASH, FFAIL, FOK, Tree, World

# finding keys: <no-fault | import | crash | transient-error>[@<outermost backend operation of the faulted commit>]:<outcome class>
# outcome classes: stale-shallow-hit (the looked-up call node itself is replayed although its recorded subtree changed) and
# stale-shallow-hit-via-cse-replay (the workload replays a job by CSE from a call node whose rows the fault lost; the parent
# of the replayed job then records an incomplete subtree set). Workload, commit index and values are in the text / replay.
def fault_key(kind, site, via_cse):
    return f"{kind}@{(site or '?').split('>')[0]}:stale-shallow-hit" + ("-via-cse-replay" if via_cse else "")


K_NOFAULT = "no-fault:stale-shallow-hit"
K_IMPORT = "import:stale-shallow-hit"


class Check(RecordingCheck):
    id = "C03"
    module = "Props.C03"
    theorems = ["C03_shallow_hit_sound_fixed", "C03_invariant_fixed", "C03_rows_all_or_nothing_partial",
                "C03_refuted_retry", "C03_refuted_crash", "C03_refuted_import", "C03_refuted_cse",
                "C03_shallow_hit_sound_mixed_partial", "C03_mixed_old_witnesses_closed", "C03_refuted_mixed", "C03_refuted_guarded", "C03_nonvacuous"]
    rule = ("operation scripts: random call trees (0-2 children, recorded or not, 0-3 arguments over a 6-value pool), "
            "re-recordings, imports, commit fates (none / one or several OperationalErrors / crash) at random commit "
            "indices, lookups under the full registry and with one subtree task removed; non-trivial = has a fault or "
            "an import; scheduler traces: 3 workflows x 3 edit histories; oracle: end-to-end runs of real workflows")

    def correspond(self):
        n = 50 if self.tier == "quick" else 700
        self.mismatches = self.correspond_ops(n, 0.45, f"C03_{os.getpid()}")
        self.correspond_traces(f"C03t_{os.getpid()}")

    # ------------------------------------------------------------------ oracle
    def oracle(self):
        work = scratch_dir("rv_c03o_")
        cwd = os.getcwd()
        os.chdir(work)
        self._expected = {}
        self._cse = {}
        n = 0
        try:
            rl.quiet()
            # 1. the four witnesses of Props/C03.v on the real Scheduler / backend
            n += self.witness_transient_and_crash(work)
            n += self.witness_cse(work)
            n += self.witness_import(work)
            n += self.witness_mixed(work)
            # 2. search: plain edit histories (no fault), then faults at every commit inside
            #    record_call_node of the workloads followed by an edit
            for name in ("chain", "two_args", "caught", "caught_deep", "noprov0"):
                o = self.e2e(name, [], work, f"b{n}")
                n += 1
                if (o["edited"][0] == "ok" and o["stale_edited"]) or (o["same"][0] == "ok" and o["stale_same"]):
                    self.findings.append(Finding(
                        K_NOFAULT, f"workload {name}, no fault: after editing leaf the run returns "
                        f"{o['edited'][1]!r}, a fresh backend {o['expected_edited'][1]!r}", {"kind": "e2e", "workload": name, "plan": []}))
            # noprov*: children with prov=False, record_call_node records their Task values itself (nested commits)
            n += self.oracle_histories(work)
            names = ["chain", "noprov0"] if self.tier == "quick" else list(rl.MODELLED_WORKLOADS + rl.NOPROV_WORKLOADS)
            for name in names:
                db = rl.fresh_db(str(work), "probe.db")
                _, _, log, s = rl.sched_run(name, rl.LEAF_V1[name], db)
                rl.close_backend(s.backend)
                os.unlink(db)
                idx = [i for i, _, site in log if "record_call_node" in site]
                if name in rl.NOPROV_WORKLOADS:
                    # the commits of record_call_node(top) after its arguments: task values, subtree rows
                    idx = [i for i, _, site in log if site.startswith("record_call_node") and "_record_args" not in site]
                elif self.tier == "quick":
                    idx = idx[:: max(1, len(idx) // 8)]
                for i in idx:
                    for fate in (FFAIL, FCRASH):
                        o = self.e2e(name, [FOK] * i + [fate], work, f"s{n}")
                        n += 1
                        self.stat("oracle_fault_site", f"{'crash' if fate == FCRASH else 'transient'}@{o['site']}")
                        # C03 is about replaying a stale result; a recovery run that dies is C22's business
                        stale = (o["edited"][0] == "ok" and o["stale_edited"]) or (o["same"][0] == "ok" and o["stale_same"])
                        if stale:
                            self.findings.append(Finding(
                                fault_key("transient-error" if fate == FFAIL else "crash", o["site"], self.has_cse(name, work)),
                                f"after a {'transient error' if fate == FFAIL else 'crash'} at commit {i} ({o['site']}) of "
                                     f"workload {name}, the run after editing leaf returns {o['edited'][1]!r}, a fresh backend {o['expected_edited'][1]!r}",
                                {"kind": "e2e", "workload": name, "plan": [FOK] * i + [fate]}))
        finally:
            os.chdir(cwd)
            shutil.rmtree(work, ignore_errors=True)
            rl.cleanup_template()
            rl.cleanup_workloads()
        self.evaluations += n
        self.stat("oracle", "end_to_end_histories", n)
        self.findings.sort(key=lambda f: 0 if "stale-shallow-hit" in f.key else 1)    # wrong results first
        from harness.lib import load_known_findings
        known = {k["key"] for k in load_known_findings() if k.get("property") == self.id}
        unknown = [f for f in self.findings if f.key not in known]
        self.ob("oracle", f"implementation oracle: {n} end-to-end histories (fault / import / CSE, edit leaf, re-run vs fresh backend)",
                not unknown, "; ".join(f.what for f in unknown[:5]))
        if self.variant == "fixed" and [f for f in self.findings if f.key in known]:
            # the code claims the repaired configuration but a witness still reproduces
            self.ob("oracle", "repaired configuration: no witness reproduces", False, "; ".join(f.key for f in self.findings[:5]))

    # ------------------------------------------------------------------ generated edit histories (no fault)
    def history_cases(self):
        demo = rl.Program.demo()
        cases = [(demo, [3, 2]), (demo, [2, 3]), (demo, [3, 1, 2])]
        for _ in range(6 if self.tier == "quick" else 40):
            prog = rl.Program.random(self.rng)
            k = self.rng.randint(2, min(4, prog.n))
            order = self.rng.random()
            tasks = self.rng.sample(range(prog.n), k)
            if order < 0.5:
                # a task outside the subtree of the deepest chosen one first, deep descendants last
                tasks.sort(key=lambda i: len(prog.descendants(i)), reverse=(order < 0.1))
                tasks = sorted(tasks, key=lambda i: (len(prog.descendants(i)) == 0, self.rng.random()))
            cases.append((prog, tasks))
        return cases

    def run_history(self, prog, edits, work, tag):
        """Runs t0(1), then one run after each edit (fresh Scheduler, same database); each run is compared with a run of
        the same task versions on an empty database; the edited task must execute; every recorded call node's
        CallSubtreeTask rows must cover the tasks of all call nodes reachable from it through CallEdges."""
        db = rl.fresh_db(str(work), f"{tag}.db")
        versions = [100 * (i + 1) for i in range(prog.n)]
        problems = []
        for step, e in enumerate([None] + list(edits)):
            if e is not None:
                versions[e] += 1
            st, r, ex, s = rl.run_program(prog, versions, db)
            incomplete = rl.subtree_oracle(s.backend)
            rl.close_backend(s.backend)
            fdb = rl.fresh_db(str(work), f"{tag}_f.db")
            st0, r0, _, s0 = rl.run_program(prog, versions, fdb)
            rl.close_backend(s0.backend)
            os.unlink(fdb)
            if (st, r) != (st0, r0):
                problems.append(("stale-shallow-hit", f"run {step} (after editing t{e}) returns {r!r}, an empty database gives {r0!r}"))
            elif e is not None and e not in ex:
                problems.append(("edited-task-not-executed", f"run {step}: edited task t{e} did not execute (executed {ex})"))
            if incomplete:
                problems.append(("subtree-rows-incomplete", f"after run {step}: CallSubtreeTask rows miss tasks of recorded "
                                                            f"descendants: {incomplete[:3]}"))
            if any(c != "subtree-rows-incomplete" for c, _ in problems):
                break
        os.unlink(db)
        seen, uniq = set(), []
        for c, w in problems:               # one report per class and history
            if c not in seen:
                seen.add(c)
                uniq.append((c, w))
        problems = uniq
        return problems

    def oracle_histories(self, work):
        n = 0
        for prog, edits in self.history_cases():
            problems = self.run_history(prog, edits, work, f"h{n}")
            n += 1
            self.stat("history_edits", len(edits))
            self.stat("history_tasks", prog.n)
            self.stat("history_shallow_tasks", sum(prog.shallow))
            for cls, what in problems:
                self.findings.append(Finding(
                    f"no-fault:{cls}", f"program {prog.describe()}, edits {['t%d' % e for e in edits]}, no fault: {what}",
                    {"kind": "history", "program": prog.describe(), "edits": list(edits)}))
        self.stat("oracle", "edit_histories", n)
        return n

    def witness_transient_and_crash(self, work):
        name = "chain"
        db = rl.fresh_db(str(work), "w.db")
        _, _, log, s = rl.sched_run(name, rl.LEAF_V1[name], db)
        rl.close_backend(s.backend)
        os.unlink(db)
        finals = [i for i, _, site in log if site == "record_call_node"]
        # the final commit of the record_call_node of the first `top` job: the 3rd call node recorded (leaf, mid, top)
        i = finals[2]
        for fate in (FFAIL, FCRASH):
            o = self.e2e(name, [FOK] * i + [fate], work, "w")
            if o["edited"][0] == "ok" and o["stale_edited"]:
                self.findings.append(Finding(
                    fault_key("transient-error" if fate == FFAIL else "crash", o["site"], False), f"{'transient OperationalError' if fate == FFAIL else 'process death'} at the final commit of "
                         f"record_call_node(top): after editing leaf the shallow-cached top replays {o['edited'][1]!r}, "
                         f"a fresh backend gives {o['expected_edited'][1]!r}",
                    {"kind": "e2e", "workload": name, "plan": [FOK] * i + [fate]}))
        return 2

    def witness_mixed(self, work):
        """C03_refuted_mixed on the real Scheduler: workload cse, one transient error at the last commit of the
        record_call_node of a's mid; p's mid is then replayed by CSE from that call node."""
        name = "cse"
        db = rl.fresh_db(str(work), "wm.db")
        _, _, log, s = rl.sched_run(name, rl.LEAF_V1[name], db)
        rl.close_backend(s.backend)
        os.unlink(db)
        finals = [i for i, _, site in log if site == "record_call_node"]
        i = finals[1]                                        # call nodes are recorded in the order leaf, mid, a, ...
        base = self.e2e(name, [], work, "wm0")
        for fate in (FFAIL, FCRASH):
            kind = "transient-error" if fate == FFAIL else "crash"
            o = self.e2e(name, [FOK] * i + [fate], work, "wm")
            if o["edited"][0] == "ok" and o["stale_edited"] and not base["stale_edited"]:
                self.findings.append(Finding(
                    fault_key(kind, o["site"], True),
                    f"{kind} at the last commit of record_call_node(mid) (commit {i} of workload cse): mid's CallSubtreeTask rows are lost "
                    f"(early exit on retry / re-execution); p's call of mid is replayed by CSE from that call node and inherits no subtree "
                    f"tasks; after editing leaf the shallow-cached p replays {o['edited'][1]!r}, a fresh backend gives {o['expected_edited'][1]!r}",
                    {"kind": "e2e", "workload": name, "plan": [FOK] * i + [fate]}))
        return 3

    def has_cse(self, name, work):
        """Does the fault-free run of this workload replay a job by CSE?"""
        if name not in self._cse:
            from redun.backends.base import CacheResult
            expr, ns = rl.define_workload(name, rl.LEAF_V1[name])
            s = rl.make_scheduler(rl.fresh_db(str(work), f"cse_{name}.db"))
            seen = []
            orig = s.backend.check_cache

            def check_cache(*a, **k):
                r = orig(*a, **k)
                seen.append(r[2])
                return r
            s.backend.check_cache = check_cache
            import contextlib
            import io
            with contextlib.redirect_stderr(io.StringIO()):
                s.run(expr)
            rl.close_backend(s.backend)
            self._cse[name] = CacheResult.CSE in seen
            self.stat("workload_replays_by_cse", f"{name}={self._cse[name]}")
        return self._cse[name]

    def witness_cse(self, work):
        o = self.e2e("cse", [], work, "wc")
        if o["stale_edited"]:
            self.findings.append(Finding(
                K_NOFAULT, f"no fault: p (shallow) calls mid, replayed by CSE from a's call of mid; p's subtree rows miss leaf "
                       f"({o['incomplete']}); after editing leaf the run returns {o['edited'][1]!r}, a fresh backend {o['expected_edited'][1]!r}",
                {"kind": "e2e", "workload": "cse", "plan": []}))
        return 1

    def witness_import(self, work):
        """Record top -> leaf in repository A, transfer the call graph to B, look it up in B after an edit of leaf."""
        world = World()
        leaf = Tree(2, [110], 120)
        top = Tree(1, [110], 120, [leaf])
        ops = [("import", [top]), ("new",)] + [("val", i, []) for i in world.tasks]
        outs, dump, b = rl.run_script(world, ops, 3, str(work), "wi")
        got = world.query(b, 1, [110], [1, 3, 4, 5, 6, 7, 8])       # task 2 (leaf) no longer in the registry
        rl.close_backend(b)
        if got is not None:
            self.findings.append(Finding(
                K_IMPORT, "a call node transferred with put_records(get_records(...)) has no CallSubtreeTask rows: "
                          "_get_call_node returns it although a task of its subtree is not in the registry",
                {"kind": "import", "tree": top.cq(), "registry": [1, 3, 4, 5, 6, 7, 8]}))
        return 1

    def replay(self, doc):
        r = doc.get("replay", {})
        if r.get("kind") == "history":
            work = scratch_dir("rv_replay_")
            cwd = os.getcwd()
            os.chdir(work)
            try:
                prog = rl.Program(r["program"]["kids"], r["program"]["shallow"])
                problems = self.run_history(prog, r["edits"], work, "replay")
            finally:
                os.chdir(cwd)
                shutil.rmtree(work, ignore_errors=True)
                rl.cleanup_template()
                rl.cleanup_workloads()
            for cls, what in problems:
                print("replay:", cls, "-", what)
            print("replay:", "still fails" if problems else "holds now")
            return 1 if problems else 0
        if r.get("kind") == "import":
            work = scratch_dir("rv_replay_")
            cwd = os.getcwd()
            os.chdir(work)
            try:
                before = len(self.findings)
                self.witness_import(work)
                bad = len(self.findings) > before
            finally:
                os.chdir(cwd)
                shutil.rmtree(work, ignore_errors=True)
                rl.cleanup_template()
            print("replay:", "still fails" if bad else "holds now")
            return 1 if bad else 0
        return super().replay(doc)
