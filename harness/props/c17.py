"""C17 — Task hashes track code identity (redun/task.py Task._calc_hash & friends, redun/utils.py get_func_source)."""
from __future__ import annotations

import copy
import importlib.util
import inspect
import itertools
import json
import shutil
import sys

from harness.lib import (CORPUS, GEN, Finding, PropertyCheck, TranslateError, cq_bytes, run_bool_cases, scratch_dir)
from translate import astutil, tr_hash_task

PINS = json.loads(tr_hash_task.PINS_FILE.read_text())

# ------------------------------------------------------------------ known-finding keys (by call site)
K_OPT = "clone:Task.options:drops-hash_includes"
K_EXP = "clone:Task.export_options:drops-hash_includes"
K_CTX = "clone:Task.update_context:drops-hash_includes"
K_WRAP = "clone:wrapped-task.options:ignores-inner-task"
K_ASYNC_DECO = "get_func_source:async-def:decorator-lines-hashed"
K_ASYNC_NESTED = "get_func_source:async-def-with-nested-def:leading-body-not-hashed"
K_TAB = "get_func_source:tab-indented-def:decorator-lines-hashed"
K_JOINT = "layout:hash_includes-item-equal-to-override-dict"
KNOWN_KEYS = {K_OPT, K_EXP, K_CTX, K_WRAP, K_ASYNC_DECO, K_ASYNC_NESTED, K_TAB, K_JOINT}

PREAMBLE = "def deco(*a, **k):\n    def w(f):\n        return f\n    return w\n"


# ------------------------------------------------------------------ generated functions
def render_func(fs, sym):
    """fs: {"name","style" in top|inner|tab,"async":bool,"decos":[str],"args":str,"body":[str]} -> lines"""
    style = fs["style"]
    ind = {"top": "", "inner": "    ", "tab": "\t"}[style]
    unit = "\t" if style == "tab" else "    "
    out = []
    if ind:
        out.append(f"def _outer_{sym}():")
    for d in fs["decos"]:
        for part in d.split("\n"):
            out.append(ind + part)
    out.append(f"{ind}{'async def' if fs['async'] else 'def'} {fs['name']}({fs['args']}):")
    for bl in fs["body"]:
        out.append(ind + unit + bl.replace("    ", unit))
    if ind:
        out.append(f"{unit}return {fs['name']}")
        out.append(f"{sym} = _outer_{sym}()")
    else:
        out.append(f"{sym} = {fs['name']}")
    return out


class World:
    """Writes the generated functions into real module files so that inspect.getsource works."""
    counter = 0

    def __init__(self):
        self.dir = scratch_dir("rv_c17_")
        self.specs = []
        self.keys = {}
        self.mods = {}

    def add(self, fs, with_ns):
        key = json.dumps([fs, with_ns], sort_keys=True)
        if key not in self.keys:
            self.keys[key] = len(self.specs)
            self.specs.append((fs, with_ns))
        return self.keys[key]

    def build(self):
        for with_ns in (True, False):
            World.counter += 1
            name = f"c17gen_{World.counter}_{'ns' if with_ns else 'plain'}"
            lines = [PREAMBLE]
            if with_ns:
                lines.append('redun_namespace = "genmod"')
            for i, (fs, w) in enumerate(self.specs):
                if w == with_ns:
                    lines += render_func(fs, f"fn_{i}") + [""]
            path = self.dir / f"{name}.py"
            path.write_text("\n".join(lines) + "\n", encoding="utf-8")
            spec = importlib.util.spec_from_file_location(name, path)
            mod = importlib.util.module_from_spec(spec)
            sys.modules[name] = mod
            spec.loader.exec_module(mod)
            self.mods[with_ns] = mod

    def func(self, fs, with_ns):
        i = self.keys[json.dumps([fs, with_ns], sort_keys=True)]
        return getattr(self.mods[with_ns], f"fn_{i}")

    def close(self):
        for m in self.mods.values():
            sys.modules.pop(m.__name__, None)
        shutil.rmtree(self.dir, ignore_errors=True)


# ------------------------------------------------------------------ building real objects from a spec
def wrapper_for(wincs):
    from redun.task import wraps_task

    @wraps_task(wrapper_name="_w", wrapper_hash_includes=list(wincs))
    def _w(inner_task):
        def do(*a, **k):
            return inner_task.func(*a, **k)
        return do
    return _w


def funcs_of(spec):
    out = [(spec["func"], spec.get("with_ns", True))]
    for v in spec.get("includes") or []:
        if isinstance(v, dict) and "__task__" in v:
            out += funcs_of(v["__task__"])
    return out


def build_real(spec, world, trace=None):
    """-> final object (Task or PartialTask). trace (optional list) receives (stage, obj)."""
    from redun.task import Task, get_task_registry
    f = world.func(spec["func"], spec.get("with_ns", True))
    incs = spec.get("includes")
    if incs is not None:
        incs = [build_real(v["__task__"], world) if isinstance(v, dict) and "__task__" in v else copy.deepcopy(v)
                for v in incs]
    kw = {}
    for k in ("name", "namespace", "version", "compat", "source"):
        if spec.get(k) is not None:
            kw[k] = copy.deepcopy(spec[k])
    if spec.get("base") is not None:
        kw["task_options_base"] = copy.deepcopy(spec["base"])
    if spec.get("override") is not None:
        kw["task_options_override"] = copy.deepcopy(spec["override"])
    t = Task(f, hash_includes=incs, **kw)
    if trace is not None:
        trace.append(("base", t))
    for op in spec.get("ops", []):
        if op[0] == "options":
            t = t.options(**copy.deepcopy(op[1]))
        elif op[0] == "export_options":
            t = t.export_options(**copy.deepcopy(op[1]))
        elif op[0] == "update_context":
            t = t.update_context(copy.deepcopy(op[1]), **copy.deepcopy(op[2]))
        elif op[0] == "partial":
            t = t.partial(*copy.deepcopy(op[1]), **copy.deepcopy(op[2]))
        elif op[0] == "wrap":
            get_task_registry().add(t)
            t = wrapper_for(op[1])(t)
        else:
            raise ValueError(op)
        if trace is not None:
            trace.append((op[0], t))
    return t


# ------------------------------------------------------------------ spec generators
VALUES = [0, 1, 2, -5, "v1", "v2", "", "é", [1, 2], {"a": 1}, None, 1.5, True, ["x", ["y"]], {"memory": 1}, 10 ** 20]
OPT_KEYS = ["memory", "vcpus", "executor", "limits", "image", "cache", "cache_scope", "check_valid", "prov", "x"]
OPT_VALUES = {"cache": [True, False], "cache_scope": ["NONE", "CSE", "BACKEND"], "check_valid": ["full", "shallow"],
              "prov": [True, False]}
NAMES = ["h", "task1", "my_task", "T", "a_b", "f"]
NAMESPACES = ["", "ns", "a.b", "ns.h", "pkg.mod_1"]
BODIES = [["return x"], ["y = x + 1", "return y"], ["# comment é", "return x * 2"],
          ["y = x + 1", "def g(): return y", "return g()"], ["if x:", "    return 1", "return 0"]]
DECOS = [[], ["@deco()"], ["@deco(memory=1)"], ["@deco(memory=2)", "@deco()"], ["@deco(\n    name='def x',\n    memory=3,\n)"],
         ["@deco(executor='batch')  # def not here"]]


class Gen:
    def __init__(self, rng):
        self.rng = rng

    def opts(self, maxn=3):
        r = self.rng
        d = {}
        for _ in range(r.choice([0, 1, 1, 2, maxn])):
            k = r.choice(OPT_KEYS)
            d[k] = r.choice(OPT_VALUES[k]) if k in OPT_VALUES else r.choice([1, 2, "4Gi", [1], {"r": 1}, None])
        if "cache" in d:
            d.pop("cache_scope", None)
        if d.get("cache_scope") == "BACKEND" or d.get("cache") is True:
            d.pop("check_valid", None)
        return d

    def func(self, style=None, is_async=None):
        r = self.rng
        return {"name": r.choice(NAMES), "style": style or r.choice(["top", "top", "inner", "tab"]),
                "async": r.random() < 0.2 if is_async is None else is_async,
                "decos": list(r.choice(DECOS)), "args": r.choice(["x", "x, y=1", "*a, **k"]),
                "body": list(r.choice(BODIES))}

    def spec(self, depth=1, plain=False):
        r = self.rng
        fs = self.func()
        s = {"func": fs, "with_ns": r.random() < 0.5,
             "name": r.choice([None, None] + NAMES), "namespace": r.choice([None, None] + NAMESPACES),
             "version": r.choice([None, None, None, "1", "2.0", ""]),
             "source": r.choice([None, None, None, "def f(x): return x", ""]),
             "base": self.opts(), "override": r.choice([None, {}, self.opts(), self.opts()]),
             "includes": r.choice([None, [], [r.choice(VALUES)], [r.choice(VALUES) for _ in range(r.randint(2, 4))]]),
             "ops": []}
        if fs["async"]:
            s["base"]["cache"] = False
            s["base"].pop("cache_scope", None)
            s["base"].pop("check_valid", None)
        if s["override"]:
            for k in ("cache", "cache_scope", "check_valid"):
                if fs["async"]:
                    s["override"].pop(k, None)
        if not plain and depth > 0 and s["includes"] is not None and r.random() < 0.25:
            s["includes"].append({"__task__": self.spec(0, plain=True)})
        if not plain:
            s["ops"] = self.ops(fs["async"])
        return s

    def ops(self, is_async):
        r = self.rng
        ops = []
        n = r.choice([0, 0, 1, 1, 2, 3])
        wrapped = partial = False
        for _ in range(n):
            k = r.choice(["options", "options", "export_options", "update_context", "partial", "wrap"])
            if partial and k not in ("options", "partial"):
                continue
            if k == "wrap" and wrapped:
                continue
            if k in ("options", "export_options"):
                d = self.opts() or {"memory": 1}
                if is_async or wrapped:
                    for kk in ("cache", "cache_scope", "check_valid"):
                        d.pop(kk, None)
                    d = d or {"memory": 1}
                ops.append([k, d])
            elif k == "update_context":
                ops.append([k, r.choice([{}, {"a": 1}, {"a": {"b": 2}}]), r.choice([{}, {"c": 3}, {"a": {"d": 4}}])])
            elif k == "partial":
                ops.append([k, [r.choice(VALUES) for _ in range(r.randint(0, 2))],
                            {kk: r.choice(VALUES) for kk in r.sample(["p", "q", "a"], r.randint(0, 2))}])
                partial = True
            else:
                ops.append([k, [r.choice(VALUES) for _ in range(r.randint(0, 2))]])
                wrapped = True
        return ops


# ------------------------------------------------------------------ mutations (oracle)
def fresh(v, pool):
    for c in pool:
        if type(c) is type(v) and c != v:
            return c
    return "fresh-" + repr(v)


def mutations(spec, rng):
    """-> list of (kind, expect in differ|equal, mutated spec)."""
    out = []

    def mut(kind, expect, fn):
        s = copy.deepcopy(spec)
        if fn(s) is not False:
            out.append((kind, expect, s))

    def m_name(s):
        cur = s["name"] or s["func"]["name"]
        s["name"] = fresh(cur, NAMES)
    mut("name", "differ", m_name)

    def m_ns(s):
        if s["namespace"] is None:
            s["namespace"] = "other.ns"
        else:
            s["namespace"] = fresh(s["namespace"], NAMESPACES)
    mut("namespace", "differ", m_ns)

    unversioned = spec["version"] is None
    from_func = not spec["source"]           # None or "" -> the function's source is used

    def m_body_last(s):
        s["func"]["body"][-1] = s["func"]["body"][-1] + "  # edited"
    def m_body_first(s):
        s["func"]["body"][0] = s["func"]["body"][0].replace("x", "(x)", 1) if "x" in s["func"]["body"][0] \
            else s["func"]["body"][0] + "  # edited"
    def m_defline(s):
        s["func"]["args"] = s["func"]["args"] + ", extra=None" if "*" not in s["func"]["args"] else "*b, **k"
    if unversioned and from_func:
        mut("body-last-line", "differ", m_body_last)
        mut("body-first-line", "differ", m_body_first)
        mut("def-line", "differ", m_defline)
    if unversioned and spec["source"]:
        mut("source-argument", "differ", lambda s: s.__setitem__("source", s["source"] + "\n# edited"))

    def m_version(s):
        s["version"] = "1" if s["version"] is None else s["version"] + "x"
    mut("version", "differ", m_version)

    def m_inc_replace(s):
        if not s["includes"]:
            return False
        i = rng.randrange(len(s["includes"]))
        v = s["includes"][i]
        if isinstance(v, dict) and "__task__" in v:
            v["__task__"]["version"] = "mutated"
        else:
            cand = [c for c in VALUES if all(not same_value(c, w) for w in s["includes"])]
            if not cand:
                return False
            s["includes"][i] = cand[0]
    def m_inc_add(s):
        s["includes"] = list(s["includes"] or []) + ["added-include"]
    def m_inc_drop(s):
        if not s["includes"]:
            return False
        s["includes"] = s["includes"][1:]
    mut("includes-replace", "differ", m_inc_replace)
    mut("includes-add", "differ", m_inc_add)
    mut("includes-drop", "differ", m_inc_drop)

    def m_ov_add(s):
        s["override"] = dict(s["override"] or {})
        s["override"]["zz_new"] = 7
    # a later .options(k=...) overwrites key k, and _validate folds cache into cache_scope: only keys
    # that no later operation writes are mutated
    masked = {"cache", "cache_scope", "check_valid"}
    for op in spec["ops"]:
        if op[0] in ("options", "export_options"):
            masked |= set(op[1])
    free = sorted(k for k in (spec["override"] or {}) if k not in masked)

    def m_ov_change(s):
        if not free:
            return False
        k = free[0]
        v = s["override"][k]
        s["override"][k] = fresh(v, OPT_VALUES.get(k, [1, 2, "4Gi", "8Gi", [1], [2], {"r": 1}, {"r": 2}]))
        if s["override"][k] == "fresh-" + repr(v):
            return False
    def m_ov_drop(s):
        if not free:
            return False
        del s["override"][free[0]]
    mut("override-add", "differ", m_ov_add)
    mut("override-change", "differ", m_ov_change)
    mut("override-drop", "differ", m_ov_drop)

    has_partial = [i for i, op in enumerate(spec["ops"]) if op[0] == "partial"]
    if has_partial:
        def m_parg(s):
            op = s["ops"][has_partial[-1]]
            op[1] = list(op[1]) + ["extra-arg"]
        def m_pkw(s):
            op = s["ops"][has_partial[-1]]
            op[2] = dict(op[2])
            op[2]["zz_kw"] = "added"
        mut("partial-args", "differ", m_parg)
        mut("partial-kwargs", "differ", m_pkw)

    # ---- must not change the hash
    def m_base(s):
        s["base"] = dict(s["base"])
        s["base"]["memory"] = 99 if s["base"].get("memory") != 99 else 98
        s["base"]["zz_def_time"] = "x"
    mut("definition-time-options", "equal", m_base)

    def m_decos(s):
        s["func"]["decos"] = ["@deco(memory=123)"] + [d for d in s["func"]["decos"]][:1]
        if s["func"]["decos"] == spec["func"]["decos"]:
            s["func"]["decos"] = ["@deco(vcpus=7)"]
    mut("decorator-lines", "equal", m_decos)

    def m_perm(s):
        if not s["includes"] or len(s["includes"]) < 2:
            return False
        s["includes"] = s["includes"][1:] + s["includes"][:1]
    mut("includes-order", "equal", m_perm)
    return out


def same_value(a, b):
    return type(a) is type(b) and a == b


def classify(kind, expect, a, world_eval):
    """A violation was observed for mutation `kind` on spec a. Decide whether it is one of the registered
    defects (by re-running without the clone operations) -> known key or None."""
    fs = a["func"]
    if expect == "equal" and kind == "decorator-lines":
        if fs["async"]:
            return K_ASYNC_DECO
        if fs["style"] == "tab":
            return K_TAB
        return None
    if expect == "differ" and kind in ("body-first-line", "def-line") and fs["async"] \
            and any(bl.lstrip().startswith("def ") for bl in fs["body"][1:]):
        return K_ASYNC_NESTED
    if expect == "differ":
        clone_ops = [op for op in a["ops"] if op[0] in ("options", "export_options", "update_context")]
        if not clone_ops:
            return None
        # is some clone operation applied to a wrapper task?
        wrapped_before = False
        seen_wrap = False
        for op in a["ops"]:
            if op[0] == "wrap":
                seen_wrap = True
            if op[0] in ("options", "export_options", "update_context") and seen_wrap:
                wrapped_before = True
        if not (kind.startswith("includes") or wrapped_before):
            return None
        # does the violation go away without the clone operations?
        if world_eval is not None and not world_eval():
            return None
        if wrapped_before:
            return K_WRAP
        return {"options": K_OPT, "export_options": K_EXP, "update_context": K_CTX}[clone_ops[0][0]]
    return None


def strip_clones(spec):
    s = copy.deepcopy(spec)
    s["ops"] = [op for op in s["ops"] if op[0] not in ("options", "export_options", "update_context")]
    return s


# ------------------------------------------------------------------ Coq side
def cq_str(s: str) -> str:
    return cq_bytes(s.encode("utf-8"))


def cq_ostr(s) -> str:
    return "None" if s is None else f"(Some {cq_str(s)})"


def vid(v) -> bytes:
    return repr(v).encode("utf-8")


def cq_optsval(d) -> str:
    if not d:
        return "(@nil (bytes * bytes))"
    return "[" + "; ".join(f"({cq_str(k)}, {cq_bytes(vid(v))})" for k, v in d.items()) + "]"


class Recorder:
    """Observes (never alters) the hashes computed and the option dicts rewritten while real objects are built."""

    def __init__(self):
        import importlib
        self.h = {}
        self.san = []
        rec = self
        self.hashing = importlib.import_module("redun.hashing")
        self.task_mod = importlib.import_module("redun.task")
        self.orig_hash = self.hashing.Hash
        self.orig_validate = self.task_mod.Task._validate

        class RecHash(self.orig_hash):
            def __init__(self, *a, **k):
                super().__init__(*a, **k)
                self._buf = b""

            def update(self, data):
                self._buf += bytes(data)
                super().update(data)

            def hexdigest(self):
                d = super().hexdigest()
                rec.h[self._buf] = d
                return d

        def rec_validate(task_self):
            before = dict(task_self._task_options_override)
            rec.orig_validate(task_self)
            rec.san.append((before, dict(task_self._task_options_override)))

        self.RecHash = RecHash
        self.rec_validate = rec_validate

    def __enter__(self):
        self.hashing.Hash = self.RecHash
        self.task_mod.Task._validate = self.rec_validate
        return self

    def __exit__(self, *a):
        self.hashing.Hash = self.orig_hash
        self.task_mod.Task._validate = self.orig_validate


HASH_PREFIXES = (b"l4:Task", b"l11:PartialTask", b"l13:TaskArguments")


def coq_case(spec, world, vt, vf):
    """-> (coq bool term, description) comparing the model's hash of the final object (and of every
    intermediate object) with the real ones."""
    from redun.namespace import compute_namespace
    from redun.value import get_type_registry
    reg = get_type_registry()
    values = {}

    def use(v):
        values[vid(v)] = reg.get_hash(v)
        return cq_bytes(vid(v))

    def cq_func(f):
        return (f"(Build_pyfunc {cq_str(f.__name__)} {cq_str(compute_namespace(f, None) or '')} "
                f"{cq_str(inspect.getsource(f))})")

    def base_term(s, real):
        f = world.func(s["func"], s.get("with_ns", True))
        incs = s.get("includes")
        if incs is None:
            ci = "None"
        else:
            items = []
            for v, rv in zip(incs, real._hash_includes):
                if isinstance(v, dict) and "__task__" in v:
                    items.append(f"ITask {cq_str(rv.hash)}")
                else:
                    items.append(f"IVal {use(v)}")
            ci = "(Some [" + "; ".join(items) + "])" if items else "(Some (@nil (item bytes)))"
        compat = s.get("compat")
        cc = "None" if compat is None else "(Some [" + "; ".join(cq_str(c) for c in compat) + "])"
        base = "None" if s.get("base") is None else f"(Some {cq_optsval(s['base'])})"
        ov = "None" if s.get("override") is None else f"(Some {cq_optsval(s['override'])})"
        return (f"(@mk_task bytes VT {cq_func(f)} {cq_ostr(s.get('name'))} {cq_ostr(s.get('namespace'))} "
                f"{cq_ostr(s.get('version'))} {cc} false {base} {ov} None {ci} {cq_ostr(s.get('source'))})")

    with Recorder() as rec:
        trace = []
        final = build_real(spec, world, trace)
    term = None
    kind = "task"
    checks = []
    for (stage, obj), op in zip(trace, [None] + spec.get("ops", [])):
        if stage == "base":
            term = base_term(spec, obj)
        elif stage == "options":
            if kind == "task":
                term = f"(@options bytes sn VT VF {term} {cq_optsval(op[1])})"
            else:
                term = f"(@partial_options bytes sn VT VF {term} {cq_optsval(op[1])})"
        elif stage == "export_options":
            term = f"(@export_options bytes sn VT VF {term} {cq_optsval(op[1])})"
        elif stage == "update_context":
            merged = obj._task_options_override["_context_override"]
            term = f"(@update_context bytes sn VT VF {term} {cq_bytes(vid(merged))})"
        elif stage == "partial":
            args = "[" + "; ".join(use(v) for v in op[1]) + "]" if op[1] else "(@nil bytes)"
            kws = "[" + "; ".join(f"({cq_str(k)}, {use(v)})" for k, v in op[2].items()) + "]" if op[2] \
                else "(@nil (bytes * bytes))"
            if kind == "task":
                term = f"(@partial bytes {term} {args} {kws})"
            else:
                term = f"(@partial_more bytes {term} {args} {kws})"
            kind = "ptask"
        elif stage == "wrap":
            wi = "[" + "; ".join(f"IVal {use(v)}" for v in op[1]) + "]" if op[1] else "(@nil (item bytes))"
            term = f"(@wrap Ht bytes vh oh VT {cq_func(obj.func)} {wi} (@nil (bytes * bytes)) {term})"
        if kind == "task":
            checks.append(f"bytes_eq (@task_hash Ht bytes vh oh VT {term}) {cq_str(obj.hash)}")
        else:
            checks.append(f"bytes_eq (@partial_hash Ht bytes vh oh sn VT {term}) {cq_str(obj.hash)}")
    # tables
    ht = [(k, v) for k, v in rec.h.items() if k.startswith(HASH_PREFIXES)]
    dicts = {}
    san = {}
    for before, after in rec.san:
        for d in (before, after):
            if d:
                dicts[cq_optsval(d)] = reg.get_hash(d)
        if cq_optsval(before) != cq_optsval(after):
            san[cq_optsval(before)] = cq_optsval(after)
    env = ("let Ht := tbl_fun [" + "; ".join(f"({cq_bytes(k)}, {cq_str(v)})" for k, v in ht) + "] in "
           "let vh := tbl_fun " + ("[" + "; ".join(f"({cq_bytes(k)}, {cq_str(v)})" for k, v in values.items()) + "]"
                                    if values else "(@nil (bytes * bytes))") + " in "
           "let oh := tbl_ohash " + ("[" + "; ".join(f"({k}, {cq_str(v)})" for k, v in dicts.items()) + "]"
                                      if dicts else "(@nil (list (bytes * bytes) * bytes))") + " in "
           "let sn := tbl_sanitize " + ("[" + "; ".join(f"({k}, {v})" for k, v in san.items()) + "]"
                                         if san else "(@nil (list (bytes * bytes) * list (bytes * bytes)))") + " in ")
    return "(" + env + " && ".join(checks) + ")", final


class Check(PropertyCheck):
    id = "C17"
    module = "Props.C17"
    extra_modules = ["Base.Lit"]
    theorems = ["C17_hash_eq_iff", "C17_fullname_changes", "C17_name_or_namespace_changes", "C17_source_changes",
                "C17_version_changes", "C17_includes_change", "C17_includes_data_change", "C17_options_change",
                "C17_options_data_change", "C17_ignores_definition_time_options", "C17_includes_order",
                "C17_decorator_lines_ignored", "C17_body_changes", "C17_options_fixed",
                "C17_options_tracks_includes_fixed", "C17_options_drops_includes_shipped",
                "C17_wrapped_tracks_inner", "C17_wrapped_options_tracks_inner_fixed",
                "C17_wrapped_options_blind_shipped", "C17_partial_reflects_args", "C17_partial_args_change",
                "C17_joint_refuted", "C17_compat_pins", "C17_options_includes_refuted",
                "C17_wrapped_options_refuted", "C17_async_decorator_refuted", "C17_async_body_refuted",
                "C17_tab_decorator_refuted", "C17_nonvacuous"]
    allowed_axioms = []
    section_premises = [
        "H_inj: the truncated SHA-512 behind redun.hashing.Hash.hexdigest has no collision on the pre-images that occur",
        "vhash / ohash (TypeRegistry.get_hash on values and on option dicts) are arbitrary functions; where a theorem "
        "speaks of the data rather than of its hash their injectivity is an explicit premise of that theorem",
        "sanitize (Task._validate's in-place rewrite of option dicts after the hash was taken) is an arbitrary function",
    ]
    assumptions = [
        "bencode is injective (C14) and str is encoded as UTF-8; sorted() on hex digests is byte order",
        "inspect.getsource(func) is an input of the model (what CPython returns for the function object)",
        "tasks with a compat pin are outside the property's quantifier (C17_compat_pins states what the pin does)",
    ]
    rule = ("generated task definitions (real functions in generated module files: top-level / nested / tab-indented, "
            "def / async def, with decorator lines) built with Task(...), then chains of options / export_options / "
            "update_context / partial / wraps_task; a case is non-trivial if it has includes, overrides or operations; "
            "distinct by spec")

    def translate(self):
        try:
            text, _, (self.vt, self.vf) = tr_hash_task.translate(pins=PINS)
        except astutil.TranslateError as e:
            self.vt = self.vf = None
            raise TranslateError(str(e))
        GEN.mkdir(exist_ok=True)
        p = GEN / "C17Gen.v"
        p.write_text(text)
        return [p]

    # ------------------------------------------------------------------
    def correspond(self):
        vt = getattr(self, "vt", None) or "AsShipped"
        vf = getattr(self, "vf", None) or "AsShipped"
        g = Gen(self.rng)
        n = 260 if self.tier == "quick" else 4000
        specs = [g.spec() for _ in range(n)]
        for i, s in enumerate(specs):
            if i % 17 == 0:
                s["compat"] = ["pinned-hash"] if i % 2 else []
        world = World()
        terms, descr = [], []
        try:
            for s in specs:
                for fs, w in funcs_of(s):
                    world.add(fs, w)
            world.build()
            for s in specs:
                try:
                    term, final = coq_case(s, world, vt, vf)
                except Exception as e:  # a generated definition the real code rejects: not a case
                    self.stat("correspondence_skipped", type(e).__name__)
                    continue
                terms.append(term)
                descr.append(json.dumps(s, sort_keys=True))
                self.stat("final_object", type(final).__name__)
                self.stat("func_style", s["func"]["style"] + ("/async" if s["func"]["async"] else ""))
                self.stat("ops", ",".join(op[0] for op in s["ops"]) or "-")
                nontriv = bool(s["ops"] or s["includes"] or s["override"])
                self.count(descr[-1] if nontriv else None)
                self.sample({"spec": s, "hash": final.hash}, 3)
        finally:
            world.close()
        pre = f"Definition VT := {vt}.\nDefinition VF := {vf}.\n"
        ok, failing, diags = run_bool_cases("C17", ["Base.Decimal", "Base.Lit", "Model.Bencode", "Model.TaskHash"], pre, terms,
                                            chunk=40)
        self.ob("correspondence", f"model (variant trim={vt}, clones={vf}) == redun Task/PartialTask hashes on "
                f"{len(terms)} generated definitions and operation chains (every intermediate object compared)",
                ok and not failing and len(terms) > n // 2,
                "\n".join(diags) + "".join(f"\nmismatch: {descr[i]}" for i in failing[:6]))

    # ------------------------------------------------------------------
    def eval_pairs(self, pairs):
        """pairs: list of (a, b). -> list of (hash_a, hash_b) or an exception instance."""
        world = World()
        out = []
        try:
            for a, b in pairs:
                for s in (a, b):
                    for fs, w in funcs_of(s):
                        world.add(fs, w)
            world.build()
            for a, b in pairs:
                try:
                    out.append((build_real(a, world).hash, build_real(b, world).hash))
                except Exception as e:
                    out.append(e)
        finally:
            world.close()
        return out

    def add(self, key, what, replay):
        self.findings.append(Finding(key[:300], what, replay))

    def judge(self, kind, expect, a, b, res, stripped_res):
        """-> None or (key, what)"""
        if isinstance(res, Exception):
            return None
        ha, hb = res
        bad = (ha == hb) if expect == "differ" else (ha != hb)
        if not bad:
            return None

        def goes_away():
            if stripped_res is None or isinstance(stripped_res, Exception):
                return False
            sa, sb = stripped_res
            return sa != sb
        key = classify(kind, expect, a, goes_away)
        what = (f"mutation `{kind}` " + ("did not change" if expect == "differ" else "changed") +
                f" the task hash ({ha[:8]} vs {hb[:8]}); ops={[op[0] for op in a['ops']]}, "
                f"style={a['func']['style']}{'/async' if a['func']['async'] else ''}")
        if key is None:
            key = f"mutation:{kind}:{expect}:" + json.dumps(a, sort_keys=True)
        return key, what

    def run_mutations(self, cases):
        """cases: list of (kind, expect, a, b)"""
        pairs = [(a, b) for _, _, a, b in cases]
        res = self.eval_pairs(pairs)
        need = [i for i, ((k, e, a, b), r) in enumerate(zip(cases, res))
                if not isinstance(r, Exception) and ((r[0] == r[1]) == (e == "differ"))]
        stripped = {}
        if need:
            sres = self.eval_pairs([(strip_clones(cases[i][2]), strip_clones(cases[i][3])) for i in need])
            stripped = dict(zip(need, sres))
        nviol = 0
        for i, ((kind, expect, a, b), r) in enumerate(zip(cases, res)):
            if isinstance(r, Exception):
                self.stat("oracle_skipped", type(r).__name__)
                continue
            self.stat("oracle_mutation", kind)
            j = self.judge(kind, expect, a, b, r, stripped.get(i))
            if j:
                nviol += 1
                self.add(j[0], j[1], {"kind": "pair", "mutation": kind, "expect": expect, "a": a, "b": b})
        return len(cases), nviol

    def oracle(self):
        g = Gen(self.rng)
        before = len(self.findings)
        n = 0
        # 0. corpus
        corpus = CORPUS / "C17.jsonl"
        cases = []
        if corpus.exists():
            for line in corpus.read_text().splitlines():
                if line.strip():
                    d = json.loads(line)
                    cases.append((d["mutation"], d["expect"], d["a"], d["b"]))
        # 1. witnesses of the _refuted theorems on the real code, and what the translator said
        plain = {"name": "h", "style": "top", "async": False, "decos": ["@deco()"], "args": "x", "body": ["return x"]}
        base = {"func": plain, "with_ns": True, "name": None, "namespace": "ns", "version": None, "source": None,
                "base": {}, "override": None, "includes": ["v1"], "ops": [["options", {"memory": 1}]]}
        w_opt = copy.deepcopy(base)
        w_opt["includes"] = ["v2"]
        afn = dict(plain, **{"async": True, "decos": ["@deco(cache=False, memory=1)"]})
        a1 = dict(base, func=afn, includes=None, ops=[], base={"cache": False})
        a2 = copy.deepcopy(a1)
        a2["func"]["decos"] = ["@deco(cache=False, memory=2)"]
        r = self.eval_pairs([(base, w_opt), (a1, a2)])
        rep_opt = not isinstance(r[0], Exception) and r[0][0] == r[0][1]
        rep_async = not isinstance(r[1], Exception) and r[1][0] != r[1][1]
        vt, vf = getattr(self, "vt", None), getattr(self, "vf", None)
        if vf is not None:
            self.ob("oracle", f"witness of C17_options_includes_refuted {'reproduces' if rep_opt else 'does not reproduce'} "
                    f"on the code; translator says clones are {vf}", rep_opt == (vf == "AsShipped"))
        if vt is not None:
            self.ob("oracle", f"witness of C17_async_decorator_refuted {'reproduces' if rep_async else 'does not reproduce'} "
                    f"on the code; translator says get_func_source is {vt}", rep_async == (vt == "AsShipped"))
        # 2. the flat layout: an include equal to the override dict
        n += 1
        j1 = dict(base, includes=[{"memory": 1}], override=None, ops=[])
        j2 = dict(base, includes=None, override={"memory": 1}, ops=[])
        rj = self.eval_pairs([(j1, j2)])[0]
        if not isinstance(rj, Exception) and rj[0] == rj[1]:
            self.add(K_JOINT, "hash_includes=[{'memory': 1}] without overrides and task_options_override={'memory': 1} "
                     "without includes give the same task hash (one flat list in the pre-image)",
                     {"kind": "pair", "mutation": "joint", "expect": "differ", "a": j1, "b": j2})
        # 3. small scope: every style x every mutation x a fixed family of operation chains
        chains = [[], [["options", {"memory": 1}]], [["export_options", {"memory": 1}]], [["update_context", {"a": 1}, {}]],
                  [["wrap", []]], [["wrap", ["w"]], ["options", {"vcpus": 2}]], [["partial", [1], {"p": 2}]],
                  [["partial", [1], {}], ["options", {"memory": 1}]], [["options", {"memory": 1}], ["options", {"memory": 2}]]]
        for style, is_async, body, decos in itertools.product(["top", "inner", "tab"], [False, True], [BODIES[1], BODIES[3]],
                                                              [DECOS[1], DECOS[4]]):
            for ci, chain in enumerate(chains):
                if (ci + len(body)) % 3 and style != "top":
                    continue
                fs = {"name": "h", "style": style, "async": is_async, "decos": list(decos), "args": "x", "body": list(body)}
                for ver, srcarg, incs, ov in (([None, None, ["v1", "v2"], {"memory": 1}]), ["1", None, ["v1"], None],
                                              [None, "def h(x): return x", None, {"x": 1}]):
                    s = {"func": fs, "with_ns": True, "name": None, "namespace": "ns", "version": ver, "source": srcarg,
                         "base": {"cache": False} if is_async else {"memory": 4}, "override": ov, "includes": incs,
                         "ops": copy.deepcopy(chain)}
                    for kind, expect, m in mutations(s, self.rng):
                        cases.append((kind, expect, s, m))
        ss = len(cases)
        # 4. random
        for _ in range(60 if self.tier == "quick" else 1500):
            s = g.spec()
            s.pop("compat", None)
            for kind, expect, m in mutations(s, self.rng):
                cases.append((kind, expect, s, m))
        total, nviol = self.run_mutations(cases)
        n += total
        self.stat("oracle", "pairs", n)
        self.stat("oracle", "small_scope_pairs", ss)
        self.evaluations += n
        for f in self.findings[before:]:
            self.stat("oracle_finding", f.key if f.key in KNOWN_KEYS else "unregistered")
        # report the smallest failing input first
        self.findings.sort(key=lambda f: len(json.dumps(f.replay, default=str)))
        new = [f for f in self.findings[before:] if f.key not in KNOWN_KEYS]
        self.ob("oracle", f"implementation oracle: {n} (definition, single mutation) pairs, the hash changes / stays as the "
                f"property says: nothing outside the registered defect classes", not new,
                "; ".join(sorted({f.key[:160] for f in new})[:6]))

    def replay(self, doc):
        r = doc.get("replay", {})
        if r.get("kind") == "pair":
            res = self.eval_pairs([(r["a"], r["b"])])[0]
            if isinstance(res, Exception):
                print("replay: building the tasks raised", repr(res))
                return 1
            bad = (res[0] == res[1]) if r["expect"] == "differ" else (res[0] != res[1])
            print(f"replay: mutation {r.get('mutation')}: hashes {res[0]} / {res[1]}, expected to {r['expect']}:",
                  "still fails" if bad else "holds now")
            return 1 if bad else 0
        print("replay: nothing to replay (no failing input was found); broken obligations:",
              json.dumps(doc.get("broken_obligations", []))[:2000])
        return 1
