"""C02 — SOURCE-LEVEL edit histories.

The generated family of c02_prog.py identifies a body by a code id and passes `source=` explicitly;
it cannot see a change in how the hash is derived from the *text* of a task.  Here tasks are
defined in real module files (the hash goes through inspect.getsource / get_func_source), the file
is rewritten between executions and re-imported, and every execution on the shared backend is
compared with the same execution on an empty backend (result; tasks executed on the shared backend
must be a subset of those executed on the empty one).

Each family is one task body with a hole {V}; its variants differ in BEHAVIOUR but the edit looks
cosmetic: inside a string literal containing '#', inside a triple-quoted string used as a value,
after a '#' inside an f-string / format spec / shell snippet, whitespace inside a string,
indentation, a default-argument expression, a nested helper / lambda, a hash_includes decorator
argument.  All of them are re-executed by the unchanged tree (checked: the families below agree
with an empty backend on /repo HEAD).  One more family (`module_helper`: the edit is in a
module-level helper the task calls) is NOT detected by redun by design; it is run as an
observation only and never raises a finding.
"""
from __future__ import annotations

import importlib
import os
import sys

LOG: list = []

HEADER = '''from redun import task
from harness.props.c02_src import LOG

redun_namespace = "c02src_{fam}"
{module_level}

@task({deco})
def leaf({params}):
    LOG.append("leaf")
{body}

@task()
def wrap(y):
    LOG.append("wrap")
    return ["w", y]


@task()
def main(x):
    LOG.append("main")
    return wrap(leaf(x))
'''

LINES = ["##fileformat=VCFv4.2", "##source=demo", "#CHROM POS", "chr1 100", "#C2"]


def fam(name, body, variants, module_level="", deco="", params="x", detect=True):
    return dict(name=name, body=body, variants=variants, module_level=module_level, deco=deco, params=params, detect=detect)


# body lines are indented by 4; {V} is the hole
FAMILIES = [
    fam("str_prefix_hash", '    return [l for l in x if l.startswith("{V}")]', ["#", "##", "#C"]),
    fam("percent_format_after_hash", '    return "#%d" % (len(x) * {V})', ["2", "3", "4"]),
    fam("fstring_after_hash", '    return f"#{{len(x) * {V}}}"', ["2", "3", "5"]),
    fam("format_spec_hash", '    return "{{:#x}}|{{}}".format(len(x), {V})', ["1", "2", "3"]),
    fam("shell_snippet", "    return \"grep -v '^#' in.vcf | head -n %d\" % {V}", ["1", "2", "10"]),
    fam("code_after_string_hash", '    tag = "#"; return [tag, len(x) * {V}]', ["2", "3", "7"]),
    fam("dict_key_hash", '    return {{"#": {V}, "n": len(x)}}', ["1", "2", "3"]),
    fam("triple_quoted_one_line", "    s = '''count # {V}'''\n    return s.split()", ["one", "two", "three"]),
    fam("triple_quoted_multi_line", "    s = '''\n    # header {V}\n    body\n    '''\n    return s.split() + [len(x)]",
        ["alpha", "beta", "gamma"]),
    fam("docstring_like_value", '    doc = """{V}"""\n    return [doc, len(x)]', ["Returns a.", "Returns b.", "Returns # c."]),
    fam("whitespace_in_string", '    return "a{V}b".split(" ")', [" ", "  ", "   "]),
    fam("indentation", "    total = 0\n    for i in range(3):\n        total += i\n    {V}total += 10\n    return total", ["", "    "]),
    fam("operator_spacing", "    return len(x) {V} 2", ["*", "**", "+"]),
    fam("default_argument", "    return [len(x), k]", ["2", "3", "(2, 3)"], params="x, k={V}"),
    fam("nested_helper", "    def helper(n):\n        return n * {V}\n    return helper(len(x))", ["2", "3", "4"]),
    fam("lambda_inside", "    f = lambda n: n + {V}\n    return f(len(x))", ["1", "2", "3"]),
    fam("comment_and_code", "    return len(x) * {V}  # times {V}", ["2", "3", "4"]),
    fam("hash_includes_constant", "    return len(x) * K", ["2", "3", "4"], module_level="K = {V}", deco="hash_includes=[K]"),
    fam("module_helper", "    return helper(len(x))", ["2", "3"], module_level="def helper(n):\n    return n * {V}", detect=False),
]
BY_NAME = {f["name"]: f for f in FAMILIES}


def source_of(family, v):
    f = BY_NAME[family]
    sub = lambda s: s.replace("{V}", "\x02").replace("{{", "{").replace("}}", "}").replace("\x02", v)
    return HEADER.format(fam=family, module_level=sub(f["module_level"]), deco=f["deco"], params=sub(f["params"]), body=sub(f["body"]))


def gen_case(rng, family, simple=False):
    f = BY_NAME[family]
    n = len(f["variants"])
    if simple or n == 2:
        seq = [0, 1, 0]
    else:
        seq = [0]
        for _ in range(rng.randrange(2, 4)):
            seq.append(rng.choice([i for i in range(n) if i != seq[-1]]))
    return dict(kind="src", family=family, seq=seq)


def run_src_history(case, workdir):
    """[(shared outcome, fresh outcome)]; outcome = (("ok", repr) | ("exc", text), sorted set of executed tasks)."""
    import shutil
    from redun import Scheduler
    from redun.config import Config
    from harness.props import c02_prog as cp
    os.makedirs(workdir, exist_ok=True)
    sys.path.insert(0, workdir)
    f = BY_NAME[case["family"]]

    def new_db(name):
        dst = os.path.join(workdir, name)
        shutil.copyfile(cp.template_db(), dst)
        return dst

    def run(mod, db):
        del LOG[:]
        s = Scheduler(config=Config({"backend": {"db_uri": f"sqlite:///{db}"}}))
        s.logger.disabled = True
        s.load()
        try:
            try:
                res = ("ok", repr(s.run(mod.main(LINES))))
            except Exception as e:  # noqa
                res = ("exc", f"{type(e).__name__}: {e}")
        finally:
            cp.close_sched(s)
        return res, sorted(set(LOG))

    out = []
    try:
        shared = new_db("shared.db")
        for step, vi in enumerate(case["seq"]):
            name = f"c02src_{case['family']}_{os.getpid()}_{abs(hash(workdir)) % 10**8}_s{step}"
            with open(os.path.join(workdir, name + ".py"), "w") as fh:
                fh.write(source_of(case["family"], f["variants"][vi]))
            importlib.invalidate_caches()
            mod = importlib.import_module(name)
            sh = run(mod, shared)
            db = new_db(f"fresh{step}.db")
            fr = run(mod, db)
            os.unlink(db)
            out.append((sh, fr))
            sys.modules.pop(name, None)
    finally:
        if workdir in sys.path:
            sys.path.remove(workdir)
    return out


def violations(case, real):
    """[(step, what)] — executions of the history that differ from the empty backend."""
    bad = []
    for j, (sh, fr) in enumerate(real):
        if sh[0] != fr[0]:
            bad.append((j, f"returns {sh[0]} on the shared backend, {fr[0]} on an empty backend"))
        elif not set(sh[1]) <= set(fr[1]):
            bad.append((j, f"executes {sh[1]} on the shared backend, {fr[1]} on an empty backend"))
    return bad
