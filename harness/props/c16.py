"""C16 — Value hashes depend only on the value (redun/value.py get_hash, redun/utils.py pickle_dumps)."""
from __future__ import annotations

import copyreg
import hashlib
import json
import math
import os
import random
import struct
import subprocess
import sys
from concurrent.futures import ThreadPoolExecutor

from harness.lib import (CASES, CORPUS, GEN, REPO, VERIF, Finding, PropertyCheck, TranslateError, coq_eval, cq_bytes,
                         cq_list, cq_Z, parse_nat_list, scratch_dir)
from harness.props import c16_values as cv
from translate import astutil, tr_valuehash

PINS = json.loads((VERIF / "translate" / "pins_C16.json").read_text())["pins"]

# known defect classes of the shipped code (keys of known_findings.json)
K_ITER = "shipped:set-or-frozenset-below-Set.get_hash-pickled-in-iteration-order"
K_PARTIAL = "shipped:top-level-set-of-frozensets-or-NaN:sorted-keeps-iteration-order"

HASH_SEEDS = ["0", "1", "2", "3", "4"]
ORDERS = [None, 1, 2]


# ------------------------------------------------------------------ Python object -> Coq term
class Conv:
    """Concrete object -> Model.ValueHash.value; oids from id() (numbered from 1 in first-visit order)."""

    def __init__(self):
        self.ids = {}
        self.keep = []

    def oid(self, o):
        k = id(o)
        if k not in self.ids:
            self.ids[k] = len(self.ids) + 1
            self.keep.append(o)
        return f"{self.ids[k]}%N"

    def cq(self, v):
        if v is None:
            return "VNone"
        if v is True:
            return "(VBool true)"
        if v is False:
            return "(VBool false)"
        t = type(v)
        if t is int:
            return f"(VInt {cq_Z(v)})"
        if t is float:
            return f"(VFloat {struct.unpack('>Q', struct.pack('>d', v))[0]}%N)"
        if t is str:
            return f"(VStr {self.oid(v)} " + ("[" + ";".join(str(ord(c)) for c in v) + "]%N" if v else "(@nil N)") + ")"
        if t is bytes:
            return f"(VBytes {self.oid(v)} {cq_bytes(v)})"
        if t is tuple:
            return f"(VNode KTuple {self.oid(v)} {cq_list([self.cq(x) for x in v])})"
        if t is list:
            return f"(VNode KList {self.oid(v)} {cq_list([self.cq(x) for x in v])})"
        if t is dict:
            items = []
            for k, x in v.items():
                items += [self.cq(k), self.cq(x)]
            return f"(VNode KDict {self.oid(v)} {cq_list(items)})"
        if t is set:
            return f"(VNode KSet {self.oid(v)} {cq_list([self.cq(x) for x in list(v)])})"
        if t is frozenset:
            return f"(VNode KFrozenset {self.oid(v)} {cq_list([self.cq(x) for x in list(v)])})"
        r = v.__reduce_ex__(3)
        if not (r[0] is copyreg.__newobj__ and r[1] == (t,) and all(x is None for x in r[3:]) and "." not in t.__qualname__):
            raise TypeError(f"outside the model universe: {t}")
        self.keep.append(r)
        st = [] if r[2] is None else [self.cq(r[2])]
        return (f"(VNode (KObj {cq_bytes(t.__module__.encode())} {cq_bytes(t.__qualname__.encode())}) "
                f"{self.oid(v)} {cq_list(st)})")


def contains(v, pred, top=True):
    if pred(v) and not top:
        return True
    if isinstance(v, (list, tuple, set, frozenset)):
        return any(contains(x, pred, False) for x in v)
    if isinstance(v, dict):
        return any(contains(k, pred, False) or contains(x, pred, False) for k, x in v.items())
    if dataclasses_is(v):
        return any(contains(x, pred, False) for x in vars(v).values())
    return False


def dataclasses_is(v):
    return type(v) in cv.CLASSES.values()


def may_be_unmodelled(v):
    """The model declines (explicit HUnmodelled) sorted() over floats / frozensets / two instances,
    and containers of more than 1000 items."""
    if contains(v, lambda x: isinstance(x, (list, tuple, set, frozenset, dict)) and len(x) > 1000, top=False):
        return True
    if type(v) is set:
        return contains(v, lambda x: isinstance(x, (float, frozenset)) or dataclasses_is(x))
    return False


# ------------------------------------------------------------------ spec generator
STRS = ["", "a", "b", "ab", "abc", "é", "\U0001f600", "k", "x" * 40, "builtins", "cbuiltins\nset\n", "A", "aa", "ba"]
INTS = [0, 1, -1, 2, 8, 16, 24, 255, 256, 65535, 65536, 2 ** 31 - 1, 2 ** 31, -2 ** 31, -2 ** 31 - 1, 2 ** 63, -2 ** 63,
        2 ** 64 + 8, -2 ** 39, 10 ** 30, -10 ** 40, 7, 100, 1000, 2 ** 61 - 1, 2 ** 61]
FLOATS = [0.0, -0.0, 1.5, -2.25, 1e100, float("inf"), float("nan"), 0.1, 3.0]


class Gen:
    def __init__(self, rng, subs=False):
        self.r = rng
        self.subs = subs        # also user-defined container subclasses (oracle only: outside the Coq pickle model)

    def sub(self, d, base=None, hashable=False):
        """instance of a class 1-3 levels below a builtin container"""
        r = self.r
        base = base or r.choice(["set", "set", "set", "fset", "dict", "list", "tuple"])
        n = r.choice([0, 1, 2, 3, 4, 5])
        if base in ("set", "fset"):
            payload = [base, self.elems(d - 1, n)]
        elif base == "dict":
            payload = ["dict", [[self.hashable(d - 1), self.value(d - 1)] for _ in range(n)]]
        else:
            payload = [base, [(self.hashable if hashable else self.value)(d - 1) for _ in range(n)]]
        return ["sub", base, r.choice([1, 2, 2, 3]), payload]

    def atom(self, kinds="nbifsy"):
        r = self.r
        k = r.choice(kinds)
        if k == "n":
            return ["n"]
        if k == "b":
            return ["t", r.random() < 0.5]
        if k == "i":
            return ["i", str(r.choice(INTS) if r.random() < 0.6 else r.randint(-10 ** r.randint(1, 25), 10 ** r.randint(1, 25)))]
        if k == "f":
            return ["f", (r.choice(FLOATS) if r.random() < 0.7 else r.uniform(-1e6, 1e6)).hex()]
        if k == "s":
            return ["s", r.choice(STRS) if r.random() < 0.6 else "".join(r.choice("abcxyzé中 ") for _ in range(r.randint(0, 6)))]
        return ["b", (r.choice([b"", b"a", b"\xff\x00", b"ab"]) if r.random() < 0.6 else bytes(r.randrange(256) for _ in range(r.randint(0, 5)))).hex()]

    def hashable(self, d, kinds="nbifsy"):
        r = self.r
        if d <= 0 or r.random() < 0.45:
            return self.atom(kinds)
        k = r.random()
        n = r.choice([0, 1, 2, 2, 3, 4])
        if self.subs and r.random() < 0.08:
            return self.sub(d, r.choice(["fset", "tuple"]), hashable=True)
        if k < 0.45:
            return ["tuple", [self.hashable(d - 1, kinds) for _ in range(n)]]
        if k < 0.8:
            return ["fset", self.elems(d - 1, n)]
        if k < 0.9:
            return ["Q", [self.hashable(d - 1, kinds)]]
        return ["S", [self.hashable(d - 1, kinds), self.hashable(d - 1, kinds)]]

    def elems(self, d, n):
        """element specs of a set: one of several regimes"""
        r = self.r
        m = r.random()
        if m < 0.2:
            return [self.atom("i") for _ in range(n)]
        if m < 0.4:
            return [self.atom("s") for _ in range(n)]
        if m < 0.5:
            return [["tuple", [self.atom("is"), self.hashable(d, "is")]] for _ in range(n)]
        if m < 0.6:
            return [self.atom("isbn") for _ in range(n)]            # mixed scalars: sorted() raises
        return [self.hashable(d) for _ in range(n)]

    def value(self, d):
        r = self.r
        if d <= 0 or r.random() < 0.2:
            return self.atom()
        k = r.random()
        n = r.choice([0, 1, 2, 2, 3, 4, 5])
        if self.subs and r.random() < 0.1:
            return self.sub(d)
        if k < 0.2:
            return ["list", [self.value(d - 1) for _ in range(n)]]
        if k < 0.3:
            return ["tuple", [self.value(d - 1) for _ in range(n)]]
        if k < 0.45:
            return ["dict", [[self.hashable(d - 1), self.value(d - 1)] for _ in range(n)]]
        if k < 0.7:
            return ["set", self.elems(d - 1, n)]
        if k < 0.82:
            return ["fset", self.elems(d - 1, n)]
        if k < 0.9:
            return ["P", [self.value(d - 1), self.value(d - 1)]]
        if k < 0.95:
            return ["Q", [self.value(d - 1)]]
        return ["dup", self.value(d - 1)]

    def top(self):
        r = self.r
        k = r.random()
        if self.subs and r.random() < 0.25:
            return self.sub(r.randint(1, 3))
        if k < 0.3:
            return ["set", self.elems(r.randint(0, 2), r.choice([0, 1, 2, 3, 4, 6, 9]))]
        return self.value(r.randint(0, 3))


def S(x):
    return ["s", x]


WITNESSES = [   # (name, spec, reproduces the Coq refutation witness?)
    ("list>set [{'a','b','c','d'}]", ["list", [["set", [S("a"), S("b"), S("c"), S("d")]]]], True),
    ("frozenset({'a','b','c','d'})", ["fset", [S("a"), S("b"), S("c"), S("d")]], True),
    ("dict-value>set {'k': {'a','b','c'}}", ["dict", [[S("k"), ["set", [S("a"), S("b"), S("c")]]]]], True),
    ("set>tuple>frozenset {(1, frozenset('abcd'))}", ["set", [["tuple", [["i", "1"], ["fset", [S("a"), S("b"), S("c"), S("d")]]]]]], True),
    ("top-level set of frozensets", ["set", [["fset", [S("a")]], ["fset", [S("b")]], ["fset", [S("c")]], ["fset", [S("d")]]]], False),
    ("dataclass field set", ["P", [["set", [S("a"), S("b"), S("c"), S("d")]], ["i", "1"]]], False),
    ("insertion order only {8, 16, 24} in a list", ["list", [["set", [["i", "8"], ["i", "16"], ["i", "24"]]]]], False),
]
STABLE_FIXED = [   # must be stable in every variant
    ["set", [["i", "1"], ["i", "2"], ["i", "3"]]], ["set", [S("a"), S("b"), S("c"), S("d")]],
    ["list", [S("a"), ["i", "5"], ["dict", [[S("k"), ["tuple", [["n"], ["t", True]]]]]]]],
    ["set", [["i", "8"], ["i", "16"], ["i", "24"], ["i", "0"]]], ["P", [["i", "1"], S("u")]],
]


ABCD = [S("alpha"), S("beta"), S("gamma"), S("delta")]
SUB_STABLE = (   # user-defined classes 1, 2, 3 levels below the builtin containers: stable in every variant
    [["sub", "set", d, ["set", ABCD]] for d in (1, 2, 3)]
    + [["sub", "set", d, ["set", [["i", "0"], ["i", "8"], ["i", "16"]]]] for d in (1, 2, 3)]
    + [["sub", b, d, [b, [S("a"), ["i", "1"]]]] for b in ("list", "tuple") for d in (1, 2, 3)]
    + [["sub", "dict", d, ["dict", [[S("k"), ["i", "1"]], [S("j"), ["n"]]]]] for d in (1, 2, 3)]
    + [["sub", "fset", d, ["fset", [S("a")]]] for d in (1, 2, 3)])


def spec_nodes(spec, top=True):
    if spec[0] == "sub":        # an instance of a subclass is judged like the container it derives from
        yield from spec_nodes(spec[3], top)
        return
    yield spec, top
    t = spec[0]
    if t in ("list", "tuple", "set", "fset") or t in cv.CLASSES:
        for x in spec[1]:
            yield from spec_nodes(x, False)
    elif t == "dict":
        for k, v in spec[1]:
            yield from spec_nodes(k, False)
            yield from spec_nodes(v, False)
    elif t == "dup":
        yield from spec_nodes(spec[1], False)


def in_class_iter(spec):
    """a set/frozenset with >= 2 listed elements reaches pickle_dumps in iteration order"""
    return any(s[0] in ("set", "fset") and len(s[1]) >= 2 and not (top and s[0] == "set") for s, top in spec_nodes(spec))


def in_class_partial(spec):
    while spec[0] == "sub":
        spec = spec[3]
    if spec[0] != "set" or len(spec[1]) < 2:
        return False
    return any((s[0] == "fset") or (s[0] == "f" and math.isnan(float.fromhex(s[1]))) for s, top in spec_nodes(spec) if not top)


# ------------------------------------------------------------------ running Coq nat cases
PREAMBLE = """Definition code (r : hres) (tag pickled : bytes) : nat :=
  if hres_is r tag pickled then 1 else if hres_unmodelled r then 2 else if hres_type_error r then 3 else 0.
"""


def run_nat_cases(tag, requires, terms, chunk=150, workers=4):
    shards = [terms[i:i + chunk] for i in range(0, len(terms), chunk)]

    def one(k):
        body = ("From Coq Require Import List ZArith NArith Ascii Bool.\nImport ListNotations.\nOpen Scope list_scope.\n"
                + PREAMBLE + "Eval vm_compute in ([\n  " + ";\n  ".join(shards[k]) + "\n] : list nat).\n")
        ok, out = coq_eval(requires, body, f"{tag}_{k}", timeout=900)
        lst = parse_nat_list(out) if ok else None
        if lst is not None:             # keep the case file only when something went wrong
            (CASES / f"{tag}_{k}.v").unlink(missing_ok=True)
        return lst, out

    with ThreadPoolExecutor(max_workers=workers) as ex:
        res = list(ex.map(one, range(len(shards))))
    codes, diags = [], []
    for k, (lst, out) in enumerate(res):
        if lst is None or len(lst) != len(shards[k]):
            diags.append(f"shard {k}: coqc failed or unparsable output:\n{out[-1500:]}")
            codes += [None] * len(shards[k])
        else:
            codes += lst
    return codes, diags


# ------------------------------------------------------------------ children
def run_children(specs, seeds=HASH_SEEDS, orders=ORDERS, workers=3):
    """-> {(hashseed, order): [result per spec]} from separate interpreter processes."""
    tmp = scratch_dir("rv_c16_")
    req = json.dumps({"specs": specs, "orders": orders})
    env = dict(os.environ)
    env["PYTHONPATH"] = f"{REPO}:{VERIF}"

    def one(seed):
        e = dict(env)
        e["PYTHONHASHSEED"] = seed
        p = subprocess.run([sys.executable, "-c", cv.CHILD], input=req, capture_output=True, text=True, cwd=tmp,
                           env=e, timeout=1200)
        if p.returncode != 0:
            raise RuntimeError(f"child PYTHONHASHSEED={seed} failed: {p.stderr[-2000:]}")
        return seed, json.loads(p.stdout)

    try:
        with ThreadPoolExecutor(max_workers=workers) as ex:
            res = list(ex.map(one, seeds))
    finally:
        import shutil
        shutil.rmtree(tmp, ignore_errors=True)
    out = {}
    for seed, d in res:
        for o, lst in d.items():
            out[(seed, o)] = lst
    return out


class Check(PropertyCheck):
    id = "C16"
    module = "Props.C16"
    theorems = ["C16_refuted_nested_set", "C16_refuted_frozenset", "C16_refuted_dict_value", "C16_refuted_set_of_tuples",
                "C16_refuted_digest", "C16_shipped_setfree_partial", "C16_shipped_int_set_partial",
                "C16_order_independent_fixed", "C16_digest_fixed", "C16_veq_sym", "C16_wf_invariant",
                "C16_fixed_preserves_setfree", "C16_dispatch_history_independent",
                "C16_dispatch_bases_only_refuted", "C16_nonvacuous"]
    extra_modules = ["Base.Lit"]
    allowed_axioms = []
    section_premises = [
        "C16_refuted_digest: the digest H is injective on the pre-images compared (collision resistance of SHA-512 "
        "truncated to 40 hex digits) — an explicit hypothesis of the theorem",
        "C16_order_independent_fixed: wf v — within one set, different elements have different canonical pickles "
        "(pickle.loads inverts pickle.dumps and the elements of a Python set are pairwise unequal); sorted() is any "
        "deterministic function of the element sequence it is given (universally quantified sorted_fn)",
    ]
    assumptions = [
        "PYTHONHASHSEED and the insertion history of a set influence get_hash only through the iteration order of "
        "sets / frozensets (dict order is insertion order; id()-based sharing is the same in every run of the same "
        "program); the implementation oracle checks this in separate interpreter processes",
        "CPython 3.12 pickle protocol 3 (C pickler and pickle._Pickler agree on the model universe); re-tested "
        "bit-exactly by the correspondence run",
        "model universe: None, bool, int, float, str (valid code points), bytes, tuple, list, dict, set, frozenset, "
        "instances pickled by copyreg.__newobj__ with a state (dataclasses); no recursive objects, no set/dict "
        "subclasses; containers over 1000 items and sorted() over floats/frozensets/instances are explicit "
        "HUnmodelled results",
        "an exception raised identically in every process (sorted() on unorderable elements: builtins TypeError) is "
        "not a hash difference; the oracle flags only differing hashes or inconsistent raising",
    ]
    rule = ("structured random values (scalars incl. huge ints / NaN / non-ASCII, nested list/tuple/dict/set/frozenset, "
            "dataclass instances, shared objects, mixed-type and colliding-int sets); correspondence: hash pre-image "
            "(tag + pickle bytes) of the real get_hash vs the Coq model under the regenerated configuration, bit-exact; "
            "oracle: every spec hashed in 5 interpreter processes (PYTHONHASHSEED 0-4) x 3 insertion orders, by "
            "TypeRegistry.get_hash and by RedunBackendDb.record_value (in-memory sqlite; the hash recorded for task "
            "arguments/results), which must agree; instances of user-defined classes 1-3 levels below set/frozenset/dict/"
            "list/tuple (top-level and nested), each hashed in a process that has not seen its parent classes and "
            "again after instances of them were hashed; "
            "non-trivial = contains a container; distinct by spec")

    # ---------------------------------------------------------------- translate
    def translate(self):
        self.variant = None
        try:
            text, info = tr_valuehash.translate(pins=PINS)
        except astutil.TranslateError as e:
            raise TranslateError(str(e))
        self.variant = info["variant"]
        GEN.mkdir(exist_ok=True)
        p = GEN / "C16Gen.v"
        p.write_text(text)
        q = GEN / "C16Tie.v"
        q.write_text(info["tie"])
        return [p, q]

    # ---------------------------------------------------------------- correspondence
    def observe(self, v):
        """real get_hash with its pre-image recorded -> ("ok", tag, bytes, hash) | ("TypeError",)"""
        import builtins

        import redun.value as rvalue
        rec = []
        orig = rvalue.hash_tag_bytes

        def spy(tag, b):
            rec.append((tag, b))
            return orig(tag, b)

        rvalue.hash_tag_bytes = spy
        try:
            h = rvalue.get_type_registry().get_hash(v)
        except builtins.TypeError:
            return ("TypeError",)
        finally:
            rvalue.hash_tag_bytes = orig
        if len(rec) != 1:
            return ("calls", len(rec))
        return ("ok", rec[0][0], rec[0][1], h)

    def correspond(self):
        import redun  # noqa: registers the built-in Value classes
        from redun.value import get_type_registry
        reg = get_type_registry()
        universe = [type(None), bool, int, float, str, bytes, tuple, list, dict, set, frozenset, object, *cv.CLASSES.values()]
        prox = {t.__name__: p.__name__ for t, p in reg._raw2proxy_type.items() if t in universe}
        for t in universe:      # resolve by MRO, as get_hash would
            reg._get_proxy_type(t)
        prox = {t.__name__: p.__name__ for t, p in reg._raw2proxy_type.items() if t in universe}
        self.ob("correspondence", f"run-time registry dispatch on the model universe is bool->Bool, set->Set only: {prox}",
                prox == {"bool": "Bool", "set": "Set"}, str(prox))
        g = Gen(self.rng)
        n = 500 if self.tier == "quick" else 6000
        specs = [w[1] for w in WITNESSES] + STABLE_FIXED
        specs += [["list", [["i", str(i)] for i in range(300)]], ["list", [["i", "0"]] * 1001],
                  ["set", [S("s%d" % i) for i in range(70)]], ["dict", [[["i", str(i)], ["n"]] for i in range(260)]]]
        corpus = CORPUS / "C16.jsonl"
        if corpus.exists():
            specs += [json.loads(l)["spec"] for l in corpus.read_text().splitlines() if l.strip()]
        specs += [g.top() for _ in range(n)]
        terms, expect, descr = [], [], []
        framing_bad = None
        for i, sp in enumerate(specs):
            v = cv.build(sp, random.Random(self.rng.random()) if i % 2 else None)
            c = Conv()
            try:
                term = c.cq(v)
            except TypeError as e:
                self.stat("correspondence", "skipped:" + str(e)[:40])
                continue
            obs = self.observe(v)
            may = may_be_unmodelled(v)
            if obs[0] == "ok":
                _, tag, b, h = obs
                pre = b"l%d:%se" % (len(tag), tag.encode()) + b
                if hashlib.sha512(pre).hexdigest()[:40] != h and framing_bad is None:
                    framing_bad = sp
                terms.append(f"code (get_hash_py gen {term}) {cq_bytes(tag.encode())} {cq_bytes(b)}")
                expect.append((1, 2) if may else (1,))
                self.stat("observed", f"hash tag={tag}")
            elif obs[0] == "TypeError":
                terms.append(f"code (get_hash_py gen {term}) [] []")
                expect.append((3, 2) if may else (3,))
                self.stat("observed", "TypeError from sorted()")
            else:
                self.ob("correspondence", "get_hash calls hash_tag_bytes exactly once", False, f"{obs} on {sp}")
                continue
            descr.append(sp)
            self.stat("top_type", type(v).__name__)
            self.count(json.dumps(sp) if isinstance(v, (list, tuple, dict, set, frozenset)) or dataclasses_is(v) else None)
            self.sample({"spec": json.dumps(sp)[:200], "observed": obs[0], "tag": obs[1] if obs[0] == "ok" else None}, 5)
        self.ob("correspondence", "real hash == sha512(bencode([tag]) ++ pickle bytes)[:40] on every case",
                framing_bad is None, f"first failing spec: {framing_bad}")
        codes, diags = run_nat_cases("C16", ["Base.Decimal", "Base.Lit", "Model.ValueHash", "Gen.C16Gen"], terms)
        bad = [i for i, (c, e) in enumerate(zip(codes, expect)) if c not in e]
        for c in codes:
            self.stat("model_result", {0: "MISMATCH", 1: "pre-image bit-exact", 2: "unmodelled (declined)",
                                       3: "TypeError", None: "coq-failed"}[c])
        self.ob("correspondence",
                f"model (regenerated cfg, variant {self.variant}) == real get_hash pre-image on {len(terms)} values "
                f"({sum(1 for c in codes if c == 1)} bit-exact, {sum(1 for c in codes if c == 3)} TypeError, "
                f"{sum(1 for c in codes if c == 2)} declined by the model)",
                not bad and not diags,
                "\n".join(diags) + "".join(f"\nmismatch (model code {codes[i]}, expected {expect[i]}): {json.dumps(descr[i])[:400]}"
                                            for i in bad[:8]))
        self.mismatch_specs = [descr[i] for i in bad]

    # ---------------------------------------------------------------- oracle
    def classify(self, spec, results):
        """results: list of per-(process, order) outcomes of one spec -> None | (key, what)"""
        distinct = sorted(set(results))
        sj = json.dumps(spec)[:240]
        rec = [r for r in distinct if "|recorded:" in r]
        if rec:
            # never explained by the known classes: those make get_hash itself unstable, while the
            # recorded hash (CallNode.value_hash / Argument.value_hash) still equals get_hash
            return (f"recorded-hash-differs-from-get_hash:{sj}",
                    "RedunBackendDb.record_value(v) (the hash recorded for task arguments/results) differs from "
                    f"TypeRegistry.get_hash(v); {len(distinct)} distinct (get_hash|recorded) outcomes across "
                    f"processes/insertion orders, e.g. {rec[0]}")
        hist = [r for r in distinct if "|after-parents:" in r]
        if hist:
            return (f"dispatch-depends-on-history:{sj}",
                    "the hash of one value changes within a process once instances of the parent classes of its "
                    f"class were hashed (outcome before|after-parents:outcome after): {hist[0]}")
        if len(distinct) == 1:
            return None
        raises = [r for r in distinct if r.startswith("raise:")]
        if raises:
            return (f"raise-inconsistent:{sj}", f"get_hash raises in some processes/orders only: {distinct[:4]}")
        if self.variant == "fixed":
            return (f"unstable:fixed:{sj}", f"{len(distinct)} different hashes for one value (repaired variant)")
        if in_class_iter(spec):
            return (K_ITER, "value containing a set/frozenset below the top-level Set.get_hash hashes differently "
                            "across PYTHONHASHSEED / insertion order")
        if in_class_partial(spec):
            return (K_PARTIAL, "top-level set whose elements sorted() cannot order hashes differently across "
                               "PYTHONHASHSEED / insertion order")
        return (f"unstable:{sj}", f"{len(distinct)} different hashes for one value outside the known defect classes")

    def oracle(self):
        g = Gen(self.rng, subs=True)
        n = 400 if self.tier == "quick" else 8000
        specs = [w[1] for w in WITNESSES] + STABLE_FIXED + SUB_STABLE + list(getattr(self, "mismatch_specs", []))[:20]
        corpus = CORPUS / "C16.jsonl"
        if corpus.exists():
            specs += [json.loads(l)["spec"] for l in corpus.read_text().splitlines() if l.strip()]
        specs += [g.top() for _ in range(n)]
        seeds = HASH_SEEDS + ([str(self.rng.randrange(5, 2 ** 31))] if self.tier != "quick" else [])
        res = run_children(specs, seeds)
        keys = sorted(res)
        unstable_w = []
        n_unstable = 0
        for i, sp in enumerate(specs):
            outcomes = [res[k][i] for k in keys]
            self.evaluations += len(outcomes)
            self.stat("oracle_outcome", "raises" if outcomes[0].startswith("raise:") else "hash")
            c = self.classify(sp, outcomes)
            if i < len(WITNESSES):
                unstable_w.append(c is not None)
            if c is None:
                continue
            n_unstable += 1
            key, what = c
            self.stat("oracle_unstable", key.split(":")[0] + ":" + (key.split(":")[1] if key.startswith("shipped") else "other"))
            self.findings.append(Finding(key, what, {
                "kind": "unstable", "spec": sp, "hash_seeds": seeds, "orders": ORDERS,
                "distinct_outcomes": len(set(outcomes)),
                "outcomes": {f"PYTHONHASHSEED={k[0]},order={k[1]}": res[k][i] for k in keys[:8]},
                "how": "PYTHONPATH=/repo:/verif python -c 'from harness.props import c16_values as m; "
                       "print(m.hash_all([SPEC],[None,1,2]))' under different PYTHONHASHSEED; an outcome "
                       "'H|recorded:R' means get_hash(v) == H but backend.record_value(v) == R"}))
        self.stat("oracle", "specs", len(specs))
        self.stat("oracle", "processes", len(seeds))
        self.stat("oracle", "unstable_specs", n_unstable)
        must = [w[0] for w, u in zip(WITNESSES, unstable_w) if w[2] and not u]
        if self.variant == "shipped":
            self.ob("oracle", "the Coq refutation witnesses reproduce on the real code (shipped variant): "
                    + ", ".join(w[0] for w in WITNESSES if w[2]), not must, "stable on the real code: " + "; ".join(must))
        elif self.variant == "fixed":
            self.ob("oracle", "the refutation witnesses of the shipped variant are stable on the repaired code",
                    not any(unstable_w), str([w[0] for w, u in zip(WITNESSES, unstable_w) if u]))
        # report first an input whose outcome also differs between processes / insertion orders, smallest first
        self.findings.sort(key=lambda f: (f.replay.get("distinct_outcomes", 1) < 3, len(json.dumps(f.replay.get("spec", "")))))
        new = [f for f in self.findings if f.key not in (K_ITER, K_PARTIAL)]
        self.ob("oracle", f"implementation oracle: {len(specs)} values x {len(keys)} (process, insertion order) pairs, get_hash and "
                f"record_value (recorded hash == get_hash everywhere); "
                f"{n_unstable} unstable, all within the known defect classes" if not new else
                f"implementation oracle: {len(new)} value(s) hash differently outside the known defect classes",
                not new, "; ".join(f.key for f in new[:5]))

    # ---------------------------------------------------------------- replay
    def replay(self, doc):
        r = doc.get("replay", {})
        if r.get("kind") == "unstable":
            res = run_children([r["spec"]], r.get("hash_seeds", HASH_SEEDS))
            outs = sorted({v[0] for v in res.values()})
            print("replay:", json.dumps(r["spec"])[:300], "->", outs[:6])
            bad = len(outs) > 1 or any("|recorded:" in o or "|after-parents:" in o for o in outs)
            print("replay:", "still fails (different outcomes for one value, or recorded hash != get_hash)" if bad
                  else "holds now")
            return 1 if bad else 0
        print("replay: nothing to replay (no failing input was found); broken obligations:",
              json.dumps(doc.get("broken_obligations", []))[:3000])
        return 1
