"""C09 — Executions terminate with every job settled (resource-queue half: no lost wake-up)."""
from __future__ import annotations

import random

from harness import jobcheck, sched
from harness.lib import Finding, PropertyCheck
from harness.progs import vm

A = ("a", "leaf", 7, (), {"limits": {"r0": 1}})
# x holds r0 while the twins a, a and then b queue up for it (the Coq witness c09_witness)
WITNESS = ("root", "list", 0, (
    ("x", "leaf", 1, (), {"limits": {"r0": 1}}),
    ("p1", "list", 1, (A,), None),
    ("p2", "list", 2, (A,), None),
    ("p3", "list", 3, (("b", "leaf", 9, (), {"limits": {"r0": 1}}),), None),
), None)
PRIORITY = ["root", "p1", "p2", "p3", "x", "a", "b"]


# twins whose first copy returns a nested call needing the same resource, queued behind a holder
LEAF = ("leaf", "leaf", 1, (), {"limits": {"r0": 1}})
MID = ("mid", "list", 1, (LEAF,), {"limits": {"r0": 1}})
WITNESS2 = ("root", "list", 0, (("blocker", "leaf", 0, (), {"limits": {"r0": 1}}),
                                ("wa", "list", 1, (MID,), None), ("wb", "list", 2, (MID,), None)), None)
PRIORITIES2 = [["root", "wa", "wb", "blocker", "mid", "leaf"], ["root", "wb", "wa", "blocker", "mid", "leaf"],
               ["root", "wa", "wb", "blocker", "leaf", "mid"]]


def feasible(spec, limits):
    opts = spec[4] if len(spec) > 4 and spec[4] else {}
    lim = opts.get("limits") or {}
    if isinstance(lim, list):
        lim = {k: 1 for k in lim}
    return all(c <= limits.get(k, 1) for k, c in lim.items()) and all(feasible(ch, limits) for ch in spec[3])


KF_EARLYRETURN = "early-return:run-returns-while-created-jobs-are-never-settled"
KF_FAILFAST = "fail-fast:run-raises-while-created-jobs-are-never-settled"


class Check(PropertyCheck):
    id = "C09"
    module = "Props.C09"
    extra_modules = ["Model.JobTrace", "Props.C09Tree"]
    theorems = ["C09_waiting_has_waker_partial", "C09_holder_is_running", "C09_no_stuck_waiting",
                "C09_refuted_without_recheck", "C09_witness_fixed",
                "C09_no_lost_event", "C09_quiescent_all_settled", "C09_quiescent_every_job_settled", "C09_quiescent_nonvacuous",
                "C09_event_lowers_potential", "C09_events_bounded", "C09_events_bounded_nonvacuous",
                "C09_tree_steps_bounded", "C09_tree_step_decreases", "C09_tree_quiescent_settled", "C09_tree_nonvacuous",
                "C09_fail_fast_leaves_unsettled_refuted", "C09_early_return_leaves_unsettled_refuted"]
    theorem_modules = ["Props.C09Tree"]      # closed-program termination on the tree machine
    variant = None
    assumptions = [
        "every task function terminates and the workflow is finite (premise of the property; the open model leaves the creation of jobs to the schedule)",
        "no job demands more of a resource than its limit (feas_op premise)",
        "the open machine leaves job creation to the schedule: C09_events_bounded bounds the events processed by (7+N)*N for N jobs created; that a program creates finitely many jobs is the closed tree machine's theorem (Props/C09Tree.v)",
    ]
    rule = ("random feasible programs (twins, failures, catch, limits on 2 resources) on the real Scheduler with a "
            "controlled executor; the oracle flags queue-empty + nothing-running + workflow-pending; non-trivial = >= 3 jobs")

    def translate(self):
        p, self.variant = jobcheck.translate_variant("C09", "")
        v = self.variant
        if v["release_if_holds"] and v["recheck_on_skip"]:
            tie = ("Lemma C09_tie : release_if_holds gen_variant = true /\\ recheck_on_skip gen_variant = true.\n"
                   "Proof. split; reflexivity. Qed.\n"
                   "(* C09_no_lost_event / C09_quiescent_all_settled apply to the code as translated *)\n"
                   "Lemma C09_tie_owner : pending_owner_safe gen_variant = true.\nProof. reflexivity. Qed.\n")
        else:
            tie = ("(* the current code does not re-check waiting jobs on the collapse/cache-hit early returns: "
                   "C09_refuted_without_recheck is the applicable theorem *)\n"
                   "Lemma C09_tie_shipped : recheck_on_skip gen_variant = false \\/ release_if_holds gen_variant = false.\n"
                   "Proof. vm_compute; auto. Qed.\n")
        p.write_text(p.read_text() + tie)
        return [p]

    def correspond(self):
        n = 80 if self.tier == "quick" else 1500
        if self.variant is None:
            self.runs = [jobcheck.random_run(self.rng, infeasible=0.0) for _ in range(n)]
            return
        self.runs, self.failing = jobcheck.correspond_traces(self, self.variant, n, "C09", infeasible=0.0)

    def oracle(self):
        out = sched.run_program(lambda: vm.call(WITNESS), {"r0": 1, "r1": 1}, random.Random(self.seed),
                                complete_prob=0.0, priority=PRIORITY)
        out["limits"], out["spec"] = {"r0": 1, "r1": 1}, WITNESS
        runs = [("witness", out)]
        for pr in PRIORITIES2:
            o2 = sched.run_program(lambda: vm.call(WITNESS2), {"r0": 1, "r1": 1}, random.Random(self.seed),
                                   complete_prob=0.0, priority=pr)
            o2["limits"], o2["spec"] = {"r0": 1, "r1": 1}, WITNESS2
            runs.append(("witness2", o2))
        for sd in range(6):
            o2 = sched.run_program(lambda: vm.call(WITNESS2), {"r0": 1, "r1": 1}, random.Random(self.seed * 100 + sd))
            o2["limits"], o2["spec"] = {"r0": 1, "r1": 1}, WITNESS2
            runs.append(("witness2-random", o2))
        runs += [("random", o) for o in getattr(self, "runs", [])]
        # a holder of a contended resource FAILS while others wait, and the execution goes on without any other
        # completion (catch_all waits for every term before it recovers): the release on the reject path must wake the
        # waiters (seeded change C09b)
        rng = random.Random(self.seed + 7)
        for i in range(10 if self.tier == "quick" else 150):
            lim = {"r0": rng.choice([1, 1, 2]), "r1": 1}
            kids = []
            for j in range(rng.randint(2, 5)):
                dem = {"limits": {"r0": 1}}
                kids.append((f"wf{i}_{j}", "raise", f"boom{j}", (), dem) if rng.random() < 0.4 or j == 0
                            else (f"wl{i}_{j}", "leaf", j, (), dem))
            rng.shuffle(kids)
            spec = (f"wa{i}", "all", 1, tuple(kids), None)
            o2 = sched.run_program(lambda: vm.call(spec), lim, rng, complete_prob=rng.choice([0.0, 0.3]))
            o2["limits"], o2["spec"] = lim, spec
            runs.append(("failing-holder", o2))
        # jobs with limits rejected BEFORE they reach an executor (unknown executor name), the error caught, while other jobs
        # contend for the same resource: the units must come back and the waiters be woken (seeded change C09d)
        for i in range(10 if self.tier == "quick" else 150):
            lim = {"r0": 1, "r1": 1}
            kids = []
            for j in range(rng.randint(2, 5)):
                dem = {"limits": {"r0": 1}}
                if rng.random() < 0.4 or j == 0:
                    bad_leaf = (f"qx{i}_{j}", "leaf", j, (), {**dem, "executor": "no_such_executor"})
                    kids.append((f"qc{i}_{j}", "catchany", 0, (bad_leaf,), None))
                else:
                    kids.append((f"ql{i}_{j}", "leaf", j, (), dem))
            spec = (f"qs{i}", rng.choice(["list", "seq"]), 0, tuple(kids), None)
            o2 = sched.run_program(lambda: vm.call(spec), lim, rng, complete_prob=rng.choice([0.0, 0.3]))
            o2["limits"], o2["spec"] = lim, spec
            runs.append(("pre-executor-reject", o2))
        # a caught failure lets the root resolve while siblings of the failed call are still in flight
        spec = ("er_root", "catch", 1, (("er_l", "list", 0, (("er_b", "raise", "boom", (), None), ("er_s1", "leaf", 1, (), None),
                                                           ("er_s2", "leaf", 2, (), None)), None),), None)
        for sd in range(4):
            o2 = sched.run_program(lambda: vm.call(spec), {"r0": 1, "r1": 1}, random.Random(self.seed * 10 + sd), complete_prob=0.2)
            o2["limits"], o2["spec"] = {"r0": 1, "r1": 1}, spec
            runs.append(("caught-failure", o2))
        nd = 0
        for kind, o in runs:
            self.evaluations += 1
            if "deadlock" not in o or not feasible(o["spec"], o["limits"]):
                continue
            nd += 1
            tr = o["tracer"]
            waiting = [tr.jobid[j.id] for j, _ in o["scheduler"]._jobs_pending_limits]
            used = {k: v for k, v in o["scheduler"].limits_used.items()}
            lost = bool(waiting) and all(v == 0 for v in used.values())
            key = ("lost-wakeup:nominated-job-collapsed-or-cached" if lost else f"deadlock:{o['spec']!r}"[:200])
            self.findings.append(Finding(key, f"event queue empty, nothing running, workflow pending; jobs {waiting} wait "
                                              f"for resources with limits_used={used}",
                                         {"kind": kind, "spec": repr(o["spec"]), "limits": o["limits"],
                                          "priority": PRIORITY if kind == "witness" else None, "waiting": waiting}))
        # "each job created ends done, cached or failed": when run raises, jobs still in flight are never settled
        nu = 0
        for kind, o in runs:
            if "error" not in o:
                continue
            tr = o["tracer"]
            left = [tr.jobid[j.id] for j in tr.jobobj if tr.status.get(j.id) not in (1, 2)]
            if left:
                nu += 1
                self.findings.append(Finding(KF_FAILFAST, f"run raised {o['error']!r} while jobs {left[:6]} were created and "
                                             f"never settled (their Job rows stay RUNNING)",
                                             {"kind": kind, "spec": repr(o["spec"]), "limits": o["limits"], "unsettled": left}))
        # the same for runs that RETURN: quiescent => every job created has ended (C09_quiescent_all_settled)
        nr = 0
        for kind, o in runs:
            if "result" not in o:
                continue
            tr = o["tracer"]
            left = [tr.jobid[j.id] for j in tr.jobobj if tr.status.get(j.id) not in (1, 2)]
            if left:
                nr += 1
                self.findings.append(Finding(KF_EARLYRETURN, f"run returned {o['result']!r} while jobs {left[:6]} were created "
                                             f"and never settled", {"kind": kind, "spec": repr(o["spec"]),
                                                                    "limits": o["limits"], "unsettled": left}))
        self.stat("oracle", "returning_runs_with_unsettled_jobs", nr)
        # C09_events_bounded on the real loop: events processed <= (7 + N) * N for N jobs created
        worst = 0.0
        for kind, o in runs:
            ops = [op for op, _ in o.get("trace", [])]
            n = sum(1 for op in ops if op[0] == "ONew")
            pops = sum(1 for op in ops if op[0] == "OPop")
            if n:
                worst = max(worst, pops / float((7 + n) * n))
            if pops > (7 + n) * n:
                self.findings.append(Finding("event-bound:more-events-than-(7+N)N",
                                             f"the event loop processed {pops} events for {n} jobs (> (7+N)*N = {(7 + n) * n})",
                                             {"kind": kind, "spec": repr(o["spec"]), "limits": o["limits"]}))
        self.stat("oracle", "max_events_over_bound_percent", int(worst * 100))
        self.stat("oracle", "failing_runs_with_unsettled_jobs", nu)
        self.stat("oracle", "runs", len(runs))
        self.stat("oracle", "deadlocks_in_feasible_runs", nd)
        self.ob("oracle", "quiescence oracle ran on the real event loop (queue empty + nothing running + workflow pending)", True)
        fixed = self.variant is not None and self.variant["release_if_holds"] and self.variant["recheck_on_skip"]
        if self.variant is not None and not fixed and not any(f.key.startswith("lost-wakeup") for f in self.findings):
            self.ob("tie-witness", "C09_refuted_without_recheck witness reproduces on the real code", False,
                    "translator says no re-check but the witness schedule did not deadlock")

    def replay(self, doc):
        r = doc.get("replay", {})
        if "spec" in r:
            spec = eval(r["spec"])
            for sd in range(30):
                out = sched.run_program(lambda: vm.call(spec), r["limits"], random.Random(sd),
                                        complete_prob=0.0 if r.get("priority") else 0.3, priority=r.get("priority"))
                if "deadlock" in out:
                    print("replay: still deadlocks (schedule seed", sd, ")")
                    return 1
            print("replay: no deadlock in 30 schedules")
            return 0
        print("replay: nothing to replay:", doc.get("broken_obligations"))
        return 1
