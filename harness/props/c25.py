"""C25 — Handle lineage and rollback follow the state model.

Two levels, both on the real code:
  * backend level: histories of advance_handle (single parent, merged parents, forks, unrecorded fork
    chains, re-derivations) and rollback_handle on a real RedunBackendDb;
  * workflow level: histories of scheduler runs of generated handle pipelines (steps, implicit forks,
    merge_handles, handles created in sub tasks) whose tasks are edited and reverted between runs.
Every backend call is traced.  The trace is replayed (a) through the Coq model with the configuration
regenerated from the source (correspondence) and (b) through an independent Python statement of the
reference lineage model (oracle).  Scheduler._get_cache is observed for replays of results that
contain an invalidated handle state.
"""
from __future__ import annotations

import itertools
import json
import logging
import os
import pickle
import shutil

from harness.lib import (CORPUS, GEN, Finding, PropertyCheck, TranslateError, run_bool_cases, scratch_dir)
from translate import astutil, tr_handles

KEY_ROLLBACK = "rollback_handle:descendant-behind-invalid-row-stays-valid"
KEY_CSE = "_get_cache:CSE-hit-replays-invalidated-handle"
KEY_NOROLLBACK = "_exec_job_main_thread:executing-job-does-not-roll-back-its-handle-argument"
NS = "c25"


def _handle_class():
    """Defined lazily so that importing this module does not import redun."""
    global C25H
    try:
        return C25H
    except NameError:
        pass
    from redun import Handle

    class C25H(Handle):
        type_name = "c25.C25H"

        def __init__(self, name, k=0, namespace=None):
            self.k = k

    C25H.__module__ = __name__
    C25H.__qualname__ = "C25H"
    globals()["C25H"] = C25H
    return C25H


# ---------------------------------------------------------------- reference lineage model (oracle)
class Ref:
    """valid set V and lineage E; advance names states (valid) and records parent -> child;
    rollback to h removes every state derived from h (all recorded lineage)."""

    def __init__(self):
        self.V = set()
        self.E = set()

    def advance(self, touch, parents, child):
        for p in parents:
            self.E.add((p, child))
        self.V |= set(touch) | set(parents) | {child}

    def descendants(self, h, edges=None):
        edges = self.E if edges is None else edges
        succ = {}
        for a, b in edges:
            succ.setdefault(a, []).append(b)
        seen, todo = set(), list(succ.get(h, []))
        while todo:
            x = todo.pop()
            if x in seen:
                continue
            seen.add(x)
            todo += succ.get(x, [])
        return seen

    def rollback(self, h):
        self.V -= self.descendants(h)


# ---------------------------------------------------------------- tracing the real backend
class Tracer:
    """Wraps advance_handle / rollback_handle of one backend; keeps the op trace (with the in-memory
    state of the handle objects *before* the call), the reference model and observations."""

    def __init__(self, backend):
        self.b = backend
        self.names = {}
        self.ids = {}
        self.nm = {}
        self.ref = Ref()
        self.trace = []          # (coq op term, json op, [(hash, valid)] observation)
        self.mismatch = None     # first (key, what, detail)
        self._adv = backend.advance_handle
        self._rb = backend.rollback_handle
        backend.advance_handle = self.advance
        backend.rollback_handle = self.rollback

    # -- ids
    def hid(self, info):
        n = self.names.setdefault(info.fullname, len(self.names))
        i = self.ids.setdefault(info.hash, len(self.ids))
        self.nm[info.hash] = n
        return n, i

    def cq_hid(self, info):
        n, i = self.hid(info)
        return f"({n}%N, {i}%N)"

    def cq_obj(self, h, with_state=True):
        info = h.__handle__
        fp = info.fork_parent
        fps = f"(Some {self.cq_obj(fp)})" if (fp is not None and with_state) else "None"
        rec = "true" if (info.is_recorded or not with_state) else "false"
        return f"(HObj {self.cq_hid(info)} {rec} {fps})"

    @staticmethod
    def touch_of(parents):
        out = []
        for p in parents:
            info = p.__handle__
            if info.fork_parent is not None and not info.is_recorded:
                q = info.fork_parent
                while q is not None:
                    out.append(q.__handle__.hash)
                    q = q.__handle__.fork_parent
        return out

    # -- table access
    def table(self):
        from redun.backends.db import Handle as Row, HandleEdge
        s = self.b.session
        rows = {h: bool(v) for h, v in s.query(Row.hash, Row.is_valid).all()}
        edges = {(p, c) for p, c in s.query(HandleEdge.parent_id, HandleEdge.child_id).all()}
        return rows, edges

    def observe(self, named, before):
        rows, _ = self.table()
        keys = set(named) | {h for h in set(rows) | set(before) if rows.get(h, False) != before.get(h, False)}
        return rows, sorted((h, rows.get(h, False)) for h in keys)

    # -- wrapped ops
    def advance(self, parent_handles, child_handle):
        parent_handles = list(parent_handles)
        for h in [*parent_handles, child_handle]:
            q = h
            while q is not None:
                self.hid(q.__handle__)
                q = q.__handle__.fork_parent
        term = "Adv [" + "; ".join(self.cq_obj(p) for p in parent_handles) + "] " + self.cq_obj(child_handle, False)
        touch = self.touch_of(parent_handles)
        ps = [p.__handle__.hash for p in parent_handles]
        c = child_handle.__handle__.hash
        before, _ = self.table()
        r = self._adv(parent_handles, child_handle)
        self.ref.advance(touch, ps, c)
        rows, obs = self.observe([*touch, *ps, c], before)
        self.trace.append((term, ["adv", ps, c, touch], obs))
        self.compare(rows, before, None)
        return r

    def rollback(self, handle):
        self.hid(handle.__handle__)
        term = "Rb " + self.cq_obj(handle, False)
        h = handle.__handle__.hash
        before, edges = self.table()
        r = self._rb(handle)
        self.ref.rollback(h)
        rows, obs = self.observe([h], before)
        self.trace.append((term, ["rb", h], obs))
        self.compare(rows, before, (h, edges))
        return r

    # -- oracle: tables against the reference model
    def compare(self, rows, before, rb):
        if self.mismatch:
            return
        known = set(self.ids)
        for s in sorted(known, key=lambda x: self.ids[x]):
            impl, ref = rows.get(s, False), s in self.ref.V
            if impl == ref:
                continue
            if impl and not ref and rb is not None:
                h, edges = rb
                # states reachable from h through currently valid rows (h included)
                vedges = {(a, b) for a, b in edges if before.get(a, False)}
                if s not in self.ref.descendants(h, vedges):
                    self.mismatch = (KEY_ROLLBACK,
                                     f"rollback_handle left state #{self.ids[s]} valid although it is derived from the "
                                     f"rolled-back state #{self.ids[h]} (every path to it passes an already invalid row)",
                                     {"state": self.ids[s], "rolled_back": self.ids[h]})
                    return
                self.mismatch = (f"rollback_handle:valid-path-descendant-stays-valid:op{len(self.trace)}",
                                 f"rollback_handle left state #{self.ids[s]} valid although it is reachable from "
                                 f"#{self.ids[h]} through valid rows", {"state": self.ids[s]})
                return
            kind = "valid-but-reference-invalid" if impl else "invalid-but-reference-valid"
            self.mismatch = (f"lineage:{kind}:after-{'rollback' if rb else 'advance'}",
                             f"state #{self.ids[s]} is {'valid' if impl else 'invalid'} in the tables but "
                             f"{'valid' if ref else 'invalid'} in the reference lineage model after op {len(self.trace)}",
                             {"state": self.ids[s]})
            return

    # -- Coq term of the whole trace
    def coq_case(self):
        def obs_term(obs):
            return "[" + "; ".join(f"(({self.names_of(h)}%N, {self.ids[h]}%N), {'true' if v else 'false'})" for h, v in obs) + "]"
        items = "; ".join(f"({t}, {obs_term(o)})" for t, _, o in self.trace)
        _, edges = self.table()
        es = "; ".join(f"(({self.names_of(p)}%N, {self.ids[p]}%N), ({self.names_of(c)}%N, {self.ids[c]}%N))"
                       for p, c in sorted(edges) if p in self.ids and c in self.ids)
        return f"check_hist gen [{items}] [{es}]"

    def names_of(self, h):
        return self.nm[h]

    def finish(self):
        pass


class World:
    def __init__(self):
        self.tmp = scratch_dir("rv_c25_")
        self.cwd = os.getcwd()
        os.chdir(self.tmp)
        from redun.backends.db import RedunBackendDb
        logging.getLogger("redun").setLevel(logging.CRITICAL)    # after the import: redun.logging sets INFO
        self.b = RedunBackendDb(db_uri="sqlite:///:memory:")
        self.b.load()

    def close(self):
        os.chdir(self.cwd)
        shutil.rmtree(self.tmp, ignore_errors=True)

    def reset(self, fresh=False):
        """Empty handle tables (backend histories) or a completely new backend (workflows: cache)."""
        from redun.backends.db import Handle as Row, HandleEdge, RedunBackendDb
        if fresh:
            self.b = RedunBackendDb(db_uri="sqlite:///:memory:")
            self.b.load()
            return
        for attr in ("advance_handle", "rollback_handle"):
            self.b.__dict__.pop(attr, None)      # drop the previous Tracer's wrappers
        s = self.b.session
        s.rollback()
        s.query(HandleEdge).delete()
        s.query(Row).delete()
        s.commit()


# ---------------------------------------------------------------- backend-level histories
CALLS = ["c1", "c2", "c3"]
KEYS = ["1", "2"]
HNAMES = ["conn", "aux"]


def run_backend_history(world, ops):
    """ops: symbolic JSON ops over a growing pool of handle objects.  Returns the Tracer."""
    H = _handle_class()
    world.reset()
    tr = Tracer(world.b)
    pool = []

    def add(h):
        pool.append(h)
        q = h
        while q is not None:
            tr.hid(q.__handle__)
            q = q.__handle__.fork_parent

    from redun.scheduler import Scheduler, set_current_scheduler
    for op in ops:
        k = op[0]
        if k == "init":
            add(H(HNAMES[op[1]], op[2], namespace=NS))
        elif k == "call":
            p = pool[op[1]]
            c = p.apply_call(op[2])
            tr.advance([p], c)
            add(c)
        elif k == "fork":
            p = pool[op[1]]
            c = p.fork(op[2])
            tr.advance([p], c)
            add(c)
        elif k == "ufork":
            add(pool[op[1]].fork(op[2]))
        elif k == "reload":
            add(pickle.loads(pickle.dumps(pool[op[1]])))
        elif k == "adv":
            tr.advance([pool[i] for i in op[1]], pool[op[2]])
        elif k == "rb":
            tr.rollback(pool[op[1]])
        else:
            raise ValueError(op)
    tr.finish()
    # is_valid_handle (the API) agrees with the table it reads
    rows, _ = tr.table()
    seen = set()
    for h in pool:
        hh = h.__handle__.hash
        if hh in seen:
            continue
        seen.add(hh)
        if bool(world.b.is_valid_handle(h)) != rows.get(hh, False) and not tr.mismatch:
            tr.mismatch = ("is_valid_handle:disagrees-with-table", f"is_valid_handle differs from the handle table on #{tr.ids[hh]}", {})
    return tr


def gen_backend_history(rng, n_ops):
    ops = []
    names = []   # name index of each pool entry
    advs = []

    def same_name(i):
        return [j for j in range(len(names)) if names[j] == names[i]]

    for nm in range(rng.choice([1, 1, 2])):
        for k in range(rng.choice([1, 2])):
            ops.append(["init", nm, k])
            names.append(nm)
    for _ in range(n_ops):
        r = rng.random()
        i = rng.randrange(len(names))
        if len(names) > 3 and rng.random() < 0.5:
            i = rng.randrange(max(0, len(names) - 4), len(names))   # prefer recent states: deeper lineage
        if r < 0.27:
            ops.append(["call", i, rng.choice(CALLS)])
            names.append(names[i])
            advs.append(ops[-1])
        elif r < 0.40:
            ops.append(["fork", i, rng.choice(KEYS)])
            names.append(names[i])
        elif r < 0.46:
            ops.append(["ufork", i, rng.choice(KEYS)])
            names.append(names[i])
        elif r < 0.50:
            ops.append(["reload", i])
            names.append(names[i])
        elif r < 0.64:
            cands = same_name(i)
            ps = rng.sample(cands, min(len(cands), rng.choice([1, 1, 2, 3])))
            c = rng.choice(cands)
            ops.append(["adv", ps, c])
        elif r < 0.72 and advs:
            ops.append(list(rng.choice([o for o in ops if o[0] == "adv"] or [["rb", i]])))
        else:
            ops.append(["rb", i])
    return ops


def small_scope_histories(max_len):
    """Every history of at most max_len ops over a chain s0 -> s1 -> s2 -> s3 with a second parent
    s4 -> s2 (advances re-derive the same states) and rollbacks to s0, s1, s2, s4."""
    base = [["init", 0, 0], ["init", 0, 1]]           # pool 0 = s0, pool 1 = s4
    pre = [["call", 0, "c1"], ["call", 2, "c2"], ["call", 3, "c3"]]   # pool 2 = s1, 3 = s2, 4 = s3
    alphabet = [["adv", [0], 2], ["adv", [2], 3], ["adv", [1], 3], ["rb", 0], ["rb", 2], ["adv", [3], 4],
                ["rb", 3]][:(6 if max_len <= 3 else 7)]
    for n in [max_len]:      # every op is observed, so the maximal histories cover their prefixes
        for combo in itertools.product(alphabet, repeat=n):
            yield base + pre + [list(o) for o in combo]


# ---------------------------------------------------------------- workflow-level histories
def gen_program(rng):
    """A pipeline: node = ["init", name] | ["step", task, src, label] | ["merge", [srcs]] |
    ["sub", task, dep, label] (a parent task that creates the handle itself and applies `task`) |
    ["join", layout, [srcs], pick, label] (one task call receiving several states of the same handle name,
    positionally / by keyword / in a list / mixed; it returns the pick-th of them, or all for pick -1)."""
    nodes = [["init", 0]]
    handle_nodes = [0]
    n = rng.randint(2, 6)
    for _ in range(n):
        r = rng.random()
        if r < 0.62 or len(handle_nodes) < 2:
            src = rng.choice(handle_nodes[-3:]) if rng.random() < 0.7 else rng.choice(handle_nodes)
            nodes.append(["step", rng.randrange(4), src, rng.randrange(2)])
        elif r < 0.78:
            srcs = rng.sample(handle_nodes, min(len(handle_nodes), rng.choice([2, 2, 3])))
            nodes.append(["merge", srcs])
        elif r < 0.92:
            srcs = rng.sample(handle_nodes, min(len(handle_nodes), rng.choice([2, 2, 3])))
            nodes.append(["join", rng.choice(JOIN_LAYOUTS), srcs, rng.randrange(-1, len(srcs)), rng.randrange(2)])
        else:
            nodes.append(["sub", rng.randrange(4), len(nodes) - 1, 0])
        if not (nodes[-1][0] == "join" and nodes[-1][3] < 0):     # a join returning all its states is a list
            handle_nodes.append(len(nodes) - 1)
    return nodes


def last_handle_node(prog):
    return max(i for i, nd in enumerate(prog) if not (nd[0] == "join" and nd[3] < 0))


def mutate(rng, runs):
    """Next (program, versions) from the history so far: edit / revert a task, toggle a merge, grow or
    shrink the pipeline, or run again unchanged."""
    prog, ver = runs[-1]
    prog = json.loads(json.dumps(prog))
    ver = dict(ver)
    r = rng.random()
    if r < 0.34:
        t = rng.randrange(5)          # 4 = the join tasks
        ver[t] = ver.get(t, 0) + 1 if rng.random() < 0.7 else rng.choice([0, 1])
    elif r < 0.60 and len(runs) > 1:
        return json.loads(json.dumps(rng.choice(runs[:-1])[0])), dict(rng.choice(runs[:-1])[1])
    elif r < 0.74:
        ms = [i for i, nd in enumerate(prog) if nd[0] == "merge" and len(nd[1]) > 1]
        if ms:
            i = rng.choice(ms)
            prog[i] = ["merge", prog[i][1][:1]]      # merge_handles([x]) : the merge edge disappears
        else:
            prog.append(["step", rng.randrange(4), last_handle_node(prog), rng.randrange(2)])
    elif r < 0.86:
        prog.append(["step", rng.randrange(4), last_handle_node(prog), rng.randrange(2)])
    elif r < 0.93 and len(prog) > 2 and not any(
            (nd[0] in ("step", "sub") and nd[2] == len(prog) - 1) or (nd[0] == "merge" and len(prog) - 1 in nd[1])
            or (nd[0] == "join" and len(prog) - 1 in nd[2]) for nd in prog):
        prog.pop()
    return prog, ver


CACHELESS = ["run", "cache_false", "CSE", "NONE"]
JOIN_LAYOUTS = ["pos", "kw", "list", "mixed"]


def join_histories(full):
    """fork/join: h -> x = step0(h), y = step1(h) [, z = step2(h)]; join(x, y[, z]) returns one of them.
    run / edit join / revert (and edit / edit / revert), for every layout and every returned argument."""
    def prog(n, layout, pick):
        return [["init", 0]] + [["step", i, 0, 0] for i in range(n)] + [["join", layout, list(range(1, n + 1)), pick, 0]]
    combos = [(2, lay, pk) for lay in JOIN_LAYOUTS for pk in (0, 1)] + [(3, "pos", 0), (3, "pos", 1)]
    if full:
        combos += [(3, lay, pk) for lay in JOIN_LAYOUTS for pk in (0, 1, 2, -1)] + [(2, lay, -1) for lay in JOIN_LAYOUTS]
    else:
        combos.remove((2, "mixed", 1))
    for n, lay, pk in combos:
        p = prog(n, lay, pk)
        yield [[p, {}, {}], [p, {"4": 1}, {}], [p, {}, {}]]
    p = prog(2, "pos", 0)
    yield [[p, {}, {}], [p, {"4": 1}, {}], [p, {"4": 2}, {}], [p, {}, {}]]


def cacheless_histories():
    """normal run -> a handle-writing task is edited and executed without the backend cache
    (scheduler.run(cache=False), @task(cache=False), cache_scope CSE / NONE) -> edit reverted, normal run."""
    shapes = [([["init", 0], ["step", 0, 0, 0]], 0),
              ([["init", 0], ["step", 0, 0, 0], ["step", 1, 1, 0]], 0),
              ([["init", 0], ["step", 0, 0, 0], ["step", 1, 0, 0], ["merge", [1, 2]], ["step", 2, 3, 0]], 1)]
    for k, (prog, t) in enumerate(shapes):
        for m in (CACHELESS if k != 1 else CACHELESS[:1]):
            opts = {"run_cache": False} if m == "run" else {"task_opts": {str(t): m}}
            yield [[prog, {}, {}], [prog, {str(t): 1}, opts], [prog, {}, {}]]


class WfWorld:
    """One scheduler over one in-memory backend; runs generated programs; observes _get_cache."""

    def __init__(self, world):
        from redun import Scheduler
        world.reset(fresh=True)
        self.s = Scheduler(backend=world.b)
        self.s.load()
        logging.getLogger("redun").setLevel(logging.CRITICAL)
        self.s.logger.setLevel(logging.CRITICAL)
        self.tr = Tracer(self.s.backend)
        self.calls = []
        self.replays = []        # findings from _get_cache
        self.last_cache_type = None
        b = self.s.backend
        orig_check = b.check_cache

        def check_cache(*a, **k):
            r = orig_check(*a, **k)
            self.last_cache_type = r[2]
            return r
        b.check_cache = check_cache
        orig_get = self.s._get_cache

        def get_cache(job):
            self.last_cache_type = None
            result, is_cached, call_hash = orig_get(job)
            if is_cached:
                self.inspect_replay(job, result)
            return result, is_cached, call_hash
        self.s._get_cache = get_cache
        # which backend ops belong to the job being started; which jobs really execute
        self.cur_start = 0
        self.norollback = 0
        orig_exec = self.s._exec_job_main_thread

        def exec_job(job, eval_args):
            self.cur_start = len(self.tr.trace)
            return orig_exec(job, eval_args)
        self.s._exec_job_main_thread = exec_job
        for ex in self.s.executors.values():
            def submit(job, _orig=ex.submit):
                self.on_submit(job)
                return _orig(job)
            ex.submit = submit

    def inspect_replay(self, job, result):
        from redun import Handle
        from redun.value import iter_nested_value
        rows, _ = self.tr.table()
        for v in iter_nested_value(result):
            if not isinstance(v, Handle):
                continue
            h = v.__handle__.hash
            impl, ref = rows.get(h, False), h in self.tr.ref.V
            if ref:
                continue
            ct = getattr(self.last_cache_type, "name", str(self.last_cache_type))
            if impl:
                # the tables kept the state valid: same root cause as the first table/reference mismatch of this history
                root = self.tr.mismatch[0] if self.tr.mismatch else "replay:state-valid-in-tables-invalid-in-reference"
                key, what = root, (f"the cached result of {job.task.fullname} was replayed although it contains a handle "
                                   f"state that the reference lineage model has invalidated (the tables kept it valid)")
            elif ct == "CSE":
                key, what = KEY_CSE, (f"a CSE hit replayed the result of {job.task.fullname} although it contains a handle state "
                                      f"that was rolled back (is_valid_handle is False)")
            else:
                key, what = f"_get_cache:{ct}-hit-replays-invalidated-handle", (
                    f"a {ct} cache hit replayed the result of {job.task.fullname} although it contains an invalid handle state")
            self.replays.append((key, what, {"task": job.task.fullname, "cache_type": ct}))

    def on_submit(self, job):
        """A job is handed to an executor, i.e. its task body will really run on the (forked) handle
        states among its arguments.  The lineage model says that deriving a new state from a state
        supersedes every state derived from it before, whatever the job's cache scope is: the scheduler
        must have rolled each of them back during this _exec_job_main_thread call (main thread)."""
        from redun import Handle
        from redun.value import iter_nested_value
        if self.s._dryrun:
            return
        tr = self.tr
        since = tr.trace[self.cur_start:]
        for v in iter_nested_value(job.args):
            if not isinstance(v, Handle):
                continue
            x = v.__handle__.hash
            if any(j[0] == "rb" and j[1] == x for _, j, _ in since):
                continue
            stale = tr.ref.descendants(x) & tr.ref.V
            tr.ref.rollback(x)
            self.norollback += 1
            if stale and not tr.mismatch:
                scope = job.get_option("cache_scope", None)
                tr.mismatch = (KEY_NOROLLBACK,
                               f"{job.task.fullname} (cache_scope={getattr(scope, 'name', scope)}) executes on handle state "
                               f"#{tr.ids.get(x)} without rolling it back: {len(stale)} state(s) derived from it earlier "
                               f"(e.g. #{min(tr.ids[s] for s in stale)}) stay valid although the reference lineage model "
                               f"invalidates them",
                               {"task": job.task.fullname, "state": tr.ids.get(x), "stale": sorted(tr.ids[s] for s in stale)})

    def run(self, prog, ver, opts=None):
        """opts: {"run_cache": False} runs with scheduler.run(cache=False); {"task_opts": {t: mode}} defines step t
        with cache=False ("cache_false") or cache_scope "CSE" / "NONE"."""
        from redun import merge_handles, task
        H = _handle_class()
        calls = self.calls
        opts = opts or {}
        modes = {int(k): m for k, m in (opts.get("task_opts") or {}).items()}
        steps = {}
        for t in range(4):
            def mk(t=t, v=ver.get(t, 0)):
                m = modes.get(t)
                kw = {} if m is None else ({"cache": False} if m == "cache_false" else {"cache_scope": m})

                @task(name=f"step{t}", namespace=NS, version=str(v), **kw)
                def step(conn, label):
                    calls.append((t, v, label))
                    return conn
                return step
            steps[t] = mk()

        jv = ver.get(4, 0)

        @task(name="joinp", namespace=NS, version=str(jv))
        def joinp(pick, label, x, y, z=None):
            hs = [h for h in (x, y, z) if h is not None]
            calls.append(("joinp", jv, label))
            return hs if pick < 0 else hs[pick]

        @task(name="joink", namespace=NS, version=str(jv))
        def joink(pick, label, hs=(), a=None, b=None, c=None):
            hs = list(hs) + [h for h in (a, b, c) if h is not None]
            calls.append(("joink", jv, label))
            return hs if pick < 0 else hs[pick]

        def join(layout, xs, pick, label):
            if layout == "pos":
                return joinp(pick, label, *xs)
            if layout == "kw":
                return joink(pick, label, **dict(zip("abc", xs)))
            if layout == "list":
                return joink(pick, label, list(xs))
            return joink(pick, label, [xs[0]], **dict(zip("bc", xs[1:])))

        @task(name="sub", namespace=NS, version="1")
        def sub(dep, t, label):
            return steps[t](H("conn", 0, namespace=NS), label)

        @task(name="main", namespace=NS, version=json.dumps(prog))
        def main():
            vals = []
            for nd in prog:
                if nd[0] == "init":
                    vals.append(H(HNAMES[nd[1]], 0, namespace=NS))
                elif nd[0] == "step":
                    vals.append(steps[nd[1]](vals[nd[2]], nd[3]))
                elif nd[0] == "merge":
                    vals.append(merge_handles([vals[i] for i in nd[1]]))
                elif nd[0] == "join":
                    vals.append(join(nd[1], [vals[i] for i in nd[2]], nd[3], nd[4]))
                else:
                    vals.append(sub(vals[nd[2]], nd[1], nd[3]))
            return [vals[-1], vals[1:]]

        del calls[:]
        self.s.run(main(), **({"cache": False} if opts.get("run_cache") is False else {}))
        return list(calls)


def run_workflow_history(world, runs):
    w = WfWorld(world)
    per_run = []
    for run in runs:
        prog, ver = run[0], {int(k): v for k, v in run[1].items()}
        per_run.append(w.run(prog, ver, run[2] if len(run) > 2 else None))
    w.tr.finish()
    return w, per_run


def doc_chain(world, n, k):
    """docs/source/values.md: editing step k of a linear pipeline re-executes steps k.. only; reverting
    the edit re-executes them again (no fast revert).  Returns None or (phase, expected, got)."""
    prog = [["init", 0]] + [["step", i % 4, i, 0] for i in range(n)]
    if n > 4:
        return None
    w = WfWorld(world)
    exp_all = [i for i in range(n)]
    for phase, ver, exp in (("first", {}, exp_all), ("again", {}, []), ("edit", {k: 1}, exp_all[k:]),
                            ("revert", {}, exp_all[k:]), ("again2", {}, [])):
        got = [t for t, _, _ in w.run(prog, ver)]
        if got != exp:
            return phase, exp, got, w
    return None


# ---------------------------------------------------------------- the check
class Check(PropertyCheck):
    id = "C25"
    module = "Props.C25"
    theorems = ["C25_refines_fixed", "C25_rollback_invalidates_descendants_fixed", "C25_rollback_frame_fixed",
                "C25_rederive_revalidates", "C25_sound_partial", "C25_shipped_rollback_valid_paths_partial",
                "C25_rollback_refuted", "C25_rollback_refuted_merge", "C25_replay_checked_partial",
                "C25_no_invalid_replay_fixed", "C25_replay_cse_refuted", "C25_nonvacuous",
                "C25_perform_rollbacks_all_fixed", "C25_first_per_name_refuted"]
    allowed_axioms = []
    assumptions = [
        "a handle hash determines its fullname, key and value_hash (hash_struct is collision free, C14); the model "
        "identifies a state with the pair (fullname, hash)",
        "sqlite/SQLAlchemy semantics of the queries used by advance_handle / rollback_handle / is_valid_handle "
        "(join, filter, IN-update, get_or_create) -- re-tested by the correspondence histories",
        "every advance names handles of one fullname (fork / apply_call clone the name, merge_handles asserts it): "
        "hypothesis wf_op of the refinement theorems",
        "the reference lineage is the lineage recorded by advance_handle; an explicit user fork that is never passed "
        "through advance_handle as a child leaves no edge (its ancestors are only re-validated)",
    ]
    rule = ("backend: random symbolic histories (init / apply_call / fork / unrecorded fork / pickle reload / "
            "multi-parent advance / repeated advance / rollback) over <= 2 names + exhaustive small scope; "
            "workflow: generated pipelines (steps, implicit forks, merge_handles, sub tasks creating the handle) "
            "re-run after edit / revert / merge toggle / grow / shrink; a case is non-trivial if it contains a rollback "
            "that invalidates something; distinct by op list")

    def translate(self):
        self.cfg = None
        for ext in (".v", ".vo", ".vok", ".vos", ".glob"):     # never leave a stale configuration behind
            q = GEN / ("C25Gen" + ext)
            if q.exists():
                q.unlink()
        try:
            text, cfg, _ = tr_handles.translate()
        except astutil.TranslateError as e:
            raise TranslateError(str(e))
        self.cfg = cfg
        GEN.mkdir(exist_ok=True)
        p = GEN / "C25Gen.v"
        p.write_text(text)
        return [p]

    # ------------------------------------------------------------------ shared
    def corpus(self):
        p = CORPUS / "C25.jsonl"
        out = []
        if p.exists():
            for line in p.read_text().splitlines():
                if line.strip():
                    out.append(json.loads(line))
        return out

    def note(self, tr, replay, extra=()):
        """Turn the tracer's first mismatch (and replay observations) into findings."""
        found = []
        if tr.mismatch:
            found.append(tr.mismatch)
        found += list(extra)
        for key, what, detail in found:
            self.findings.append(Finding(key, what, {**replay, "detail": detail}))
        return bool(found)

    def histories(self):
        """All cases of this run: list of (kind, payload).  Deterministic in the seed."""
        if hasattr(self, "_cases"):
            return self._cases
        quick = self.tier == "quick"
        cases = []
        for doc in self.corpus():
            cases.append((doc["kind"], doc["ops"] if doc["kind"] == "backend" else doc["runs"]))
        for runs in cacheless_histories():
            cases.append(("workflow", runs))
        for runs in join_histories(not quick):
            cases.append(("workflow", runs))
        for ops in small_scope_histories(3 if quick else 4):
            cases.append(("backend", ops))
        for _ in range(150 if quick else 4000):
            cases.append(("backend", gen_backend_history(self.rng, self.rng.randint(4, 16))))
        for _ in range(10 if quick else 300):
            runs = [(gen_program(self.rng), {})]
            for _ in range(self.rng.randint(2, 5)):
                runs.append(mutate(self.rng, runs))
            payload = []
            for i, (p, vr) in enumerate(runs):
                opts = {}
                if i and self.rng.random() < 0.3:       # a cache-less run, or a cache-less variant of one task
                    m = self.rng.choice(CACHELESS)
                    opts = {"run_cache": False} if m == "run" else {"task_opts": {str(self.rng.randrange(4)): m}}
                payload.append([p, {str(k): v for k, v in vr.items()}, opts])
            cases.append(("workflow", payload))
        self._cases = cases
        return cases

    def execute(self):
        """Run every case once on the real code; keep Coq terms and oracle verdicts."""
        if hasattr(self, "_done"):
            return self._done
        world = World()
        terms, descr = [], []
        self.crashed = []
        try:
            for kind, payload in self.histories():
                try:
                    if kind == "backend":
                        tr = run_backend_history(world, payload)
                    else:
                        w, per_run = run_workflow_history(world, payload)
                except Exception:       # the history itself failed on the real code: keep going, report it
                    import traceback
                    self.crashed.append(({"kind": kind, ("ops" if kind == "backend" else "runs"): payload},
                                         traceback.format_exc()[-1500:]))
                    world.close()
                    world = World()
                    continue
                if kind == "backend":
                    extra = []
                else:
                    tr, extra = w.tr, w.replays[:1]
                    self.stat("workflow_runs", len(payload))
                    self.stat("workflow_task_executions", "total", sum(len(c) for c in per_run))
                    for (k, _, _) in w.replays:
                        self.stat("replay_of_invalidated_state", k)
                rb = sum(1 for t, j, o in tr.trace if j[0] == "rb")
                inval = sum(1 for t, j, o in tr.trace if j[0] == "rb" and any(not v for hh, v in o if hh != j[1]))
                self.stat("history_kind", kind)
                self.stat("ops_per_history", min(len(tr.trace) // 10 * 10, 90))
                self.stat("rollbacks_that_invalidate", min(inval, 5))
                self.stat("multi_parent_advances", min(sum(1 for t, j, o in tr.trace if j[0] == "adv" and len(j[1]) > 1), 3))
                self.stat("fork_chain_touches", min(sum(1 for t, j, o in tr.trace if j[0] == "adv" and j[3]), 3))
                self.count((kind, json.dumps(payload)) if inval else None)
                replay = {"kind": kind, ("ops" if kind == "backend" else "runs"): payload}
                if self.note(tr, replay, extra):
                    self.stat("oracle", "history with finding")
                if tr.trace:
                    terms.append(tr.coq_case())
                    descr.append(replay)
                self.sample({"kind": kind, "history": payload if kind == "backend" else payload[:2],
                             "trace_ops": len(tr.trace)}, 4)
            # documented behaviour of a linear pipeline
            for n in (2, 3, 4):
                for k in range(n):
                    bad = doc_chain(world, n, k)
                    self.evaluations += 1
                    if bad:
                        phase, exp, got, w = bad
                        self.findings.append(Finding(f"doc-chain:n={n}:k={k}:{phase}",
                                                     f"linear pipeline of {n} steps, step {k} edited: phase {phase} executed steps {got}, documented {exp}",
                                                     {"kind": "doc_chain", "n": n, "k": k}))
        finally:
            world.close()
        self._done = (terms, descr)
        return self._done

    # ------------------------------------------------------------------
    def correspond(self):
        terms, descr = self.execute()
        if getattr(self, "cfg", None) is None:
            self.ob("correspondence", "not run: the translator produced no configuration to run the model with", False,
                    "see the translator obligation")
            return
        ok, failing, diags = run_bool_cases("C25", ["Model.Handles", "Gen.C25Gen"], "", terms, chunk=120)
        self.ob("correspondence",
                f"Model/Handles.v with the regenerated configuration == real backend on {len(terms)} traced histories "
                f"(validity of the changed/named states after every op, edge table at the end)",
                ok and not failing, "\n".join(diags) + "".join(f"\nmismatch: {json.dumps(descr[i])[:600]}" for i in failing[:5]))

    def oracle(self):
        terms, _ = self.execute()
        self.ob("oracle", "every generated history runs to completion on the real code", not self.crashed,
                "".join(f"\n{json.dumps(r)[:700]}\n{tb}" for r, tb in self.crashed[:2]))
        unknown = [f for f in self.findings if f.key not in (KEY_ROLLBACK, KEY_CSE)]
        self.ob("oracle", f"tables == reference lineage model after every op, and no replay of a result with an invalidated "
                          f"handle state, on {len(terms)} histories (known keys excepted)", not unknown,
                "; ".join(f"{f.key}: {f.what}" for f in unknown[:5]))
        # the variant the source is in must be the variant the implementation shows
        cfg = getattr(self, "cfg", None)
        if cfg is not None:
            seen_rb = any(f.key == KEY_ROLLBACK for f in self.findings)
            seen_cse = any(f.key == KEY_CSE for f in self.findings)
            self.ob("variant", "rollback_handle query: source variant agrees with observed behaviour "
                               f"(valid-only filter {'present' if cfg['rb_valid_only'] else 'absent'}; witness "
                               f"{'reproduces' if seen_rb else 'does not reproduce'})", seen_rb == bool(cfg["rb_valid_only"]))
            self.ob("variant", "_get_cache CSE branch: source variant agrees with observed behaviour "
                               f"(handle check {'present' if cfg['cse_checks_valid'] else 'absent'}; witness "
                               f"{'reproduces' if seen_cse else 'does not reproduce'})", seen_cse == (not cfg["cse_checks_valid"]))

    def replay(self, doc):
        r = doc.get("replay", {})
        kind = r.get("kind")
        if kind in ("backend", "workflow", "doc_chain"):
            world = World()
            try:
                if kind == "doc_chain":
                    bad = doc_chain(world, r["n"], r["k"])
                    print("replay:", f"phase {bad[0]}: expected {bad[1]}, executed {bad[2]}" if bad else "holds now")
                    return 1 if bad else 0
                if kind == "backend":
                    tr = run_backend_history(world, r["ops"])
                    found = [tr.mismatch] if tr.mismatch else []
                else:
                    w, per_run = run_workflow_history(world, r["runs"])
                    found = ([w.tr.mismatch] if w.tr.mismatch else []) + w.replays
                    for i, c in enumerate(per_run):
                        print(f"replay: run {i} executed {c}")
                for key, what, _ in found:
                    print("replay:", key, "--", what)
                if not found:
                    print("replay: the property holds on this history now")
                return 1 if found else 0
            finally:
                world.close()
        print("replay: nothing to replay (no failing input was found); broken obligations:",
              json.dumps(doc.get("broken_obligations", []))[:2000])
        return 1
