"""C26 — Context is inherited and overridden as documented."""
from __future__ import annotations

import itertools
import json
import logging
import os

from harness.lib import (CORPUS, GEN, Finding, PropertyCheck, TranslateError, cq_bytes, cq_list, cq_Z,
                         run_bool_cases, scratch_dir)
from translate import astutil, tr_context

PINS = json.loads((astutil.Path(__file__).resolve().parents[2] / "translate" / "pins_C26.json").read_text())

KNOWN_KEY = "update_context:prev-nondict,context-dict,kwargs-dict"

# ---------------------------------------------------------------- values <-> Coq
def cq_val(v) -> str:
    if isinstance(v, dict):
        items = []
        for k, x in v.items():
            assert isinstance(k, str), k
            items.append(f"({cq_bytes(k.encode())}, {cq_val(x)})")
        return f"(VDict {cq_list(items)})"
    if isinstance(v, bool):
        return f"(VAtom (ABool {'true' if v else 'false'}))"
    if isinstance(v, int):
        return f"(VAtom (AInt {cq_Z(v)}))"
    if v is None:
        return "(VAtom ANone)"
    if isinstance(v, str):
        return f"(VAtom (AStr {cq_bytes(v.encode())}))"
    return f"(VAtom (AOther {cq_bytes(repr(v).encode())}))"


def cq_call(c) -> str:
    return f"{{| uc_ctx := {cq_val(c[0])}; uc_kw := {cq_val(c[1])} |}}"


def cq_tree(t) -> str:
    gets = cq_list([f"({cq_bytes(p.encode())}, {cq_val(d)})" for p, d in t["gets"]])
    return f"(JNode {cq_list([cq_call(c) for c in t['calls']])} {gets} {cq_list([cq_tree(k) for k in t['kids']])})"


def canon(v):
    """Strict, order-insensitive identity of a context value (1, True and 1.0 are different)."""
    if isinstance(v, dict):
        return ("d", tuple(sorted((k, canon(x)) for k, x in v.items())))
    if isinstance(v, list):
        return ("l", tuple(canon(x) for x in v))
    return (type(v).__name__, repr(v))


# ---------------------------------------------------------------- the documented meaning, in Python
def spec_merge(a, b):
    """parent (+) override: later wins, nested mappings merged."""
    if isinstance(a, dict) and isinstance(b, dict):
        out = dict(a)
        for k, y in b.items():
            out[k] = spec_merge(a[k], y) if k in a else y
        return out
    return b


def spec_get(ctx, path, default):
    def go(v, parts):
        if not parts:
            return v
        if not isinstance(v, dict) or parts[0] not in v:
            return default
        return go(v[parts[0]], parts[1:])
    return go(ctx, path.split("."))


def spec_override(calls):
    o = {}
    for c, kw in calls:
        o = spec_merge(spec_merge(o, c), kw)
    return o


PROBES = [["a", "D1"], ["a.b", 0]]     # default arguments of the test task (evaluated in the called job's context)


def spec_tree(parent, t):
    ctx = spec_merge(parent, spec_override(t["calls"]))
    out = [spec_get(ctx, p, d) for p, d in PROBES + t["gets"]]
    for k in t["kids"]:
        out += spec_tree(ctx, k)
    return out


def known_pattern(prev, c, kw) -> bool:
    """The registered defect: under some key path prev holds a non-mapping while both `context` and
    kwargs hold mappings (all three grouped together by merge_dicts)."""
    if not (isinstance(prev, dict) and isinstance(c, dict) and isinstance(kw, dict)):
        return False
    for k in prev:
        if k in c and k in kw:
            x, y, z = prev[k], c[k], kw[k]
            if not isinstance(x, dict) and isinstance(y, dict) and isinstance(z, dict):
                return True
            if known_pattern(x, y, z):
                return True
    return False


def calls_known(calls) -> bool:
    o = {}
    for c, kw in calls:
        if known_pattern(o, c, kw):
            return True
        o = spec_merge(spec_merge(o, c), kw)
    return False


def tree_known(t) -> bool:
    return calls_known(t["calls"]) or any(tree_known(k) for k in t["kids"])


# ---------------------------------------------------------------- generators
KEYS = ["a", "b", "c", "é", "", "a.b", "k1"]
ATOMS = [0, 1, -3, 2 ** 70, "s", "", "x.y", None, True, False, 1.5, [1, 2], [{"a": 1}], "é\U0001f600"]
PATH_PARTS = ["a", "b", "c", "é", "", "k1", "zz"]
ODD_PATHS = ["", ".", "a.", ".a", "a..b", "a.b.", "..", "a.b.c.d.e", "é.a"]


class Gen:
    def __init__(self, rng):
        self.rng = rng

    def atom(self):
        return self.rng.choice(ATOMS)

    def ctx(self, depth, maxkeys=3, keys=KEYS):
        r = self.rng
        d = {}
        for _ in range(r.randint(0, maxkeys)):
            k = r.choice(keys[:3]) if r.random() < 0.7 else r.choice(keys)
            d[k] = self.value(depth - 1, keys)
        return d

    def value(self, depth, keys=KEYS):
        if depth <= 0 or self.rng.random() < 0.35:
            return self.atom()
        return self.ctx(depth, keys=keys)

    def path(self, ctx):
        """mostly paths that exist (possibly extended or cut), sometimes odd ones."""
        r = self.rng
        k = r.random()
        if k < 0.15:
            return r.choice(ODD_PATHS)
        parts, v = [], ctx
        while isinstance(v, dict) and v and r.random() < 0.85:
            p = r.choice(list(v.keys()))
            parts.append(p)
            v = v[p]
        if k < 0.35 or not parts:
            parts.append(r.choice(PATH_PARTS))
        if k > 0.9 and len(parts) > 1:
            parts = parts[:-1]
        return ".".join(parts)

    def call(self, simple, keys=KEYS):
        r = self.rng
        m = r.random()
        kwkeys = [k for k in keys if k]    # any str is a legal ** key; keep "" out of kwargs for readability
        if simple or m < 0.75:
            if r.random() < 0.5:
                return [self.ctx(3, keys=keys), {}]
            return [{}, self.ctx(3, keys=kwkeys)]
        return [self.ctx(3, keys=keys), self.ctx(3, keys=kwkeys)]

    def calls(self, simple, keys=KEYS):
        r = self.rng
        n = r.choice([0, 0, 1, 1, 1, 2, 3])
        out = []
        for i in range(n):
            out.append(self.call(simple and i > 0, keys))
        return out

    def tree(self, depth, simple, keys=KEYS[:4], root_ctx=None):
        r = self.rng
        t = {"calls": self.calls(simple, keys), "gets": [], "kids": []}
        probe_ctx = spec_merge(root_ctx or {}, spec_override(t["calls"]))
        for _ in range(r.randint(0, 3)):
            t["gets"].append([self.path(probe_ctx), self.atom()])
        if depth > 0:
            for _ in range(r.choice([0, 1, 1, 2])):
                t["kids"].append(self.tree(depth - 1, simple, keys, probe_ctx))
        return t


def tree_size(t):
    return 1 + sum(tree_size(k) for k in t["kids"])


# ---------------------------------------------------------------- running the real code
_NODE = None
_UID = itertools.count()


def node_task():
    global _NODE
    if _NODE is None:
        from redun import get_context, task

        @task(namespace="rv_c26", name="node")
        def node(uid, gets, kids, d1=get_context(PROBES[0][0], PROBES[0][1]), d2=get_context(PROBES[1][0], PROBES[1][1])):
            res = [get_context(p, dflt) for p, dflt in gets]
            kid_exprs = [apply_calls(node, k["calls"])(next(_UID), k["gets"], k["kids"]) for k in kids]
            return [[d1, d2] + res, kid_exprs]

        _NODE = node
    return _NODE


def apply_calls(t, calls):
    for c, kw in calls:
        t = t.update_context(c, **kw)
    return t


def flatten(res):
    out = list(res[0])
    for k in res[1]:
        out += flatten(k)
    return out


class Real:
    """One scheduler per configured context (in-memory backend), any number of executions."""

    def __init__(self):
        self.scheds = {}
        self.cwd = scratch_dir("rv_c26_")
        self.old = os.getcwd()
        os.chdir(self.cwd)
        import redun  # noqa: F401  (configures its logger on import)
        logging.getLogger("redun").setLevel(logging.ERROR)

    def close(self):
        os.chdir(self.old)
        import shutil
        shutil.rmtree(self.cwd, ignore_errors=True)

    def sched(self, configured):
        from redun import Scheduler
        from redun.config import Config
        key = json.dumps(configured)
        if key not in self.scheds:
            s = Scheduler(config=Config({"scheduler": {"context": key}} if configured is not None else {}))
            s.load()
            self.scheds[key] = s
        return self.scheds[key]

    def run_tree(self, configured, run_arg, t):
        s = self.sched(configured)
        expr = apply_calls(node_task(), t["calls"])(next(_UID), t["gets"], t["kids"])
        return flatten(s.run(expr, context=run_arg))


# ---- jobs created after their parent concluded ---------------------------------------------
# holder "fork": the parent job returns fork_thread(<staged expr>) and is resolved; the staged
#                expression keeps evaluating under it.
# holder "fail": the parent job returns [boom(), <staged expr>]; boom() rejects it while the staged
#                expression is still waiting; the failure is caught one level up.
# stage  "cond": cond(slow(sid), <late>, "not-taken")      stage "seq": seq([slow(sid), <late>])
# slow(sid) is held (threading.Event) until a task that can only run after the parent concluded has
# started, so <late> = record(sid, node-subtree) is created under a concluded parent, deterministically.
_LATE = None
_EVENTS: dict = {}
_OBS: dict = {}
HOLDERS = ("fork", "fail")
STAGES = ("cond", "seq")
LATE_WAIT = 30


def _ev(name):
    import threading
    return _EVENTS.setdefault(name, threading.Event())


def late_tasks():
    global _LATE
    if _LATE is None:
        from redun import catch, cond, task
        from redun.functools import seq
        from redun.scheduler import fork_thread, join_thread
        node = node_task()

        @task(namespace="rv_c26", name="slow", cache=False)
        def slow(sid):
            assert _ev(sid + ":concluded").wait(LATE_WAIT), "the holder job never concluded"
            return True

        @task(namespace="rv_c26", name="record", cache=False)
        def record(sid, res):
            _OBS[sid] = flatten(res)
            _ev(sid + ":recorded").set()
            return "recorded"

        def staged(sid, stage, t):
            late = record(sid, apply_calls(node, t["calls"])(next(_UID), t["gets"], t["kids"]))
            if stage == "cond":
                return cond(slow(sid), late, "not-taken")
            return seq([slow(sid), late])

        @task(namespace="rv_c26", name="boom", cache=False)
        def boom(sid):
            raise ValueError("boom " + sid)

        @task(namespace="rv_c26", name="holder_fork", cache=False)
        def holder_fork(sid, stage, t):
            return fork_thread(staged(sid, stage, t))

        @task(namespace="rv_c26", name="take_thread", cache=False)
        def take_thread(sid, thread):
            _ev(sid + ":concluded").set()          # runs only once holder_fork has been resolved
            return join_thread(thread)

        @task(namespace="rv_c26", name="holder_fail", cache=False)
        def holder_fail(sid, stage, t):
            return [boom(sid), staged(sid, stage, t)]

        @task(namespace="rv_c26", name="recover", cache=False)
        def recover(error):
            sid = str(error).split()[-1]
            _ev(sid + ":concluded").set()          # runs only once holder_fail has been rejected
            return "recovered"

        @task(namespace="rv_c26", name="wait_recorded", cache=False)
        def wait_recorded(sid):
            return _ev(sid + ":recorded").wait(LATE_WAIT)

        @task(namespace="rv_c26", name="late_main", cache=False)
        def late_main(sid, holder, stage, p_calls, t):
            if holder == "fork":
                thread = apply_calls(holder_fork, p_calls)(sid, stage, t)
                return [take_thread(sid, thread), wait_recorded(sid)]
            h = apply_calls(holder_fail, p_calls)(sid, stage, t)
            return [catch(h, ValueError, recover), wait_recorded(sid)]

        _LATE = late_main
    return _LATE


def run_late(real, case):
    """Returns the get_context results observed in the late subtree (None: it never ran)."""
    sid = f"s{next(_UID)}"
    s = real.sched(case["configured"])
    expr = apply_calls(late_tasks(), case["g_calls"])(sid, case["holder"], case["stage"], case["p_calls"], case["tree"])
    s.run(expr, context=case["run"])
    return _OBS.pop(sid, None)


def spec_late(case):
    ctx = spec_merge(case["configured"], case["run"])
    ctx = spec_merge(ctx, spec_override(case["g_calls"]))      # grand-parent (late_main)
    ctx = spec_merge(ctx, spec_override(case["p_calls"]))      # parent (the holder, concluded)
    return spec_tree(ctx, case["tree"])


def late_known(case):
    return calls_known(case["g_calls"]) or calls_known(case["p_calls"]) or tree_known(case["tree"])


DEMO_LATE = {"configured": {}, "run": {"vars": {"root": "R", "shadow": "root-loses"}},
             "g_calls": [[{"vars": {"mid": "M", "shadow": "mid-loses"}}, {}]],
             "p_calls": [[{"vars": {"leaf": "L", "shadow": "leaf-wins"}}, {}]],
             "tree": {"calls": [], "gets": [["vars.root", "<missing>"], ["vars.mid", "<missing>"], ["vars.leaf", "<missing>"],
                                            ["vars.shadow", "<missing>"]], "kids": []}}


def gen_late(g, rng, i):
    keys = KEYS[:4]
    configured = g.ctx(2, keys=keys) if rng.random() < 0.5 else {}
    run_arg = g.ctx(3, keys=keys)
    root = spec_merge(configured, run_arg)
    g_calls = g.calls(True, keys) or [g.call(True, keys)]
    p_calls = g.calls(True, keys)
    ctx = spec_merge(spec_merge(root, spec_override(g_calls)), spec_override(p_calls))
    t = g.tree(rng.choice([0, 1, 1, 2]), simple=True, keys=keys, root_ctx=ctx)
    # make sure something contributed above the parent is read below it
    go = spec_override(g_calls)
    if go:
        k = rng.choice(list(go.keys()))
        t["gets"].append([k, "<missing>"])
    return {"holder": HOLDERS[i % 2], "stage": STAGES[(i // 2) % 2], "configured": configured, "run": run_arg,
            "g_calls": g_calls, "p_calls": p_calls, "tree": t}


def real_override(calls):
    t = apply_calls(node_task(), calls)
    return t._task_options_override.get("_context_override", {})


# ---------------------------------------------------------------- the check
class Check(PropertyCheck):
    id = "C26"
    module = "Props.C26"
    theorems = ["C26_deep_merge_spec", "C26_deep_merge_later_wins", "C26_deep_merge_wf", "C26_merge_binary",
                "C26_merge_equation", "C26_merge_total", "C26_group_spec", "C26_merge_fixed_is_fold",
                "C26_nary_refuted", "C26_merge3_shipped_partial", "C26_get_context_spec", "C26_path_exclusive",
                "C26_path_functional", "C26_split_spec", "C26_tree_refuted", "C26_tree_holds_fixed",
                "C26_tree_holds_fixed_uc", "C26_tree_shipped_partial", "C26_job_context_fixed",
                "C26_job_context_fixed_uc", "C26_job_context_shipped_partial", "C26_late_context_any_flags",
                "C26_late_context_fixed", "C26_late_context_fixed_uc", "C26_late_context_shipped_partial",
                "C26_late_dropping_refuted", "C26_nonvacuous"]
    extra_modules = ["Base.Lit"]
    allowed_axioms = []
    assumptions = [
        "context keys are str (JSON configuration, **kwargs); a key is modelled by its UTF-8 bytes, and '.' being ASCII, "
        "str.split('.') commutes with encoding (re-tested by the correspondence cases with non-ASCII keys)",
        "every non-dict value (list, number, str, None, ...) is opaque to merge_dicts/get_context_value; context values are "
        "concrete (no lazy expressions inside the context)",
        "late-created jobs: the model's 'concluded' flag of an ancestor stands for Job.clear() having run (memoised context "
        "dropped, recomputed from parent_job); which attributes clear() resets is extracted by the translator, the "
        "fork_thread / rejected-parent programs are ordered with threading.Event and run on the default thread executor",
        "job trees are run with distinct arguments per job, so call caching/CSE (property C05) does not interfere",
        "the extra redun.root_task job and default-argument evaluation (JobEnv) are covered by the job-tree correspondence "
        "run under the real scheduler, not by the translator",
    ]
    rule = ("structured random contexts (shared keys a/b/c to force collisions, non-ASCII/empty/dotted keys, atoms of every "
            "JSON type), 1-4 argument merge_dicts calls, update_context chains, dotted paths derived from the generated "
            "context (existing, extended, cut, odd: '', '.', 'a..b'), and job trees of depth <= 3 run under the real "
            "Scheduler with get_context leaves; non-trivial = at least one key collision / a path of >= 2 segments / "
            "a tree with >= 2 jobs; distinct by JSON text")

    variant = None

    def translate(self):
        try:
            text, _, info = tr_context.translate(pins=PINS)
        except astutil.TranslateError as e:
            raise TranslateError(str(e))
        self.variant = info["name"]
        self.record = info["record"]
        self.witness_expected = info["witness_expected"]
        GEN.mkdir(exist_ok=True)
        p = GEN / "C26Gen.v"
        p.write_text(text)
        return [p]

    # the configuration the model is run with: what the translator found; if it found none of the
    # three known ones (or failed), the shipped one (mismatches then show up as broken obligations)
    record = None
    witness_expected = None

    def cfg(self):
        """Coq term: exactly the configuration the translator extracted (so the model is run as the code
        is written, whether or not that is a configuration the theorems are about)."""
        if self.record:
            return self.record
        return "fixed" if self.fallback_variant() == "Fixed" else "shipped"

    def cfg_name(self):
        return self.variant or ("extracted, not one of shipped/fixed/fixed_uc" if self.record else "translator failed; fallback")

    def fallback_variant(self):
        try:
            return tr_context.tr_merge_dicts(astutil.load("redun/utils.py"))
        except Exception:
            return "Fixed"

    def merge_variant(self):
        if self.record:
            return "Fixed" if "merge_variant := Fixed" in self.record else "AsShipped"
        return self.fallback_variant()

    # ------------------------------------------------------------------ correspondence
    def correspond(self):
        from redun.context import get_context_value
        from redun.utils import merge_dicts
        g = Gen(self.rng)
        quick = self.tier == "quick"
        terms, descr = [], []
        # (a) merge_dicts
        n_merge = 700 if quick else 8000
        for i in range(n_merge):
            n = self.rng.choice([0, 1, 2, 2, 2, 3, 3, 4])
            ds = [g.ctx(3) if self.rng.random() < 0.9 else g.value(2) for _ in range(n)]
            got = merge_dicts(list(ds))
            terms.append(f"opt_eq value_eqb (merge {self.merge_variant()} {cq_list([cq_val(d) for d in ds])}) (Some {cq_val(got)})")
            descr.append(("merge_dicts", json.dumps(ds)))
            coll = len({k for d in ds if isinstance(d, dict) for k in d}) < sum(len(d) for d in ds if isinstance(d, dict))
            self.count(("m", json.dumps(ds)) if coll else None)
            self.stat("merge_args", n)
            self.sample({"op": "merge_dicts", "args": json.dumps(ds)[:200], "result": json.dumps(got)[:200]}, 2)
        # (b) get_context_value
        n_get = 700 if quick else 8000
        for i in range(n_get):
            ctx = g.ctx(4) if self.rng.random() < 0.95 else g.atom()
            path = g.path(ctx)
            dflt = g.value(1)
            got = get_context_value(ctx, path, dflt)
            terms.append(f"value_eqb (get_context_value {cq_val(ctx)} {cq_bytes(path.encode())} {cq_val(dflt)}) {cq_val(got)}")
            descr.append(("get_context_value", json.dumps([ctx, path, dflt])))
            self.count(("g", json.dumps([ctx, path])) if path.count(".") >= 1 else None)
            self.stat("get_result", "default" if canon(got) == canon(dflt) else "value")
            self.sample({"op": "get_context_value", "ctx": json.dumps(ctx)[:160], "path": path, "result": json.dumps(got)[:80]}, 4)
        # (c) update_context chains -> the _context_override option
        n_uc = 300 if quick else 4000
        for i in range(n_uc):
            calls = g.calls(simple=(i % 3 != 0))
            got = real_override(calls)
            terms.append(f"opt_eq value_eqb (override cfg {cq_list([cq_call(c) for c in calls])}) (Some {cq_val(got)})")
            descr.append(("update_context", json.dumps(calls)))
            self.count(("u", json.dumps(calls)) if len(calls) >= 2 else None)
            self.stat("update_context_calls", len(calls))
        # (d) job trees under the real scheduler
        n_tree = 36 if quick else 600
        real = Real()
        try:
            cfgs = [g.ctx(3, keys=KEYS[:4]) for _ in range(4 if quick else 16)] + [{}]
            for i in range(n_tree):
                configured = self.rng.choice(cfgs)
                run_arg = g.ctx(3, keys=KEYS[:4]) if self.rng.random() < 0.7 else {}
                root = spec_merge(configured, run_arg)
                t = g.tree(self.rng.choice([1, 2, 2, 3]), simple=(i % 4 != 0), root_ctx=root)
                got = real.run_tree(configured, run_arg, t)
                mt = self.with_probes(t)
                terms.append(f"opt_eq (list_eq value_eqb) (run_execution cfg {cq_val(configured)} {cq_val(run_arg)} {cq_tree(mt)}) "
                             f"(Some {cq_list([cq_val(x) for x in got])})")
                descr.append(("job_tree", json.dumps({"configured": configured, "run": run_arg, "tree": t})))
                self.count(("t", json.dumps([configured, run_arg, t])) if tree_size(t) >= 2 else None)
                self.stat("tree_jobs", tree_size(t))
                self.sample({"op": "job_tree", "jobs": tree_size(t), "results": json.dumps(got)[:160]}, 6)
            # (e) jobs created after their parent concluded (fork_thread / rejected parent, cond / seq)
            n_late = 8 if quick else 80
            for i in range(n_late):
                case = gen_late(g, self.rng, i)
                got = run_late(real, case)
                mt = self.with_probes(case["tree"])
                chain = cq_list([f"(true, {cq_list([cq_call(c) for c in case['p_calls']])})",
                                 f"(false, {cq_list([cq_call(c) for c in case['g_calls']])})"])
                exp = "None" if got is None else f"(Some {cq_list([cq_val(x) for x in got])})"
                terms.append(f"opt_eq (list_eq value_eqb) (late_results cfg {cq_val(case['configured'])} {cq_val(case['run'])} "
                             f"{chain} {cq_tree(mt)}) {exp}")
                descr.append(("late_job", json.dumps(case)))
                self.count(("l", json.dumps(case)))
                self.stat("late_scenario", case["holder"] + "/" + case["stage"])
        finally:
            real.close()
        pre = (f"Definition cfg : ctx_cfg := {self.cfg()}.\n"
               "Definition late_results (c : ctx_cfg) (configured run_arg : value) (chain : list (bool * list uc_call)) "
               "(t : jtree) : option (list value) :=\n"
               "  match exec_context c configured run_arg with None => None | Some root =>\n"
               "  match late_context c root chain with None => None | Some p => run_tree c p t end end.\n")
        ok, failing, diags = run_bool_cases("C26", ["Base.Decimal", "Base.Lit", "Model.Context"], pre, terms, chunk=150)
        self.ob("correspondence",
                f"model ({self.cfg_name()}) == implementation on {len(terms)} generated cases: {n_merge} merge_dicts, {n_get} "
                f"get_context_value, {n_uc} update_context chains, {n_tree} job trees and {n_late} late-created subtrees (parent already concluded) run under the real Scheduler",
                ok and not failing, "\n".join(diags) + "".join(f"\nmismatch: {descr[i]}" for i in failing[:10]))
        self.mismatches = [descr[i] for i in failing]

    def with_probes(self, t):
        return {"calls": t["calls"], "gets": PROBES + t["gets"], "kids": [self.with_probes(k) for k in t["kids"]]}

    # ------------------------------------------------------------------ implementation oracle
    def check_merge2(self, a, b):
        from redun.utils import merge_dicts
        got = merge_dicts([a, b])
        if canon(got) != canon(spec_merge(a, b)):
            return f"merge_dicts([a, b]) = {got!r}, deep merge is {spec_merge(a, b)!r}"
        return None

    def check_get(self, ctx, path, default):
        from redun.context import get_context_value
        got = get_context_value(ctx, path, default)
        exp = spec_get(ctx, path, default)
        if canon(got) != canon(exp):
            return f"get_context_value = {got!r}, value at path / default is {exp!r}"
        return None

    def check_calls(self, calls):
        got = real_override(calls)
        exp = spec_override(calls)
        if canon(got) != canon(exp):
            return f"update_context chain gives override {got!r}, documented merge is {exp!r}"
        return None

    def check_tree(self, real, configured, run_arg, t):
        got = real.run_tree(configured, run_arg, t)
        exp = spec_tree(spec_merge(configured, run_arg), t)
        if [canon(x) for x in got] != [canon(x) for x in exp]:
            return f"get_context results {got!r}, documented {exp!r}"
        return None

    def check_late(self, real, case):
        got = run_late(real, case)
        exp = spec_late(case)
        if got is None:
            return "the late subtree never ran"
        if [canon(x) for x in got] != [canon(x) for x in exp]:
            return (f"job created under an already concluded parent ({case['holder']}, {case['stage']}): get_context results "
                    f"{got!r}, documented {exp!r}")
        return None

    def add(self, key, what, replay):
        self.findings.append(Finding(key[:300], what, replay))

    def oracle(self):
        g = Gen(self.rng)
        quick = self.tier == "quick"
        n = 0
        before = len(self.findings)
        real = Real()
        try:
            # 0. corpus
            corpus = CORPUS / "C26.jsonl"
            if corpus.exists():
                for line in corpus.read_text().splitlines():
                    if line.strip():
                        n += 1
                        self.run_replay(json.loads(line), real, record=True)
            # 1. the registered defect: witness of C26_nary_refuted / C26_tree_refuted on the real code
            w_calls = [[{"b": "s"}, {}], [{"b": {"a": 1}}, {"b": {"c": 2}}]]
            w_tree = {"calls": w_calls, "gets": [["b.a", 0]], "kids": []}
            n += 1
            why = self.check_tree(real, {}, {}, w_tree)
            reproduced = why is not None
            self.stat("oracle", "witness_reproduces" if reproduced else "witness_does_not_reproduce")
            if reproduced:
                self.add(KNOWN_KEY, "t.update_context({'b': 's'}).update_context({'b': {'a': 1}}, b={'c': 2}): "
                         "get_context('b.a', 0) is 0, the documented merge gives 1 (3-ary merge_dicts: an earlier "
                         "non-mapping value stops context and kwargs from merging)",
                         {"kind": "tree", "configured": {}, "run": {}, "tree": w_tree, "why": why})
            expect = self.witness_expected if self.witness_expected is not None else (self.fallback_variant() == "AsShipped")
            self.ob("oracle", "the witness of C26_tree_refuted " + ("reproduces on the code (shipped variant)" if expect else
                    "no longer reproduces (repaired variant)"), reproduced == expect,
                    f"translator says {self.cfg_name()}, witness reproduces: {reproduced}")
            # 2. small scope: all pairs over a small family of nested dicts / all paths of length <= 3
            small = self.small_values()
            for a, b in itertools.product(small, repeat=2):
                n += 1
                why = self.check_merge2(a, b)
                if why:
                    self.add(f"merge2:{json.dumps([a, b])}", why, {"kind": "merge2", "a": a, "b": b, "why": why})
            ctxs = [v for v in small if isinstance(v, dict)][:12] + [{"a": {"b": {"c": None}}, "": {"": 1}}]
            paths = [".".join(p) for k in (1, 2, 3) for p in itertools.product(["a", "b", ""], repeat=k)] + ["c", "a.b.c", "a.b.c.d"]
            for c in ctxs:
                for p in paths:
                    n += 1
                    why = self.check_get(c, p, "DEFAULT")
                    if why:
                        self.add(f"get:{json.dumps([c, p])}", why, {"kind": "get", "ctx": c, "path": p, "default": "DEFAULT", "why": why})
            self.stat("oracle", "small_scope_cases", n)
            # 3. random: binary merges, paths, update_context chains, job trees
            for i in range(1500 if quick else 30000):
                n += 1
                a, b = g.value(3), g.value(3)
                why = self.check_merge2(a, b)
                if why:
                    self.add(f"merge2:{json.dumps([a, b])}", why, {"kind": "merge2", "a": a, "b": b, "why": why})
                ctx = g.ctx(4)
                p, d = g.path(ctx), g.atom()
                why = self.check_get(ctx, p, d)
                if why:
                    self.add(f"get:{json.dumps([ctx, p])}", why, {"kind": "get", "ctx": ctx, "path": p, "default": d, "why": why})
            for i in range(600 if quick else 10000):
                n += 1
                calls = g.calls(simple=(i % 3 != 0))
                why = self.check_calls(calls)
                if why:
                    key = KNOWN_KEY if calls_known(calls) else f"update_context:{json.dumps(calls)}"
                    self.add(key, why, {"kind": "calls", "calls": calls, "why": why})
            cfgs = [g.ctx(3, keys=KEYS[:4]) for _ in range(3 if quick else 12)] + [{}]
            for i in range(40 if quick else 700):
                n += 1
                configured = self.rng.choice(cfgs)
                run_arg = g.ctx(3, keys=KEYS[:4]) if self.rng.random() < 0.7 else {}
                t = g.tree(self.rng.choice([1, 2, 2, 3]), simple=(i % 5 != 0), root_ctx=spec_merge(configured, run_arg))
                why = self.check_tree(real, configured, run_arg, t)
                self.stat("oracle_tree_jobs", tree_size(t))
                if why:
                    key = KNOWN_KEY if tree_known(t) else f"tree:{json.dumps([configured, run_arg, t])}"
                    self.add(key, why, {"kind": "tree", "configured": configured, "run": run_arg, "tree": t, "why": why})
            # 4. jobs created after their parent concluded, overrides at grand-parent / parent / leaf level
            late_cases = [dict(DEMO_LATE, holder=h, stage=st) for h in HOLDERS for st in STAGES]
            late_cases += [gen_late(g, self.rng, i) for i in range(8 if quick else 120)]
            for case in late_cases:
                n += 1
                why = self.check_late(real, case)
                self.stat("oracle_late", case["holder"] + "/" + case["stage"])
                if why:
                    key = KNOWN_KEY if late_known(case) else f"late:{case['holder']}/{case['stage']}:{json.dumps(case)}"
                    self.add(key, why, dict(case, kind="late", why=why))
        finally:
            real.close()
        self.evaluations += n
        self.stat("oracle", "cases", n)
        # report the smallest failing input first
        self.findings.sort(key=lambda f: len(json.dumps(f.replay, default=str)))
        new = [f for f in self.findings[before:] if f.key != KNOWN_KEY]
        self.ob("oracle", f"implementation oracle (binary deep merge, value-at-path/default, update_context chains, job trees "
                f"under the real Scheduler) on {n} cases: nothing but the registered 3-ary corner", not new,
                "; ".join(f.what for f in new[:5]))

    def small_values(self):
        atoms = [1, "s", None]
        lvl1 = [{}] + [{k: v} for k in ("a", "b") for v in atoms] + [{"a": 1, "b": "s"}, {"b": None, "a": 2}]
        lvl2 = [{"a": d} for d in lvl1[:6]] + [{"a": lvl1[1], "b": 1}, {"b": lvl1[4], "a": {"a": {"a": 1}}}]
        return atoms + lvl1 + lvl2

    # ------------------------------------------------------------------ replay
    def run_replay(self, r, real, record=False):
        kind = r.get("kind")
        why = None
        if kind == "merge2":
            why = self.check_merge2(r["a"], r["b"])
        elif kind == "get":
            why = self.check_get(r["ctx"], r["path"], r["default"])
        elif kind == "calls":
            why = self.check_calls(r["calls"])
        elif kind == "tree":
            why = self.check_tree(real, r["configured"], r["run"], r["tree"])
        elif kind == "late":
            why = self.check_late(real, r)
        else:
            return None
        if why and record:
            known = ((kind == "calls" and calls_known(r["calls"])) or (kind == "tree" and tree_known(r["tree"]))
                     or (kind == "late" and late_known(r)))
            self.add(KNOWN_KEY if known else f"corpus:{json.dumps(r)[:200]}", why, dict(r, why=why))
        return why

    def replay(self, doc):
        r = doc.get("replay", {})
        if not r.get("kind"):
            print("replay: nothing to replay (no failing input was found); broken obligations:",
                  json.dumps(doc.get("broken_obligations", []))[:2000])
            return 1
        real = Real()
        try:
            why = self.run_replay(r, real)
        finally:
            real.close()
        print("replay:", why or "property holds on this input now")
        return 1 if why else 0
