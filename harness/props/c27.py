"""C27 — Task options follow the documented precedence."""
from __future__ import annotations

import itertools
import json
import logging
import os
import shutil

from harness.lib import (CORPUS, GEN, Finding, PropertyCheck, TranslateError, cq_list, cq_Z, run_bool_cases,
                         scratch_dir)
from translate import astutil, tr_options

PINS = json.loads((astutil.Path(__file__).resolve().parents[2] / "translate" / "pins_C27.json").read_text())

# registered known findings (tools/kf_add.py)
KEY_D1 = "export_options-then-options:exported-names-dropped"
KEY_D2 = "task-decorator:export_options-cache:cache_scope-not-exported"
KEY_D3 = "root-call:expression-valued-option:crash"

# option names <-> the numbers of Model/Options.v (cache, cache_scope, prov are the names the code treats specially)
KEYS = ["cache", "cache_scope", "prov", "memory", "a", "b", "c"]
KCODE = {k: i for i, k in enumerate(KEYS)}
SCOPES = {"NONE": "SNone", "CSE": "SCse", "BACKEND": "SBackend"}

# ---------------------------------------------------------------- program representation
# value   := int | bool | None | {"scope": "NONE"|"CSE"|"BACKEND"} | {"expr": [uid, atom]}   (val(uid, atom), lazy)
# kvs     := [[name, value], ...]            (distinct names)
# node    := {"uid": n, "opts": kvs, "export": kvs, "chain": [["opt"|"export", kvs], ...], "kids": [node, ...]}
#            @task(export_options=dict(export), **dict(opts)); call = task.<chain>(uid, kids)
# program := {"nocache": bool, "wrap": bool, "tree": node}


def is_expr(v):
    return isinstance(v, dict) and "expr" in v


def is_scope(v):
    return isinstance(v, dict) and "scope" in v


def cq_N(n):
    return f"{n}%N"


def cq_atom(v) -> str:
    if isinstance(v, bool):
        return f"(ABool {'true' if v else 'false'})"
    if isinstance(v, int):
        return f"(AInt {cq_Z(v)})"
    if v is None:
        return "ANull"
    if is_scope(v):
        return f"(AScope {SCOPES[v['scope']]})"
    raise TypeError(v)


def cq_oval(v) -> str:
    if is_expr(v):
        return f"(OExpr {cq_N(v['expr'][0])})"
    return f"(OLit {cq_atom(v)})"


def cq_kvs(kvs, val=cq_oval) -> str:
    return cq_list([f"({cq_N(KCODE[k])}, {val(v)})" for k, v in kvs])


def cq_chain(chain) -> str:
    return cq_list([f"({'COpt' if op == 'opt' else 'CExport'} {cq_kvs(kvs)})" for op, kvs in chain])


def cq_taskdef(n) -> str:
    return f"{{| td_opts := {cq_kvs(n['opts'])}; td_export := {cq_kvs(n['export'])} |}}"


def cq_node(n) -> str:
    return f"{{| nd_def := {cq_taskdef(n)}; nd_chain := {cq_chain(n['chain'])} |}}"


def cq_tree(n) -> str:
    return f"(JNode {cq_N(n['uid'])} {cq_node(n)} {cq_list([cq_tree(k) for k in n['kids']])})"


def cq_keys(ks) -> str:
    return cq_list([cq_N(KCODE[k]) for k in sorted(ks)])


def cq_obs(o) -> str:
    uid, opts, ex = o
    return f"({cq_N(uid)}, {cq_kvs(sorted(opts.items()), cq_atom)}, {cq_keys(ex)})"


def exprs_of(kvs):
    return [v["expr"] for _, v in kvs if is_expr(v)]


def tree_exprs(n):
    out = exprs_of(n["opts"]) + exprs_of(n["export"])
    for _, kvs in n["chain"]:
        out += exprs_of(kvs)
    for k in n["kids"]:
        out += tree_exprs(k)
    return out


def cq_table(tree) -> str:
    return cq_list([f"({cq_N(u)}, {cq_atom(a)})" for u, a in tree_exprs(tree)])


def tree_nodes(n):
    yield n
    for k in n["kids"]:
        yield from tree_nodes(k)


def tree_size(n):
    return sum(1 for _ in tree_nodes(n))


# ---------------------------------------------------------------- the documented meaning, in Python
# Independent of the Coq model: per option name, "first defined of" scheduler-imposed, call-time,
# exported by the parent (names accumulate down the tree), definition.  `quirks` switches on the
# registered deviations of the code as shipped, only to classify a mismatch as a known finding.
def truthy(a):
    return True if is_scope(a) else bool(a)


def norm_cache(d):
    """the documented synonym: cache=True is cache_scope=BACKEND, cache=False is cache_scope=CSE"""
    if "cache" in d:
        v = d.pop("cache")
        d["cache_scope"] = {"scope": "BACKEND" if truthy(v) else "CSE"}
    return d


def syn_names(names):
    return names | ({"cache_scope"} if "cache" in names else set())


def declared(n, quirks=()):
    """(definition options, call-time options, names this call exports)"""
    base = norm_cache({**dict(n["opts"]), **dict(n["export"])})
    names = set(k for k, _ in n["export"])
    names = names if "d2" in quirks else syn_names(names)
    if "prov" in base:
        names = names | {"prov"}
    call, cnames = {}, set(names)
    for op, kvs in n["chain"]:
        call = norm_cache({**call, **dict(kvs)})
        if op == "export":
            cnames = syn_names(cnames | set(k for k, _ in kvs))
        elif "d1" in quirks:
            cnames = set()
        if "prov" in base or "prov" in call:
            cnames = cnames | {"prov"}
    return base, call, names | cnames


def spec_job(parent, n, nocache, quirks=()):
    """parent: None or (options, exported names). Returns (options, exported names, [expr uid evaluated])."""
    base, call, names = declared(n, quirks)
    p_opts, p_names = parent if parent else ({}, set())
    exported = names | p_names
    ev = lambda v: v["expr"][1] if is_expr(v) else v  # noqa: E731
    opts, used = {}, []
    for k in KEYS:
        if k == "prov" and parent and not truthy(p_opts.get("prov", True)):
            opts[k] = False                      # imposed: the parent does not record provenance
        elif k == "cache_scope" and nocache:
            opts[k] = {"scope": "CSE"}           # imposed: run(cache=False)
        elif k in call:
            opts[k] = ev(call[k])
            used += [call[k]["expr"][0]] if is_expr(call[k]) else []
        elif k in p_names and k in p_opts:
            opts[k] = p_opts[k]                  # exported by an ancestor: the value the parent runs with
        elif k in base:
            opts[k] = ev(base[k])
            used += [base[k]["expr"][0]] if is_expr(base[k]) else []
    if not truthy(opts.get("prov", True)):
        opts["cache_scope"] = {"scope": "NONE"}  # imposed: no provenance, no caching
    return opts, exported, used


def spec_tree(prog, quirks=()):
    """{uid: (options, exported names)} for every job the documented semantics runs, or "crash"."""
    out = {}
    nocache = prog["nocache"]
    root_task = spec_job(None, {"opts": [], "export": [], "chain": []}, nocache)[:2]

    def go(parent, n):
        o, ex, used = spec_job(parent, n, nocache, quirks)
        out[n["uid"]] = (o, ex)
        for e in used:   # the expression is evaluated by a job of its own under the same parent
            out[e] = spec_job(parent, {"opts": [], "export": [], "chain": []}, nocache, quirks)[:2]
        for k in n["kids"]:
            go((o, ex), k)

    root = prog["tree"]
    has_expr = bool(tree_exprs({**root, "kids": []}))
    if prog["wrap"] or (has_expr and "d3" not in quirks):
        go(root_task, root)
    else:
        # as shipped (d3): the root job and the jobs evaluating its option expressions have no parent;
        # the second of them that records its start crashes the run (a job records iff it records provenance)
        o, _, used = spec_job(None, root, nocache, quirks)
        if len(used) + (1 if truthy(o.get("prov", True)) else 0) >= 2:
            return "crash"
        go(None, root)
    return out


def canon_atom(a):
    return ("scope", a["scope"]) if is_scope(a) else (type(a).__name__, a)


def canon_run(r):
    if isinstance(r, str):     # "crash" or "error: ..."
        return r
    return {u: (tuple(sorted((k, canon_atom(v)) for k, v in o.items())), tuple(sorted(ex))) for u, (o, ex) in r.items()}


def classify(prog, got):
    """None if `got` is the documented result; else (finding key, description)."""
    want = canon_run(spec_tree(prog))
    g = canon_run(got)
    if g == want:
        return None
    for quirks, key in ((("d1",), KEY_D1), (("d2",), KEY_D2), (("d3",), KEY_D3), (("d1", "d2"), KEY_D1),
                        (("d1", "d3"), KEY_D1), (("d2", "d3"), KEY_D2), (("d1", "d2", "d3"), KEY_D1)):
        if canon_run(spec_tree(prog, quirks)) == g:
            return key, describe_diff(want, g)
    return "tree:" + json.dumps(prog, sort_keys=True)[:240], describe_diff(want, g)


def describe_diff(want, got):
    if isinstance(want, str) or isinstance(got, str):
        return f"documented: {want if isinstance(want, str) else 'runs'}, implementation: {got if isinstance(got, str) else 'runs'}"
    for u in sorted(set(want) | set(got)):
        if want.get(u) != got.get(u):
            return f"job {u}: documented (options, exported) = {want.get(u)!r}, implementation {got.get(u)!r}"
    return "?"


# ---------------------------------------------------------------- generators
ORD_KEYS = ["memory", "a", "b", "c"]
_UID = itertools.count(1)


class Gen:
    def __init__(self, rng):
        self.rng = rng

    def atom(self):
        return self.rng.choice([0, 1, 2, 5, -3, True, False, None])

    def value(self, k, exprs):
        r = self.rng
        if k == "cache_scope":
            return {"scope": r.choice(["NONE", "CSE", "BACKEND"])}
        if k in ("cache", "prov"):
            v = r.choice([True, False, False, 0, 1, None])
            if k == "prov" and exprs and r.random() < 0.15:
                return {"expr": [next(_UID), v]}
            return v
        if exprs and r.random() < 0.3:
            return {"expr": [next(_UID), self.atom()]}
        return self.atom()

    def kvs(self, exprs, maxn=3, special=0.35):
        r = self.rng
        ks = []
        for _ in range(r.randint(0, maxn)):
            k = r.choice(KEYS[:3]) if r.random() < special else r.choice(ORD_KEYS)
            if k not in ks:
                ks.append(k)
        return [[k, self.value(k, exprs)] for k in ks]

    def chain(self, exprs, simple):
        r = self.rng
        n = r.choice([0, 1, 1, 2, 2, 3])
        out = []
        for i in range(n):
            op = r.choice(["opt", "export"])
            if simple and op == "opt" and any(o == "export" for o, _ in out):
                op = "export"          # simple: never .options() after .export_options()
            kvs = self.kvs(exprs)
            if kvs:
                out.append([op, kvs])
        return out

    def node(self, depth, exprs, simple):
        r = self.rng
        export = self.kvs(exprs, 2) if r.random() < 0.35 else []
        if simple:
            export = [kv for kv in export if kv[0] != "cache"]
        opts = [kv for kv in self.kvs(exprs, 3) if kv[0] not in dict(export)]
        n = {"uid": next(_UID), "opts": opts, "export": export, "chain": self.chain(exprs, simple), "kids": []}
        if depth > 0:
            for _ in range(r.choice([0, 1, 1, 2, 2])):
                n["kids"].append(self.node(depth - 1, exprs, simple))
        return n

    def program(self, simple):
        r = self.rng
        wrap = r.random() < 0.6
        tree = self.node(r.choice([1, 2, 2, 3]), exprs=True, simple=simple)
        if simple and not wrap:
            tree = self.strip_root_exprs(tree)
        return {"nocache": r.random() < 0.25, "wrap": wrap, "tree": tree}

    @staticmethod
    def strip_root_exprs(t):
        lit = lambda kvs: [[k, (v["expr"][1] if is_expr(v) else v)] for k, v in kvs]  # noqa: E731
        return {**t, "opts": lit(t["opts"]), "export": lit(t["export"]), "chain": [[o, lit(k)] for o, k in t["chain"]]}


def renumber(n):
    """fresh identities (task names, call arguments) so that nothing is answered from the cache"""
    def val(v):
        return {"expr": [next(_UID), v["expr"][1]]} if is_expr(v) else v
    kv = lambda kvs: [[k, val(v)] for k, v in kvs]  # noqa: E731
    return {"uid": next(_UID), "opts": kv(n["opts"]), "export": kv(n["export"]),
            "chain": [[o, kv(k)] for o, k in n["chain"]], "kids": [renumber(k) for k in n["kids"]]}


# ---------------------------------------------------------------- running the real code
def py_value(v):
    if is_expr(v):
        return val_task()(v["expr"][0], py_value(v["expr"][1]))
    if is_scope(v):
        return v["scope"]
    return v


def to_atom(v):
    from redun.task import CacheScope
    if isinstance(v, CacheScope):
        return {"scope": v.value}
    if v is None or isinstance(v, (bool, int)):
        return v
    raise TypeError(f"unexpected evaluated option value {v!r}")


_VAL = None
_TASKS = {}


def val_task():
    global _VAL
    if _VAL is None:
        from redun import task

        @task(namespace="rv_c27", name="val", version="1")
        def val(uid, a):
            return a

        _VAL = val
    return _VAL


def _node_body(uid, kids):
    return [build_call(k) for k in kids]


def make_task(n):
    """@task(export_options=..., **opts) under a name of its own (one definition per job)"""
    from redun import task
    uid = n["uid"]
    if uid not in _TASKS:
        kw = {k: py_value(v) for k, v in n["opts"]}
        ex = {k: py_value(v) for k, v in n["export"]}
        _TASKS[uid] = task(namespace="rv_c27", name=f"n{uid}", version="1", export_options=ex or None, **kw)(_node_body)
    return _TASKS[uid]


def apply_chain(t, chain):
    for op, kvs in chain:
        kw = {k: py_value(v) for k, v in kvs}
        t = t.options(**kw) if op == "opt" else t.export_options(**kw)
    return t


def build_call(n):
    return apply_chain(make_task(n), n["chain"])(n["uid"], n["kids"])


def recording_executor():
    from redun.executors.base import Executor

    class RecordingExecutor(Executor):
        """The interposed executor: notes the options each job is submitted with, then runs it inline."""

        def __init__(self, name="default"):
            super().__init__(name)
            self.seen = []

        def submit(self, job):
            self.seen.append((job.task.fullname, job.expr.args, dict(job.get_options()), set(job.export_options)))
            args, kwargs = job.args
            try:
                r = job.task.func(*args, **kwargs)
            except Exception as e:  # noqa: BLE001
                self._scheduler.reject_job(job, e)
            else:
                self._scheduler.done_job(job, r)

        submit_script = submit

    return RecordingExecutor()


class Real:
    def __init__(self):
        self.cwd = scratch_dir("rv_c27_")
        self.old = os.getcwd()
        os.chdir(self.cwd)
        import redun  # noqa: F401
        logging.getLogger("redun").setLevel(logging.ERROR)
        self.s = None

    def close(self):
        os.chdir(self.old)
        shutil.rmtree(self.cwd, ignore_errors=True)

    def sched(self):
        if self.s is None:
            from redun import Scheduler
            from redun.config import Config
            self.ex = recording_executor()
            self.s = Scheduler(config=Config({"backend": {"db_uri": "sqlite:///:memory:"}}), executor=self.ex)
            self.s.load()
            self.s.logger.disabled = True
        return self.s

    def run(self, prog):
        """{uid: (options, exported names)} as seen by the executor, "crash" for the root-expression
        crash, "error: ..." for any other failure of the run."""
        s = self.sched()
        self.ex.seen.clear()
        expr = build_call(prog["tree"])
        try:
            s.run([expr] if prog["wrap"] else expr, cache=not prog["nocache"])
        except (KeyError, AttributeError) as e:
            # evaluation of an option expression without a parent job (record_job_start / get_context)
            self.s = None
            if prog["wrap"]:
                return f"error: {type(e).__name__}: {e}"[:300]
            return "crash"
        except Exception as e:  # noqa: BLE001  -- any other failure of the run is a result to be judged, not a harness error
            self.s = None
            return f"error: {type(e).__name__}: {e}"[:300]
        out = {}
        for name, args, opts, ex in self.ex.seen:
            if name == "redun.root_task":
                continue
            uid = args[0]
            if uid in out:
                return f"error: job {uid} submitted twice"
            unknown = [k for k in list(opts) + list(ex) if k not in KCODE]
            if unknown:
                return f"error: job {uid}: unexpected option names {unknown}"
            try:
                out[uid] = ({k: to_atom(v) for k, v in opts.items()}, ex)
            except TypeError as e:      # an option value the job runs with is not an evaluated atom
                return f"error: job {uid}: {e}"[:300]
        return out


def real_chain(n):
    """(override, exported names) of the Task object built by the chain, or the exception name"""
    try:
        t = apply_chain(make_task(n), n["chain"])
    except (TypeError, ValueError) as e:
        return type(e).__name__
    return t._task_options_override, set(t._export_options)


def cq_run_result(got) -> str:
    if got == "crash":
        return "(Err ERootExpr)"
    if isinstance(got, str):   # the run failed in a way the model does not know: never matches
        return "(Err ENoSuchJob)"
    return "(Ok " + cq_list([cq_obs((u, o, ex)) for u, (o, ex) in sorted(got.items())]) + ")"


# ---------------------------------------------------------------- witnesses of the refutation theorems
def W_D1():
    # parent.export_options(a=1).options(b=2)(...) -> child: `a` is not inherited
    return {"nocache": False, "wrap": False, "tree": {
        "uid": 1, "opts": [], "export": [], "chain": [["export", [["a", 1]]], ["opt", [["b", 2]]]],
        "kids": [{"uid": 2, "opts": [], "export": [], "chain": [], "kids": []}]}}


def W_D2():
    # @task(export_options={"cache": False}) parent -> child: cache_scope is not inherited
    return {"nocache": False, "wrap": False, "tree": {
        "uid": 1, "opts": [], "export": [["cache", False]], "chain": [],
        "kids": [{"uid": 2, "opts": [], "export": [], "chain": [], "kids": []}]}}


def W_D3():
    # @task(memory=val(3)) as the root call: the scheduler crashes
    return {"nocache": False, "wrap": False, "tree": {
        "uid": 1, "opts": [["memory", {"expr": [3, 5]}]], "export": [], "chain": [], "kids": []}}


WITNESSES = [("d1", KEY_D1, W_D1, "keeps_exports",
              "t.export_options(a=1).options(b=2)(...): the child job does not inherit `a` (Task.options() builds the "
              "new Task without the export set, so the name exported earlier in the chain is forgotten; the other order works)"),
             ("d2", KEY_D2, W_D2, "deco_synonym",
              "@task(export_options={'cache': False}): child jobs do not inherit cache_scope=CSE (the decorator exports the "
              "name `cache`, which Task._validate has replaced by `cache_scope`; only Task.export_options() adds the synonym)"),
             ("d3", KEY_D3, W_D3, "root_checks_options",
              "a root call whose task has an expression-valued option (e.g. @task(memory=val(3))) crashes the scheduler "
              "(KeyError in record_job_start / AttributeError for get_context): needs_root_task ignores options, so the "
              "option expression is evaluated without a parent job")]


# ---------------------------------------------------------------- the check
class Check(PropertyCheck):
    id = "C27"
    module = "Props.C27"
    theorems = ["C27_options_precedence", "C27_tree_precedence", "C27_imposed_wins", "C27_options_evaluated",
                "C27_exported_value_is_parents", "C27_export_names_accumulate", "C27_chain_options",
                "C27_export_refuted", "C27_chain_exports_fixed", "C27_deco_synonym_refuted", "C27_deco_synonym_fixed",
                "C27_root_expr_refuted", "C27_root_expr_fixed", "C27_root_expr_shipped_partial", "C27_nonvacuous"]
    extra_modules = ["Model.Options"]
    allowed_axioms = []
    assumptions = [
        "option names are str and option values are ints, bools, None, CacheScope members or lazy expressions; every name "
        "other than cache, cache_scope and prov is an ordinary option for the modelled code (check_valid, limits, executor "
        "... are not given special treatment by the option machinery itself)",
        "evaluation of an option expression is the parameter ev of the model (a function of the expression); that it happens "
        "in the parent job's scope is checked on the implementation side (the job evaluating the expression is observed "
        "with the options it inherits from that parent)",
        "executor-level defaults (redun.ini executor sections) are applied by the executors themselves and are outside the "
        "four layers the property names",
        "each job tree is run with fresh task names and call arguments so that every job reaches the executor (no cache/CSE hits)",
    ]
    rule = ("random job trees (depth <= 3, <= 2 children per job) over one task definition per job: definition options and "
            "decorator export_options over 7 names (cache, cache_scope, prov and 4 ordinary ones), chains of up to 3 "
            ".options()/.export_options() calls, literal and lazy (task-call) values, run(cache=False) in 25%, bare or "
            "wrapped root call; observed = job.get_options() and job.export_options at executor.submit for every job; "
            "non-trivial = at least 2 jobs and one exported name; distinct by program JSON")

    flags = None

    # ------------------------------------------------------------------ translator
    def translate(self):
        try:
            text, flags = tr_options.translate(pins=PINS)
        except astutil.TranslateError as e:
            raise TranslateError(str(e))
        self.flags = flags
        GEN.mkdir(exist_ok=True)
        p = GEN / "C27Gen.v"
        p.write_text(text)
        return [p]

    def cfg_flags(self):
        return self.flags or {"keeps_exports": False, "deco_synonym": False, "root_checks_options": False}

    def cq_cfg(self):
        f = self.cfg_flags()
        b = lambda x: "true" if x else "false"  # noqa: E731
        return ("{| merge_order := std_order; keeps_exports := %s; deco_synonym := %s; root_checks_options := %s |}"
                % (b(f["keeps_exports"]), b(f["deco_synonym"]), b(f["root_checks_options"])))

    # ------------------------------------------------------------------ correspondence
    def correspond(self):
        g = Gen(self.rng)
        quick = self.tier == "quick"
        terms, descr = [], []
        # (a) single chains on a task definition: override dict, exported names, construction errors
        n_chain = 400 if quick else 6000
        for i in range(n_chain):
            n = g.node(0, exprs=True, simple=False)
            r = self.rng.random()
            if r < 0.06:     # construction errors: cache=<expression>, cache_scope=<not a scope>
                n["chain"].append(["opt", [["cache", {"expr": [next(_UID), True]}]]])
            elif r < 0.12:
                n["chain"].append([self.rng.choice(["opt", "export"]), [["cache_scope", {"expr": [next(_UID), 1]}]]])
            got = real_chain(n)
            if isinstance(got, str):
                exp = {"TypeError": "Err ECoerceBool", "ValueError": "Err EBadScope"}[got]
                terms.append(f"match chain_of cfg {cq_taskdef(n)} {cq_chain(n['chain'])} with {exp} => true | _ => false end")
            else:
                over, ex = got
                okvs = []
                for k, v in over.items():
                    okvs.append([k, self.raw_value(v)])
                terms.append(f"match chain_of cfg {cq_taskdef(n)} {cq_chain(n['chain'])} with Ok (o, e) => "
                             f"odict_eqb o {cq_kvs(okvs)} && set_eqb e {cq_keys(ex)} | Err _ => false end")
            descr.append(("chain", json.dumps(n)))
            self.count(("c", json.dumps(n)) if len(n["chain"]) >= 2 else None)
            self.stat("chain_ops", len(n["chain"]))
            self.stat("chain_result", got if isinstance(got, str) else "task")
        # (b) job trees under the real scheduler, options observed by the interposed executor
        n_tree = 60 if quick else 1200
        real = Real()
        self.tree_cases = []
        try:
            for i in range(n_tree):
                prog = g.program(simple=False)
                got = real.run(prog)
                self.tree_cases.append((prog, got))
                terms.append(f"res_obs_match (run_execution (ev_table {cq_table(prog['tree'])}) cfg "
                             f"{'true' if prog['nocache'] else 'false'} {'true' if prog['wrap'] else 'false'} "
                             f"{cq_tree(prog['tree'])}) {cq_run_result(got)}")
                descr.append(("tree", json.dumps(prog)))
                sz = tree_size(prog["tree"])
                nontrivial = not isinstance(got, str) and sz >= 2 and any(ex for _, ex in got.values())
                self.count(("t", json.dumps(prog)) if nontrivial else None)
                self.stat("tree_jobs", sz)
                self.stat("tree_result", got.split(":")[0] if isinstance(got, str) else "ran")
                if not isinstance(got, str):
                    self.stat("observed_jobs", "total", len(got))
                    self.sample({"op": "job_tree", "jobs": len(got), "nocache": prog["nocache"], "wrap": prog["wrap"],
                                 "observed": json.dumps({u: [o, sorted(e)] for u, (o, e) in got.items()})[:300]}, 5)
        finally:
            real.close()
        pre = (f"Definition cfg : opt_cfg := {self.cq_cfg()}.\n"
               "Definition oval_eqb (a b : option oval) : bool := match a, b with\n"
               "  | Some (OLit x), Some (OLit y) => atom_eqb x y | Some (OExpr x), Some (OExpr y) => N.eqb x y\n"
               "  | None, None => true | _, _ => false end.\n"
               "Definition odict_eqb (a b : dict oval) : bool :=\n"
               "  forallb (fun k => oval_eqb (lookup k a) (lookup k b)) (keys a ++ keys b).\n")
        ok, failing, diags = run_bool_cases("C27", ["Model.Options"], "From Coq Require Import NArith.\n" + pre, terms, chunk=120)
        self.ob("correspondence",
                f"model ({self.cfg_flags()}) == implementation on {len(terms)} generated cases: {n_chain} option chains "
                f"(override dict, exported names, construction errors), {n_tree} job trees run under the real Scheduler "
                f"(options and exported names of every job at executor.submit)",
                ok and not failing, "\n".join(diags) + "".join(f"\nmismatch: {descr[i]}" for i in failing[:6]))

    def raw_value(self, v):
        """an entry of Task._task_options_override -> program value"""
        from redun.expression import TaskExpression
        from redun.task import CacheScope
        if isinstance(v, TaskExpression):
            return {"expr": [v.args[0], None]}
        if isinstance(v, CacheScope):
            return {"scope": v.value}
        return v

    # ------------------------------------------------------------------ implementation oracle
    def add(self, key, what, replay):
        self.findings.append(Finding(key[:300], what, replay))

    def oracle(self):
        g = Gen(self.rng)
        quick = self.tier == "quick"
        flags = self.cfg_flags()
        real = Real()
        n = 0
        before = len(self.findings)
        try:
            # 0. corpus
            corpus = CORPUS / "C27.jsonl"
            if corpus.exists():
                for line in corpus.read_text().splitlines():
                    if line.strip():
                        n += 1
                        self.check_prog(real, json.loads(line), "corpus")
            # 1. the witnesses of the three refutation theorems, replayed on the real code
            for tag, key, mk, flag, text in WITNESSES:
                n += 1
                prog, got = self.run_fresh(real, mk())
                c = classify(prog, got)
                reproduced = c is not None
                self.stat("oracle", f"witness_{tag}_" + ("reproduces" if reproduced else "does_not_reproduce"))
                if reproduced:
                    self.add(key if c[0] == key else c[0], text if c[0] == key else c[1],
                             {"kind": "tree", "program": prog, "why": c[1]})
                expect = not flags[flag]
                self.ob("oracle", f"witness of the {tag} refutation theorem "
                        + ("reproduces on the code (as-shipped variant)" if expect else "no longer reproduces (repaired variant)"),
                        reproduced == expect, f"translator says {flag}={flags[flag]}, witness reproduces: {reproduced}")
            # 2. the trees already run for the correspondence
            for prog, got in getattr(self, "tree_cases", []):
                n += 1
                self.judge(prog, got, "random")
            # 3. small scope: every chain of <= 2 operations over a/cache/prov on parent and on child
            ops = [["opt", [["a", 1]]], ["export", [["a", 2]]], ["export", [["cache", False]]], ["opt", [["prov", False]]],
                   ["export", [["b", {"expr": [0, 7]}]]], ["opt", [["cache_scope", {"scope": "BACKEND"}]]]]
            chains = [[]] + [[o] for o in ops] + [[o, p] for o in ops for p in ops]
            defs = [([], []), ([["a", 0], ["prov", True]], []), ([], [["a", 3]]), ([["b", 1]], [["cache", True]])]
            budget = 90 if quick else 1500
            combos = [(pc, cc, pd, cd, nc) for pc in chains for cc in chains[:7] for pd in defs for cd in defs[:2]
                      for nc in (False, True)]
            self.rng.shuffle(combos)
            for pc, cc, pd, cd, nc in combos[:budget]:
                n += 1
                prog = {"nocache": nc, "wrap": True, "tree": {
                    "uid": 0, "opts": pd[0], "export": pd[1], "chain": pc,
                    "kids": [{"uid": 0, "opts": cd[0], "export": cd[1], "chain": cc, "kids": []}]}}
                self.check_prog(real, prog, "small")
            # 4. random trees, half of them free of the registered patterns
            for i in range(50 if quick else 1500):
                n += 1
                self.check_prog(real, g.program(simple=(i % 2 == 0)), "random", fresh=False)
            # 5. histories in one process: the same Task objects (same uids) used first under an ancestor that
            #    exports names, then on their own -- each run is judged against the spec of its own tree only, so
            #    anything a run leaves behind on a Task object (seeded change C27a) shows up in the later run
            for i in range(25 if quick else 400):
                base = {**g.program(simple=True), "nocache": True}      # no cache: every job of every run is submitted
                t = base["tree"]
                names = [k for k, _ in t["opts"]] or ["a"]
                for k in t["kids"]:
                    names += [kk for kk, _ in k["opts"]]
                exp = [[nm, g.atom()] for nm in sorted(set(names))[:2] if nm not in ("cache_scope", "check_valid")]
                top = {"uid": 10 ** 6 + self.rng.randrange(10 ** 6), "opts": [], "export": exp, "chain": [], "kids": [t]}
                hist = [{**base, "tree": top}, base, {**base, "tree": top}, base]
                for idx, pr in enumerate(hist):
                    n += 1
                    got = real.run(pr)
                    c = classify(pr, got)
                    self.stat("oracle_history", "ok" if c is None else ("known" if c[0] in (KEY_D1, KEY_D2, KEY_D3) else "NEW"))
                    if c is not None:
                        key = c[0] if c[0] in (KEY_D1, KEY_D2, KEY_D3) or idx == 0 else "history:" + c[0]
                        self.add(key, c[1] + (f" (run {idx + 1} of a history reusing the same Task objects)" if idx else ""),
                                 {"kind": "history", "programs": hist[:idx + 1], "why": c[1]})
                        break
        finally:
            real.close()
        self.evaluations += n
        self.stat("oracle", "cases", n)
        self.findings.sort(key=lambda f: len(json.dumps(f.replay, default=str)))
        new = [f for f in self.findings[before:] if f.key not in (KEY_D1, KEY_D2, KEY_D3)]
        self.ob("oracle", f"implementation oracle (documented precedence per option name, exported names, evaluation; "
                f"independent Python statement) on {n} job trees run under the real Scheduler: nothing but the registered findings",
                not new, "; ".join(f.what for f in new[:4]))

    def run_fresh(self, real, prog):
        p2 = {**prog, "tree": renumber(prog["tree"])}
        return p2, real.run(p2)

    def check_prog(self, real, prog, kind, fresh=True):
        p2 = {**prog, "tree": renumber(prog["tree"])} if fresh else prog
        got = real.run(p2)
        self.judge(p2, got, kind)

    def judge(self, prog, got, kind):
        c = classify(prog, got)
        self.stat("oracle_" + kind, "ok" if c is None else ("known" if c[0] in (KEY_D1, KEY_D2, KEY_D3) else "NEW"))
        if c is not None:
            self.add(c[0], c[1], {"kind": "tree", "program": prog, "why": c[1]})

    # ------------------------------------------------------------------ replay
    def replay(self, doc):
        r = doc.get("replay", {})
        if r.get("kind") == "history":
            real = Real()
            try:
                c = None
                for pr in r["programs"]:
                    c = classify(pr, real.run(pr))
            finally:
                real.close()
            print("replay:", (c[0] + ": " + c[1]) if c else "property holds on this history now")
            return 1 if c else 0
        if r.get("kind") != "tree":
            print("replay: nothing to replay (no failing input was found); broken obligations:",
                  json.dumps(doc.get("broken_obligations", []))[:2000])
            return 1
        real = Real()
        try:
            prog = {**r["program"], "tree": renumber(r["program"]["tree"])}
            got = real.run(prog)
            c = classify(prog, got)
        finally:
            real.close()
        print("replay:", (c[0] + ": " + c[1]) if c else "property holds on this input now")
        return 1 if c else 0
